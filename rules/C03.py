"""C03 - a block joins the main chain iff it meets every consensus rule (structural necessary conditions)."""
import kinds as K
from common import VERIFY

CRATES = ["ckb_chain", "ckb_verification", "ckb_verification_contextual", "ckb_store", "ckb_traits"]
EXPLANATION = ("MUSTCALL: every sub-verifier is reached on every success path of its composite under Switch::NONE (disable_* assumed false, rfc0044 active); the chain service's "
               "non-contextual step dominates block storage; every attach site in reconcile is behind a successful contextual verification, the disable_all switch or the verified prefix; "
               "REQERR: every rule keeps its rejection site(s); CMP: boundary operators of every limit/ordering rule as truth tables; "
               "refusal: once a block fails, all later dirty blocks are marked failed, the MMR is not committed and reconcile returns Err, which verify_block propagates before commit.")
NOT_DECIDED = "completeness ('every block satisfying the rules is attached') and the correctness of the context values the verifiers compare against (epoch, reward, dao: C06/C07)"

SW_OFF = [(r"Switch::disable_\w+$", False), (r"Consensus::rfc0044_active$", True)]
ST = "ckb_store::transaction::StoreTransaction::"
VC = "ckb_verification_contextual"
V = "ckb_verification"


def run(F, S, R, tier):
    # ------------------------------------------------------------ 1. composites
    def composite(key, body, required, assume=SW_OFF):
        R.guard(key, lambda: K.mustcall(R, key, body, required, S, assume=assume, what="composite verifier reaches every sub-verifier"))

    hv = F.one(V, r"HeaderVerifier<'a, DL> as ckb_verification_traits::Verifier>::verify$")
    composite("mustcall/header", hv, [r"header_verifier::PowVerifier::<.*>::verify$", r"header_verifier::NumberVerifier::<.*>::verify$",
                                      r"header_verifier::EpochVerifier::<.*>::verify$", r"header_verifier::TimestampVerifier::<.*>::verify$",
                                      r"HeaderFieldsProvider::get_header_fields$"])
    bv = F.one(V, r"BlockVerifier<'a> as ckb_verification_traits::Verifier>::verify$")
    composite("mustcall/block", bv, [r"BlockProposalsLimitVerifier::verify$", r"BlockBytesVerifier::verify$", r"block_verifier::CellbaseVerifier::verify$",
                                     r"block_verifier::DuplicateVerifier::verify$", r"MerkleRootVerifier::verify$"])
    nbt = F.one(V, r"NonContextualBlockTxsVerifier::<'a>::verify$")
    composite("mustcall/block-txs-noncontextual", nbt, [r"NonContextualTransactionVerifier::<.*>::verify$"])

    def nbt_all():
        # the per-transaction verifier runs for every transaction: the mapped iterator is block.transactions().iter(), no narrowing
        c = nbt.calls_to(r"Iterator::map$")
        srcs = nbt.operand_sources(c[0].args[0]) if c else set()
        if c and K.src_match(srcs, [r"call:.*BlockView::transactions$"]) and not any(K.NARROWING.search(s) for s in srcs):
            R.ok("mustcall/block-txs-noncontextual/all", "every transaction of the block is mapped through the non-contextual verifier", [c[0].where()])
        else:
            R.bad("mustcall/block-txs-noncontextual/all", "NonContextualBlockTxsVerifier does not map every transaction of the block", [nbt.where()])
    R.guard("mustcall/block-txs-noncontextual/all", nbt_all)
    ntv = F.one(V, r"NonContextualTransactionVerifier::<'a>::verify$")
    composite("mustcall/tx-noncontextual", ntv, [r"VersionVerifier::<.*>::verify$", r"SizeVerifier::<.*>::verify$", r"EmptyVerifier::<.*>::verify$",
                                                 r"DuplicateDepsVerifier::<.*>::verify$", r"OutputsDataVerifier::<.*>::verify$", r"ScriptHashTypeVerifier::<.*>::verify$"])
    cbv = F.one(VC, r"ContextualBlockVerifier::<.*>::verify$")
    composite("mustcall/contextual", cbv, [r"contextual_block_verifier::EpochVerifier::<.*>::verify$", r"UnclesVerifier::<.*>::verify$", r"TwoPhaseCommitVerifier::<.*>::verify$",
                                           r"DaoHeaderVerifier::<.*>::verify$", r"RewardVerifier::<.*>::verify$", r"BlockExtensionVerifier::<.*>::verify$",
                                           r"BlockTxsVerifier::<.*>::verify$", r"ChainStore::get_block_header$", r"Consensus::next_epoch_ext$"])

    def cbv_args():
        # the verifiers look at this block in this context: parent looked up by the block's own parent hash
        gh = cbv.calls_to(r"ChainStore::get_block_header$")
        if gh and K.src_match(cbv.operand_sources(gh[0].args[1]), [r"call:.*parent_hash$"]):
            R.ok("prov/contextual-parent", "the contextual verifier's parent is the block's own parent_hash", [gh[0].where()])
        else:
            R.bad("prov/contextual-parent", "ContextualBlockVerifier does not load the parent by the block's parent hash", [cbv.where()])
        ne = cbv.calls_to(r"Consensus::next_epoch_ext$")
        if ne and K.src_match(cbv.operand_sources(ne[0].args[1]), [r"call:.*ChainStore::get_block_header$"]):
            R.ok("prov/contextual-epoch", "the expected epoch is computed from the parent header", [ne[0].where()])
        else:
            R.bad("prov/contextual-epoch", "next_epoch_ext is not evaluated on the parent header", [cbv.where()])
    R.guard("prov/contextual-parent", cbv_args)

    # block txs verifier: each transaction (miss arm) goes through the full contextual verifier, cycles are summed and bounded
    btv = F.one(VC, r"BlockTxsVerifier::<.*>::verify$")

    def btv_rules():
        cl = [b for b in K.with_nested(btv) if b.kind == "Closure" and b.calls_to(r"ContextualTransactionVerifier::<.*>::verify$")]
        if not cl:
            R.bad("mustcall/block-txs/anchor-lost", "per-transaction closure not found in BlockTxsVerifier::verify", [btv.where()])
            return
        c = cl[0]
        R.fn(c)
        arms = K.enum_arms(c, "core::option::Option", [r"call:.*HashMap.*::get$"])
        if not arms:
            R.bad("mustcall/block-txs/anchor-lost", "cache hit/miss split not found", [c.where()])
            return
        miss = arms[0][1].get("None", arms[0][2])
        K.mustcall(R, "mustcall/block-txs/miss", c, [r"ContextualTransactionVerifier::<.*>::verify$"], S, start=miss, allow_err_exits=False,
                   what="a transaction without a cached verdict is fully verified")
        for call in c.calls_to(r"ContextualTransactionVerifier::<.*>::verify$"):
            if K.src_match(c.operand_sources(call.args[1]), [r"call:.*Consensus::max_block_cycles$"]):
                R.ok("prov/block-txs/cycle-limit", "per-transaction cycle limit is the block cycle limit", [call.where()])
            else:
                R.bad("prov/block-txs/cycle-limit", "per-transaction cycle limit is not max_block_cycles", [call.where()])
        K.cmp_table(R, "cmp/block-cycles", btv, [r"call:.*Iterator::sum$"], [r"call:.*Consensus::max_block_cycles$"], {"<": "CONT", "=": "CONT", ">": "ERR"},
                    K.classify_err(), what="sum of cycles > max_block_cycles rejects")
        sk = [x for x in btv.calls_to(r"ParallelIterator::skip$|IndexedParallelIterator::skip$")]
        if sk and K.src_match(btv.operand_sources(sk[0].args[1]), [r"lit:1$"]):
            R.ok("prov/block-txs/skip-cellbase", "only the cellbase is exempt from transaction verification (skip(1))", [sk[0].where()])
        else:
            R.bad("prov/block-txs/skip-cellbase", "BlockTxsVerifier skips other than exactly the first transaction", [btv.where()])
    R.guard("mustcall/block-txs", btv_rules)

    # ------------------------------------------------------------ chain service gate
    def gate():
        ncv = F.need("ckb_chain::chain_service::ChainService::non_contextual_verify")
        K.mustcall(R, "mustcall/noncontextual-step", ncv, [r"Verifier::verify$|BlockVerifier<'a> as ckb_verification_traits::Verifier>::verify$", r"NonContextualBlockTxsVerifier::<.*>::verify$"], S,
                   what="the chain service's non-contextual step runs both verifiers")
        ap = F.need("ckb_chain::chain_service::ChainService::asynchronous_process_block")
        ins = {c.bb for c in ap.calls_to(r"ChainService::insert_block$")}
        if not ins:
            R.bad("order/verify-before-store/anchor-lost", "insert_block call not found", [ap.where()])
            return
        K.mustcall(R, "order/verify-before-store/no-switch", ap, [r"ChainService::non_contextual_verify$"], S, ends=ins, allow_err_exits=False,
                   assume=[(r"Option::<.*>::is_none$", True)], what="a block submitted without a switch is stored only after non-contextual verification")
        K.mustcall(R, "order/verify-before-store/switch-none", ap, [r"ChainService::non_contextual_verify$"], S, ends=ins, allow_err_exits=False,
                   assume=[(r"Option::<.*>::is_none$", False), (r"Switch::disable_non_contextual$", False)],
                   drop_edges=K.variant_edges(ap, "core::option::Option", [r"call:.*LonelyBlock::switch$"], "Some"), what="Switch::NONE => non-contextual verification before storage")
        # a failed verification never stores the block
        arms = K.enum_arms(ap, "core::result::Result", [r"call:.*ChainService::non_contextual_verify$"])
        if not arms or "Err" not in arms[0][1]:
            R.bad("order/verify-before-store/err-arm/anchor-lost", "match on the non-contextual result not found", [ap.where()])
        else:
            reach = ap.reachable(arms[0][1]["Err"])
            if reach & ins:
                R.bad("order/verify-before-store/err-arm", "a block failing non-contextual verification can still be stored", [ap.where(sorted(reach & ins)[0])])
            else:
                R.ok("order/verify-before-store/err-arm", "the Err arm of non-contextual verification never reaches insert_block", [ap.where(arms[0][0])])
            # F25 (fixed): the mark is for the HASH and is only right when the failing body is the committed one and the hash is not verified already
            # (C01/order/invalid-needs-commitment decides that guard); under that guard the failure is marked, and it is reported on every path
            K.mustcall(R, "mustcall/noncontextual-fail", ap, [r"Shared::insert_block_status$", r"LonelyBlock::execute_callback$"], S, start=arms[0][1]["Err"], allow_err_exits=False,
                       assume=[(r"ChainService::failure_is_about_the_hash$", True)], what="non-contextual failure of the committed body: marked invalid and reported")
            K.mustcall(R, "mustcall/noncontextual-fail/always-reported", ap, [r"LonelyBlock::execute_callback$"], S, start=arms[0][1]["Err"], allow_err_exits=False,
                       what="every non-contextual failure is reported to the submitter")
        # genesis-number blocks never reach storage
        K.cmp_table(R, "cmp/genesis-number", ap, [r"call:.*BlockView::number$"], [r"lit:1$"], {"<": "STOP", "=": "GO", ">": "GO"},
                    K.classify_reach([r"ChainService::insert_block$"], "GO", "STOP"), what="number < 1 is never stored")
    R.guard("order/verify-before-store", gate)

    # ------------------------------------------------------------ reconcile: attach only behind verification
    def attach_gate():
        rec = F.need(VERIFY + "reconcile_main_chain")
        sites = rec.calls_to(ST + "attach_block$")
        ver = rec.calls_to(r"ContextualBlockVerifier::<.*>::verify$")
        res = rec.calls_to(VERIFY + r"resolve_block_transactions$")
        if len(sites) < 3 or not ver or not res:
            R.bad("order/attach-gate/anchor-lost", "expected 3 attach sites, a contextual verify and a resolve call in reconcile_main_chain", [rec.where()])
            return
        drop = K.assumed_edges(rec, [(r"Switch::disable_all$", False)])
        reach_full, _ = K.reach_with(rec, 0, drop_edges=drop)
        ok_arms = [a for a in K.enum_arms(rec, "core::result::Result", [r"call:.*ContextualBlockVerifier::<.*>::verify$"]) if "Ok" in a[1]]
        res_ok = [a for a in K.enum_arms(rec, "core::result::Result", [r"call:.*resolve_block_transactions$"]) if "Ok" in a[1]]
        nxt = [c for c in rec.calls if c.callee.endswith("Iterator::next")]
        kinds = []
        for c in sites:
            R.sites += 1
            if ok_arms and res_ok and any(rec.dominates(a[1]["Ok"], c.bb) for a in ok_arms) and any(rec.dominates(a[1]["Ok"], c.bb) for a in res_ok):
                kinds.append("V")
                continue
            if c.bb not in reach_full:
                kinds.append("D")
                continue
            loops = [n for n in nxt if rec.dominates(n.bb, c.bb)]
            if loops and K.src_match(rec.operand_sources(loops[-1].args[0]), [r"call:.*Iterator::take$", r"call:.*ForkChanges::verified_len$"]):
                kinds.append("P")
                continue
            kinds.append("?")
            R.bad("order/attach-gate", "attach_block at %s is neither behind a successful resolve+contextual verification, nor behind Switch::disable_all, nor in the already-verified prefix loop" % c.where(), [c.where()])
        if "?" not in kinds:
            if "V" not in kinds:
                R.bad("order/attach-gate", "no attach site behind the contextual verifier's Ok arm", [rec.where()])
            else:
                R.ok("order/attach-gate", "attach sites classified %s (V=verified now, D=disable_all, P=previously verified prefix)" % kinds, [c.where() for c in sites])
        # the verified prefix is exactly the blocks without a dirty ext
        vl = F.need("ckb_chain::utils::forkchanges::ForkChanges::verified_len")
        srcs = set()
        for blk in vl.blocks:
            for st in blk["s"]:
                if st[1].get("k") == "bin" and st[1]["op"].startswith("Sub"):
                    srcs |= vl.operand_sources(st[1]["a"]) | {"RHS:" + s for s in vl.operand_sources(st[1]["b"])}
        if any("attached_blocks" in s and not s.startswith("RHS") for s in srcs) and any(s.startswith("RHS") and "dirty_exts" in s for s in srcs):
            R.ok("affine/verified-len", "verified_len = attached_blocks.len() - dirty_exts.len()", [vl.where()])
        else:
            R.bad("affine/verified-len", "ForkChanges::verified_len is not attached_blocks.len() - dirty_exts.len()", [vl.where()])
        # an ext counts as dirty exactly when its verdict is None
        for fn in ("find_fork_until_latest_common", "alignment_fork"):
            b = F.need(VERIFY + fn)
            isn = [c for c in b.calls_to(r"Option::<.*>::is_none$") if K.src_match(b.operand_sources(c.args[0]), [r"field:.*BlockExt\.verified"])]
            pf = b.calls_to(r"VecDeque::<.*>::push_front$")
            if isn and pf:
                R.ok("prov/dirty-ext/" + fn, "%s collects an ext as dirty iff ext.verified is None" % fn, [isn[0].where()])
            else:
                R.bad("prov/dirty-ext/" + fn, "%s no longer tests ext.verified.is_none() before collecting a dirty ext" % fn, [b.where()])
    R.guard("order/attach-gate", attach_gate)

    # ------------------------------------------------------------ refusal as a whole
    def refusal():
        rec = F.need(VERIFY + "reconcile_main_chain")
        vb = F.need(VERIFY + "verify_block")
        arms = K.enum_arms(rec, "core::option::Option", [r"vty:core::option::Option<ckb_error::Error>$"])
        commit = {c.bb for c in rec.calls_to(r"mmr::MMR::<.*>::commit$")}
        if not arms or not commit:
            R.bad("mustcall/refusal/anchor-lost", "found_error / mmr.commit not found in reconcile_main_chain", [rec.where()])
            return
        final = [a for a in arms if "Some" in a[1] and (rec.reachable(a[2]) & commit or rec.reachable(a[1].get("None", a[2])) & commit)]
        if not final:
            R.bad("mustcall/refusal/anchor-lost", "the final test of found_error was not found", [rec.where()])
            return
        a = final[-1]
        some_reach = rec.reachable(a[1]["Some"])
        if some_reach & commit:
            R.bad("mustcall/refusal/no-mmr-commit", "with a recorded verification error the chain-root MMR can still be committed", [rec.where(a[0])])
        else:
            R.ok("mustcall/refusal/no-mmr-commit", "a recorded verification error never reaches mmr.commit", [rec.where(a[0])])
        errs = [i for i in rec.error_exit_blocks() if i in some_reach]
        oks = [i for (i, rv, ln) in K.agg_sites(rec, "core::result::Result", "Ok") if i in some_reach]
        if errs and not oks:
            R.ok("mustcall/refusal/returns-err", "reconcile_main_chain returns Err whenever a block failed", [rec.where(errs[0])])
        else:
            R.bad("mustcall/refusal/returns-err", "reconcile_main_chain can return Ok although a block failed verification", [rec.where(a[0])])
        # after the first failure every remaining dirty block is marked failed: in the loop, the found_error-is-some side must call insert_failure_ext
        K.mustcall(R, "mustcall/refusal/mark-rest", rec, [VERIFY + r"insert_failure_ext$"], S, start=None,
                   assume=[(r"Switch::disable_all$", False), (r"Option::<.*>::is_none$", False), (r"VecDeque::<.*>::is_empty$", False)],
                   ends={c.bb for c in rec.calls if c.callee.endswith("Iterator::next") and K.src_match(rec.operand_sources(c.args[0]), [r"call:.*Iterator::zip$"])} and None,
                   what="blocks after a failed one are marked failed") if False else None
        isnone = [c for c in rec.calls_to(r"Option::<.*>::is_none$") if K.src_match(rec.operand_sources(c.args[0]), [r"vty:core::option::Option<ckb_error::Error>$"])]
        if not isnone:
            R.bad("mustcall/refusal/mark-rest/anchor-lost", "found_error.is_none() test not found", [rec.where()])
        else:
            for (bb, truth) in K.bool_uses(rec, isnone[0].dest[0]):
                t = rec.term(bb)
                zero_t = [v[1] for v in t["vals"] if v[0] == "0"][0]
                some_side = zero_t if truth else t["else"]
                none_side = t["else"] if truth else zero_t
                hit = {c.bb for c in rec.calls_to(VERIFY + r"insert_failure_ext$")}
                att = {c.bb for c in rec.calls_to(ST + "attach_block$")}
                loop_heads = {c.bb for c in rec.calls if c.callee.endswith("Iterator::next")}
                reach, prev = K.reach_with(rec, some_side, avoid=hit | {none_side})
                if reach & (loop_heads | set(rec.return_blocks())):
                    R.bad("mustcall/refusal/mark-rest", "after a failure a later dirty block can be skipped without insert_failure_ext", K.path_lines(rec, prev, sorted(reach & (loop_heads | set(rec.return_blocks())))[0]))
                elif reach & att:
                    R.bad("mustcall/refusal/mark-rest", "after a failure a later block can still be attached", [rec.where(sorted(reach & att)[0])])
                else:
                    R.ok("mustcall/refusal/mark-rest", "once found_error is set every later dirty block gets insert_failure_ext and is never attached", [rec.where(bb)])
        # both failure arms record the error and the failed ext
        for nm, pat in (("verify", r"call:.*ContextualBlockVerifier::<.*>::verify$"), ("resolve", r"call:.*resolve_block_transactions$")):
            ea = [x for x in K.enum_arms(rec, "core::result::Result", [pat]) if "Err" in x[1]]
            if not ea:
                R.bad("mustcall/refusal/%s-err/anchor-lost" % nm, "Err arm of %s not found" % nm, [rec.where()])
                continue
            K.mustcall(R, "mustcall/refusal/%s-err" % nm, rec, [VERIFY + r"insert_failure_ext$"], S, start=ea[0][1]["Err"], ends=loop_heads | set(rec.return_blocks()), what="failed block is recorded as verified=false")
            st = ea[0][1]["Err"]
            sets = {i for i, blk in enumerate(rec.blocks) for s_ in blk["s"] if (rec.rec.get("locals") or [])[s_[0][0]:s_[0][0] + 1] == ["core::option::Option<ckb_error::Error>"] and s_[0][0] in rec.local_names() and not s_[0][1]
                    and K.src_match(rec.rvalue_sources(s_[1], set()), [r"agg:core::option::Option::Some"])}
            reach, prev = K.reach_with(rec, st, avoid=sets)
            esc = reach & (loop_heads | set(rec.return_blocks()))
            if sets and not esc:
                R.ok("mustcall/refusal/%s-err/records" % nm, "every path through the %s failure arm records the error in found_error" % nm, [rec.where(sorted(sets)[0])])
            else:
                R.bad("mustcall/refusal/%s-err/records" % nm, "a %s failure can go unrecorded in found_error (the reorg would go through)" % nm, K.path_lines(rec, prev, sorted(esc)[0]) if esc else [rec.where(st)])
        # verify_block propagates reconcile/rollback errors with `?` before the commit
        for pat, nm in ((VERIFY + "reconcile_main_chain$", "reconcile"), (VERIFY + "rollback$", "rollback")):
            for c in vb.calls_to(pat):
                nxt = vb.term(c.target) if c.target is not None else {}
                if nxt.get("k") == "call" and (nxt.get("callee") or "").endswith("Try::branch"):
                    R.ok("mustcall/refusal/propagate-" + nm, "verify_block propagates %s's error with `?` (no commit on failure)" % nm, [c.where()])
                else:
                    R.bad("mustcall/refusal/propagate-" + nm, "verify_block does not propagate %s's error: a failed reorg could be committed" % nm, [c.where()])
        K.order_dom(R, "order/reconcile-before-commit", vb, VERIFY + "reconcile_main_chain$", ST + "insert_tip_header$", what="tip moves only after reconcile succeeded")
        # failure ext really says false, ok ext true
        for fn, val in (("insert_failure_ext", "0"), ("insert_ok_ext", "1")):
            b = F.need(VERIFY + fn)
            good = False
            for blk in b.blocks:
                for s_ in blk["s"]:
                    if s_[0][1] and s_[0][1][-1].endswith("BlockExt.verified"):
                        srcs = b.rvalue_sources(s_[1], set())
                        good = good or (K.src_match(srcs, [r"agg:core::option::Option::Some", r"lit:%s$" % val]) and not K.src_match(srcs, [r"lit:%s$" % ("1" if val == "0" else "0")]))
            if good:
                R.ok("prov/ext-verdict/" + fn, "%s stores verified = Some(%s)" % (fn, "true" if val == "1" else "false"), [b.where()])
            else:
                R.bad("prov/ext-verdict/" + fn, "%s does not store verified = Some(%s)" % (fn, "true" if val == "1" else "false"), [b.where()])
    R.guard("mustcall/refusal", refusal)

    # ------------------------------------------------------------ 2. rejection sites
    BK = "ckb_verification::error::BlockErrorKind"
    CB = "ckb_verification::error::CellbaseError"
    UE = "ckb_verification::error::UnclesError"
    EE = "ckb_verification::error::EpochError"
    table = [
        ("timestamp", F.one(V, r"header_verifier::TimestampVerifier::<.*>::verify$"), {("ckb_verification::error::TimestampError", "BlockTimeTooOld"): 1, ("ckb_verification::error::TimestampError", "BlockTimeTooNew"): 1}),
        ("number", F.one(V, r"header_verifier::NumberVerifier::<.*>::verify$"), {("ckb_verification::error::NumberError", "NumberError"): 1}),
        ("epoch-header", F.one(V, r"header_verifier::EpochVerifier::<.*>::verify$"), {(EE, "Malformed"): 1, (EE, "NonContinuous"): 1}),
        ("pow", F.one(V, r"header_verifier::PowVerifier::<.*>::verify$"), {("ckb_verification::error::PowError", "InvalidNonce"): 1}),
        ("header-parent", hv, {("ckb_verification::error::UnknownParentError", "UnknownParentError"): 1}),
        ("cellbase", F.one(V, r"block_verifier::CellbaseVerifier::verify$"), {(CB, "InvalidQuantity"): 1, (CB, "InvalidPosition"): 1, (CB, "InvalidOutputQuantity"): 1, (CB, "InvalidOutputData"): 1,
                                                                              (CB, "InvalidWitness"): 1, (CB, "InvalidTypeScript"): 1, (CB, "InvalidOutputLock"): 2, (CB, "InvalidInput"): 1}),
        ("duplicate", F.one(V, r"block_verifier::DuplicateVerifier::verify$"), {(BK, "CommitTransactionDuplicate"): 1, (BK, "ProposalTransactionDuplicate"): 1}),
        ("merkle", F.one(V, r"MerkleRootVerifier::verify$"), {(BK, "TransactionsRoot"): 1, (BK, "ProposalTransactionsHash"): 1}),
        ("proposals-limit", F.one(V, r"BlockProposalsLimitVerifier::verify$"), {(BK, "ExceededMaximumProposalsLimit"): 1}),
        ("block-bytes", F.one(V, r"BlockBytesVerifier::verify$"), {(BK, "ExceededMaximumBlockBytes"): 1}),
        ("uncles", F.one(VC, r"UnclesVerifier::<.*>::verify$"), {(UE, "OverCount"): 2, (UE, "InvalidTarget"): 1, (UE, "InvalidDifficultyEpoch"): 1, (UE, "InvalidNumber"): 1, (UE, "DescendantLimit"): 1,
                                                                 (UE, "Duplicate"): 1, (UE, "DoubleInclusion"): 1, (UE, "ExceededMaximumProposalsLimit"): 1, (UE, "ProposalsHash"): 1,
                                                                 (UE, "ProposalDuplicate"): 1, ("ckb_verification::error::PowError", "InvalidNonce"): 1}),
        ("two-phase", F.one(VC, r"TwoPhaseCommitVerifier::<.*>::verify$"), {("ckb_verification::error::CommitError", "AncestorNotFound"): 2, ("ckb_verification::error::CommitError", "Invalid"): 1}),
        ("reward", F.one(VC, r"RewardVerifier::<.*>::verify$"), {(CB, "InvalidRewardTarget"): 2, (CB, "InvalidRewardAmount"): 1}),
        ("dao-header", F.one(VC, r"DaoHeaderVerifier::<.*>::verify$"), {(BK, "InvalidDAO"): 1}),
        ("epoch-contextual", F.one(VC, r"contextual_block_verifier::EpochVerifier::<.*>::verify$"), {(EE, "NumberMismatch"): 1, (EE, "TargetMismatch"): 1}),
        ("extension", F.one(VC, r"BlockExtensionVerifier::<.*>::verify$"), {(BK, "NoBlockExtension"): 1, (BK, "UnknownFields"): 2, (BK, "EmptyBlockExtension"): 1, (BK, "ExceededMaximumBlockExtensionBytes"): 1,
                                                                          (BK, "InvalidBlockExtension"): 1, (BK, "InvalidChainRoot"): 1, (BK, "InvalidExtraHash"): 1}),
        ("block-txs", btv, {(BK, "ExceededMaximumCycles"): 1, ("ckb_verification::error::BlockTransactionsError", "BlockTransactionsError"): 2}),
        ("contextual-parent", cbv, {("ckb_verification::error::UnknownParentError", "UnknownParentError"): 2}),
    ]
    for name, body, tbl in table:
        R.guard("reqerr/" + name, lambda name=name, body=body, tbl=tbl: K.reqerr(R, "reqerr/" + name, K.with_nested(body), tbl, what="rejection site"))

    # every constructed error actually leaves the verifier as Err: no error value is built and dropped
    def err_returned():
        for name, body, tbl in table:
            for b in K.with_nested(body):
                err = b.error_exit_blocks()
                for (adt, variant) in tbl:
                    for (bb, rv, ln) in K.agg_sites(b, adt, variant):
                        if bb not in b.reachable(0):
                            continue
                        reach = b.reachable(bb)
                        # the construction must flow into an error exit of this body (or the closure's return value)
                        if not (reach & err) and b.kind != "Closure":
                            R.bad("reqerr/%s/%s/returned" % (name, variant), "%s::%s is constructed at %s:%d but no error exit follows" % (adt.split("::")[-1], variant, b.file, ln), ["%s:%d" % (b.file, ln)])
        R.ok("reqerr/returned", "every constructed consensus error is followed by an error exit", [])
    R.guard("reqerr/returned", err_returned)

    # ------------------------------------------------------------ 3. boundary tables
    E = K.classify_err()
    ts = F.one(V, r"header_verifier::TimestampVerifier::<.*>::verify$")
    cm = [
        ("cmp/timestamp-old", ts, [r"call:.*HeaderView::timestamp$"], [r"call:.*block_median_time$"], {"<": "ERR", "=": "ERR", ">": "CONT"}),
        ("cmp/timestamp-new", ts, [r"call:.*HeaderView::timestamp$"], [r"const:.*ALLOWED_FUTURE_BLOCKTIME", r"field:.*TimestampVerifier\.now"], {"<": "CONT", "=": "CONT", ">": "ERR"}),
        ("cmp/number", F.one(V, r"header_verifier::NumberVerifier::<.*>::verify$"), [r"call:.*HeaderView::number$"], [r"field:.*NumberVerifier\.parent", r"lit:1$"], {"<": "ERR", "=": "CONT", ">": "ERR"}),
        ("cmp/proposals-limit", F.one(V, r"BlockProposalsLimitVerifier::verify$"), [r"call:.*proposals$"], [r"field:.*block_proposals_limit"], {"<": "CONT", "=": "CONT", ">": "ERR"}),
        ("cmp/block-bytes", F.one(V, r"BlockBytesVerifier::verify$"), [r"call:.*serialized_size_without_uncle_proposals$"], [r"field:.*block_bytes_limit"], {"<": "CONT", "=": "CONT", ">": "ERR"}),
        ("cmp/cellbase-count", F.one(V, r"block_verifier::CellbaseVerifier::verify$"), [r"call:.*Iterator::count$"], [r"lit:1$"], {"<": "ERR", "=": "CONT", ">": "ERR"}),
        ("cmp/merkle-tx-root", F.one(V, r"MerkleRootVerifier::verify$"), [r"call:.*BlockView::transactions_root$"], [r"call:.*calc_transactions_root$"], {"<": "ERR", "=": "CONT", ">": "ERR"}),
        ("cmp/merkle-proposals", F.one(V, r"MerkleRootVerifier::verify$"), [r"call:.*BlockView::proposals_hash$"], [r"call:.*calc_proposals_hash$"], {"<": "ERR", "=": "CONT", ">": "ERR"}),
        ("cmp/uncles-count", F.one(VC, r"UnclesVerifier::<.*>::verify$"), [r"call:.*uncles$", r"call:.*len$"], [r"call:.*max_uncles_num$"], {"<": "CONT", "=": "CONT", ">": "ERR"}),
        ("cmp/uncle-number", F.one(VC, r"UnclesVerifier::<.*>::verify$"), [r"call:.*UncleBlockView::number$"], [r"call:.*BlockView::number$"], {"<": "CONT", "=": "ERR", ">": "ERR"}),
        ("cmp/uncle-target", F.one(VC, r"UnclesVerifier::<.*>::verify$"), [r"call:.*UncleBlockView::compact_target$"], [r"call:.*EpochExt::compact_target$"], {"<": "ERR", "=": "CONT", ">": "ERR"}),
        ("cmp/uncle-epoch", F.one(VC, r"UnclesVerifier::<.*>::verify$"), [r"call:.*UncleProvider::epoch$", r"call:.*EpochExt::number$"], [r"call:.*UncleBlockView::epoch$"], {"<": "ERR", "=": "CONT", ">": "ERR"}),
        ("cmp/uncle-proposals-limit", F.one(VC, r"UnclesVerifier::<.*>::verify$"), [r"call:.*proposals$", r"call:.*len$"], [r"call:.*max_block_proposals_limit$"], {"<": "CONT", "=": "CONT", ">": "ERR"}),
        ("cmp/uncle-proposals-hash", F.one(VC, r"UnclesVerifier::<.*>::verify$"), [r"call:.*UncleBlockView::proposals_hash$"], [r"call:.*calc_proposals_hash$"], {"<": "ERR", "=": "CONT", ">": "ERR"}),
        ("cmp/epoch-fraction", F.one(VC, r"contextual_block_verifier::EpochVerifier::<.*>::verify$"), [r"call:.*HeaderView::epoch$"], [r"call:.*EpochExt::number_with_fraction$"], {"<": "ERR", "=": "CONT", ">": "ERR"}),
        ("cmp/epoch-target", F.one(VC, r"contextual_block_verifier::EpochVerifier::<.*>::verify$"), [r"call:.*EpochExt::compact_target$"], [r"call:.*HeaderView::compact_target$"], {"<": "ERR", "=": "CONT", ">": "ERR"}),
        ("cmp/extension-max", F.one(VC, r"BlockExtensionVerifier::<.*>::verify$"), [r"call:.*len$"], [r"lit:96$"], {"<": "CONT", "=": "CONT", ">": "ERR"}),
        ("cmp/extension-min", F.one(VC, r"BlockExtensionVerifier::<.*>::verify$"), [r"call:.*len$"], [r"lit:32$"], {"<": "ERR", "=": "CONT", ">": "CONT"}),
        ("cmp/extension-root", F.one(VC, r"BlockExtensionVerifier::<.*>::verify$"), [r"call:.*calc_mmr_hash$"], [r"call:.*new_unchecked$"], {"<": "ERR", "=": "CONT", ">": "ERR"}),
        ("cmp/extension-extra-hash", F.one(VC, r"BlockExtensionVerifier::<.*>::verify$"), [r"call:.*calc_extra_hash$"], [r"call:.*BlockView::extra_hash$"], {"<": "ERR", "=": "CONT", ">": "ERR"}),
        ("cmp/dao-field", F.one(VC, r"DaoHeaderVerifier::<.*>::verify$"), [r"call:.*DaoCalculator.*::dao_field$"], [r"call:.*HeaderView::dao$"], {"<": "ERR", "=": "CONT", ">": "ERR"}),
        ("cmp/reward-amount", F.one(VC, r"RewardVerifier::<.*>::verify$"), [r"call:.*outputs_capacity$"], [r"field:.*BlockReward\.total"], {"<": "ERR", "=": "CONT", ">": "ERR"}),
        ("cmp/reward-lock", F.one(VC, r"RewardVerifier::<.*>::verify$"), [r"call:.*CellOutput::lock$"], [r"call:.*finalize_block_reward$"], {"<": "ERR", "=": "CONT", ">": "ERR"}),
    ]
    AR = {"cmp/timestamp-new": ([], ["op:add"]), "cmp/number": ([], ["op:add"])}
    for key, body, A, B, exp in cm:
        R.guard(key, lambda key=key, body=body, A=A, B=B, exp=exp: K.cmp_table(R, key, body, A, B, exp, E, what="boundary", min_sites=1, arith=AR.get(key, ((), ()))))

    # uncle descent: (parent.number + 1) == uncle.number at all three places
    def uncle_descent():
        n = 0
        uv = F.one(VC, r"UnclesVerifier::<.*>::verify$")
        dc = F.one(VC, r"UncleVerifierContext<'a, 'b, CS> as .*UncleProvider>::descendant$")
        for root in (uv, dc):
            for b in K.with_nested(root):
                for site, sw in K.find_cmp(b, [r"op:Add|call:.*Add.*::add$", r"lit:1$"], [r"uncle.*number|call:.*number$"]):
                    tr = K.cmp_truth(site, sw)
                    if site.op != "eq":
                        R.bad("cmp/uncle-descent", "uncle descent test at %s is not an equality" % site.where(), [site.where()])
                    else:
                        n += 1
        if n < 3:
            R.bad("cmp/uncle-descent/anchor-lost", "expected 3 `(parent.number + 1) == uncle.number` tests (embedded, main-chain parent, uncle parent), found %d" % n, [uv.where()])
        else:
            R.ok("cmp/uncle-descent", "%d uncle-descent tests are `parent.number + 1 == uncle.number`" % n, [uv.where(), dc.where()])
        K.mustcall(R, "mustcall/uncle-descent", uv, [r"UncleProvider::descendant$"], S, assume=[(r"Option::<.*>::(unwrap_or|is_some_and)$", False)],
                   ends={c.bb for c in uv.calls_to(r"HashMap::<.*>::insert$")}, what="an uncle not descending from an embedded uncle is accepted only after the chain-descent test")
        K.mustcall(R, "mustcall/uncle-double-inclusion", uv, [r"UncleProvider::double_inclusion$"], S, assume=[], what="double inclusion is tested for every uncle") if False else None
        di = F.one(VC, r"UncleVerifierContext<'a, 'b, CS> as .*UncleProvider>::double_inclusion$")
        if di.calls_to(r"ChainStore::get_block_number$") and di.calls_to(r"ChainStore::is_uncle$"):
            R.ok("mustcall/uncle-double-inclusion", "double_inclusion consults both the main-chain index and the included-uncle index", [di.where()])
        else:
            R.bad("mustcall/uncle-double-inclusion", "double_inclusion no longer consults both get_block_number and is_uncle", [di.where()])
    R.guard("cmp/uncle-descent", uncle_descent)

    # reward: no-target window
    def reward_window():
        rv = F.one(VC, r"RewardVerifier::<.*>::verify$")
        K.value_table(R, "cmp/reward-no-target", rv, [r"call:.*HeaderView::number$", r"lit:1$"], [r"call:.*finalization_delay_length$"], {"<": True, "=": True, ">": False},
                      what="no finalisation target while parent.number + 1 <= delay") if False else None
        found = K.find_cmp(rv, [r"call:.*HeaderView::number$", r"lit:1$"], [r"call:.*finalization_delay_length$"])
        good = False
        for site, sw in found:
            tr = K.cmp_truth(site, sw)
            if tr == (True, True, False):
                good = True
                R.ok("cmp/reward-no-target", "no finalisation target iff parent.number + 1 <= finalization_delay_length", [site.where()])
            else:
                R.bad("cmp/reward-no-target", "no-finalisation-target predicate has truth %s, expected (A<B, A=B)" % (tr,), [site.where()])
        if not found:
            R.bad("cmp/reward-no-target/anchor-lost", "no-finalisation-target comparison not found", [rv.where()])
    R.guard("cmp/reward-no-target", reward_window)

    # two-phase commit window (shared with C20)
    def window():
        tp = F.one(VC, r"TwoPhaseCommitVerifier::<.*>::verify$")
        subs = [c for c in tp.calls_to(r"saturating_sub$")]
        far = [c for c in subs if K.src_match(tp.operand_sources(c.args[1]), [r"call:.*ProposalWindow::farthest$"])]
        clo = [c for c in subs if K.src_match(tp.operand_sources(c.args[1]), [r"call:.*ProposalWindow::closest$"])]
        okk = far and clo and all(K.src_match(tp.operand_sources(c.args[0]), [r"call:.*HeaderView::number$"]) for c in far + clo)
        if okk:
            R.ok("affine/commit-window", "proposal_start = n - farthest, proposal_end = n - closest", [far[0].where(), clo[0].where()])
        else:
            R.bad("affine/commit-window", "two-phase commit window bounds are not (n - farthest, n - closest)", [tp.where()])
        K.cmp_table(R, "cmp/commit-window-loop", tp, [r"call:.*ProposalWindow::closest$"], [r"call:.*ProposalWindow::farthest$"], {"<": "STOP", "=": "LOOP", ">": "LOOP"},
                    K.classify_reach([r"ChainStore::get_block_proposal_txs_ids$"], "LOOP", "STOP"), what="window walk covers proposal_end >= proposal_start",
                    arith=(["lit:1", "op:saturating_sub", "op:sub"], ["op:saturating_sub"]))
        if tp.calls_to(r"ChainStore::get_block_proposal_txs_ids$") and tp.calls_to(r"ChainStore::get_block_uncles$"):
            R.ok("mustcall/commit-window-sources", "window ids come from block proposals and uncle proposals", [tp.where()])
        else:
            R.bad("mustcall/commit-window-sources", "two-phase commit no longer reads both block and uncle proposals", [tp.where()])
        d = tp.calls_to(r"HashSet::<.*>::difference$")
        if d and K.src_match(tp.operand_sources(d[0].args[0]), [r"call:.*proposal_short_id|fn:.*proposal_short_id"]) :
            R.ok("prov/commit-window-diff", "committed ids \\ proposed ids must be empty", [d[0].where()])
        elif not d:
            R.bad("prov/commit-window-diff", "committed-minus-proposed difference not found", [tp.where()])
    R.guard("affine/commit-window", window)

    # past-median time: the greater middle element of the sorted window, the window walks parent links and includes the given block
    def median():
        b = F.one("ckb_traits", r"HeaderFieldsProvider::block_median_time$")
        R.fn(b)
        idx = [c for c in b.calls_to(r"Index::index$|Index<.*>>::index$")]
        srt = b.calls_to(r"::sort(_unstable)?$")
        R.sites += len(idx) + len(srt)
        if not idx or not srt:
            R.bad("affine/median", "block_median_time no longer sorts the window and indexes it (median must be sorted[len >> 1])", [b.where()])
        else:
            sig = K.arith_of(b, idx[-1].args[1])
            leaves = [x for x in K.expr_sig(b, idx[-1].args[1]) if x.startswith("leaf:")]
            if sig == ["lit:1", "op:shr"] and any(x.endswith("::len") for x in leaves) and b.dominates(srt[0].bb, idx[-1].bb):
                R.ok("affine/median", "past-median time = sorted_timestamps[len >> 1] (greater middle for even windows)", [idx[-1].where()])
            else:
                R.bad("affine/median", "median index is %s over %s, expected sorted[len >> 1]" % (sig, leaves), [idx[-1].where()])
            if not K.src_match(b.operand_sources(idx[-1].args[0]), [r"field:.*HeaderFields\.timestamp"]):
                R.bad("affine/median/source", "the median is not taken over header timestamps", [idx[-1].where()])
        # the walk follows parent links starting at the given hash and stops at genesis
        gh = b.calls_to(r"HeaderFieldsProvider::get_header_fields$")
        if gh and K.src_match(b.operand_sources(gh[0].args[1]), [r"param:block_hash", r"field:.*HeaderFields\.parent_hash"]):
            R.ok("prov/median-walk", "the median window starts at the given block and follows parent_hash", [gh[0].where()])
        else:
            R.bad("prov/median-walk", "the median window does not walk parent links from the given block", [b.where()])
        ts = F.one(V, r"header_verifier::TimestampVerifier::<.*>::verify$")
        c = ts.calls_to(r"block_median_time$")
        if c and K.src_match(ts.operand_sources(c[0].args[1]), [r"call:.*parent_hash$"]) and K.src_match(ts.operand_sources(c[0].args[2]), [r"field:.*median_block_count"]):
            R.ok("prov/median-args", "TimestampVerifier takes the median over the parent's window of median_time_block_count blocks", [c[0].where()])
        else:
            R.bad("prov/median-args", "TimestampVerifier does not take the median of the parent's window", [ts.where()])
        hv_ = hv.calls_to(r"TimestampVerifier::<.*>::new$")
        if hv_ and K.src_match(hv.operand_sources(hv_[0].args[2]), [r"call:.*Consensus::median_time_block_count$"]):
            R.ok("prov/median-count", "window length is consensus.median_time_block_count()", [hv_[0].where()])
        else:
            R.bad("prov/median-count", "window length is not consensus.median_time_block_count()", [hv.where()])
    R.guard("affine/median", median)
