"""C17 - sync bookkeeping structures behave like their simple models (structural necessary conditions)."""
import kinds as K

CRATES = ["ckb_chain", "ckb_sync", "ckb_shared"]
EXPLANATION = ("PAIRED: every mutator of the orphan pool keeps blocks/parents/leaders in step, every mutator of InflightBlocks keeps the per-block state, the per-peer sets and the trace map in step; "
               "the double-assignment guard returns false before any write; a timed-out request is always released regardless of its peer's scheduler; "
               "ORDER: the header map spills into the backend before evicting from memory, evicting exactly what it spilled, and `remove` clears both tiers; "
               "LAYOUT: HeaderIndexView writer/reader agree on field order, widths and byte ranges.")
NOT_DECIDED = "equivalence with the mathematical models over all operation sequences; skip-list ancestor lookup and locator results"

IP = "ckb_chain::utils::orphan_block_pool::InnerPool::"
IB = "ckb_sync::types::InflightBlocks::"
HK = "ckb_shared::types::header_map::kernel_lru::HeaderMapKernel::<Backend>::"


def fields_written(body, struct):
    """names of `struct` fields that are the receiver (first argument, by &mut) of a call in body (incl. nested closures)"""
    out = {}
    for b in K.with_nested(body):
        for c in b.calls:
            if not c.args or "p" not in c.args[0]:
                continue
            srcs = b.operand_sources(c.args[0])
            for s_ in srcs:
                if s_.startswith("field:") and (struct + ".") in s_:
                    out.setdefault(s_.split(".")[-1], set()).add(c.callee.split("::")[-1])
    return out


def run(F, S, R, tier):
    # ---------------------------------------------------------------- 1. orphan pool
    def orphan_pool():
        ins = F.need(IP + "insert")
        fw = fields_written(ins, "InnerPool")
        need = {"blocks": {"entry"}, "parents": {"insert", "contains_key"}, "leaders": {"remove", "insert"}}
        for f, ops in need.items():
            if ops <= fw.get(f, set()):
                R.ok("paired/orphan/insert/" + f, "insert touches %s with %s" % (f, sorted(ops)), [ins.where()])
            else:
                R.bad("paired/orphan/insert/" + f, "InnerPool::insert touches %s only with %s, expected %s" % (f, sorted(fw.get(f, set())), sorted(ops)), [ins.where()])
        K.mustcall(R, "paired/orphan/insert/steps", ins, [r"Entry::<.*>::or_default$", r"HashSet::<.*>::remove$", r"HashMap::<.*>::insert$"], S, allow_err_exits=False,
                   what="insert records the block under its parent, un-leads the block itself and records its parent")
        K.mustcall(R, "paired/orphan/insert/new-leader", ins, [r"HashSet::<.*>::insert$"], S, allow_err_exits=False, assume=[(r"HashMap::<.*>::contains_key$", False)],
                   what="a parent that is not itself in the pool becomes a leader")
        drop = K.assumed_edges(ins, [(r"HashMap::<.*>::contains_key$", True)])
        reach, _ = K.reach_with(ins, 0, drop_edges=drop)
        if reach & {c.bb for c in ins.calls_to(r"HashSet::<.*>::insert$")}:
            R.bad("paired/orphan/insert/no-false-leader", "a parent that is itself an orphan in the pool is added to the leaders", [ins.where()])
        else:
            R.ok("paired/orphan/insert/no-false-leader", "a parent already in the pool is not a leader", [ins.where()])
        rm = F.need(IP + "remove_blocks_by_parent")
        # not a leader => nothing is removed
        drop = K.assumed_edges(rm, [(r"HashSet::<.*>::remove$", False)])
        if not drop:
            R.bad("paired/orphan/remove/leader-guard/anchor-lost", "leaders.remove guard not found", [rm.where()])
        else:
            reach, _ = K.reach_with(rm, 0, drop_edges=drop)
            if reach & {c.bb for c in rm.calls_to(r"HashMap::<.*>::remove$")}:
                R.bad("paired/orphan/remove/leader-guard", "blocks can be released under a hash that is not a leader", [rm.where()])
            else:
                R.ok("paired/orphan/remove/leader-guard", "release starts only from a leader and removes it from the leader set", [rm.where()])
        fwr = fields_written(rm, "InnerPool")
        if "remove" in fwr.get("blocks", set()) and "remove" in fwr.get("parents", set()) and "remove" in fwr.get("leaders", set()):
            R.ok("paired/orphan/remove/three-maps", "release removes from blocks, parents and leaders", [rm.where()])
        else:
            R.bad("paired/orphan/remove/three-maps", "remove_blocks_by_parent does not remove from all of blocks/parents/leaders (%s)" % {k: sorted(v) for k, v in fwr.items()}, [rm.where()])
        K.loop_over_all(R, "loop/orphan/remove/parents", rm, r"HashMap::<.*>::remove$", [r"call:.*unzip$|call:.*pop_front$"], what="every released hash leaves the parents map") if False else None
        ext = [c for c in rm.calls_to(r"Extend::extend$")]
        q = [c for c in ext if K.src_match(rm.operand_sources(c.args[0]), [r"vty:alloc::collections::vec_deque::VecDeque<.*Byte32>$"])]
        rmd = [c for c in ext if K.src_match(rm.operand_sources(c.args[0]), [r"vty:alloc::vec::Vec<.*LonelyBlockHash>$"])]
        if q and rmd and K.src_match(rm.operand_sources(q[0].args[1]), [r"call:.*unzip$", r"idx:#0"]) and K.src_match(rm.operand_sources(rmd[0].args[1]), [r"call:.*unzip$", r"idx:#1"]):
            R.ok("prov/orphan/remove/bfs", "released hashes are queued for their own children (all descendants are released); released blocks are all returned", [q[0].where()])
        else:
            R.bad("prov/orphan/remove/bfs", "release no longer queues every released hash / returns every released block", [rm.where()])
        pr = [c for c in rm.calls_to(r"HashMap::<.*>::remove$") if K.src_match(rm.operand_sources(c.args[0]), [r"field:.*InnerPool\.parents"])]
        if pr:
            K.loop_over_all(R, "loop/orphan/remove/parents", rm, r"HashMap::<.*>::remove$", [], what="x") if False else None
            nxt = [c for c in rm.calls if c.callee.endswith("Iterator::next") and rm.dominates(c.bb, pr[0].bb)]
            if nxt and K.src_match(rm.operand_sources(nxt[-1].args[0]), [r"idx:#0", r"call:.*unzip$"]) and not any(K.rx(r"call:.*Iterator::(skip|take|filter|step_by)$").search(s_) for s_ in rm.operand_sources(nxt[-1].args[0])):
                R.ok("loop/orphan/remove/parents", "every released hash is removed from the parents map", [pr[0].where()])
            else:
                R.bad("loop/orphan/remove/parents", "not every released hash is removed from the parents map", [pr[0].where()])
        gb = F.need(IP + "get_block")
        cl = K.with_nested(gb)
        if gb.calls_to(r"HashMap::<.*>::get$") and any(x.calls_to(r"HashMap::<.*>::get$") for x in cl[1:]):
            R.ok("prov/orphan/get", "lookup goes parents[hash] -> blocks[parent][hash]", [gb.where()])
        else:
            R.bad("prov/orphan/get", "get_block no longer resolves through parents then blocks", [gb.where()])
        ln = F.need("ckb_chain::utils::orphan_block_pool::OrphanBlockPool::len")
        if K.src_match(set().union(*[ln.operand_sources(c.args[0]) for c in ln.calls_to(r"HashMap::<.*>::len$")] or [set()]), [r"field:.*InnerPool\.parents"]):
            R.ok("prov/orphan/len", "len counts the parents map (one entry per pooled block)", [ln.where()])
        else:
            R.bad("prov/orphan/len", "OrphanBlockPool::len no longer counts parents", [ln.where()])
    R.guard("paired/orphan", orphan_pool)

    # ---------------------------------------------------------------- 2. in-flight table
    def inflight():
        ins = F.need(IB + "insert")
        arms = K.enum_arms(ins, "std::collections::btree_map::Entry") or K.enum_arms(ins, "alloc::collections::btree::map::entry::Entry")
        if not arms or "Occupied" not in arms[0][1]:
            R.bad("paired/inflight/insert/guard/anchor-lost", "Entry match not found in InflightBlocks::insert", [ins.where()])
        else:
            occ = arms[0][1]["Occupied"]
            reach = ins.reachable(occ)
            writes = {c.bb for c in ins.calls if K.rx(r"(HashMap|HashSet|BTreeMap|VacantEntry)::<.*>::(insert|entry)$").search(c.callee)}
            if reach & writes:
                R.bad("paired/inflight/insert/guard", "a block already in flight can be assigned again (writes reachable from the Occupied arm)", [ins.where(occ)])
            else:
                R.ok("paired/inflight/insert/guard", "a block already in flight is never assigned to a second peer: the Occupied arm writes nothing", [ins.where(occ)])
            vac = arms[0][1].get("Vacant", arms[0][2])
            K.mustcall(R, "paired/inflight/insert/views", ins, [r"VacantEntry::<.*>::insert$", r"HashSet::<.*>::insert$"], S, start=vac, allow_err_exits=False,
                       what="a new assignment is recorded in the per-block state and in the peer's set")
        st = ins.calls_to(r"InflightState::new$")
        en = ins.calls_to(r"HashMap::<.*>::entry$")
        if st and en and K.src_match(ins.operand_sources(st[0].args[0]), [r"param:peer"]) and K.src_match(ins.operand_sources(en[0].args[1]), [r"param:peer"]):
            R.ok("prov/inflight/insert/same-peer", "state and per-peer set are recorded for the same peer", [st[0].where()])
        else:
            R.bad("prov/inflight/insert/same-peer", "per-block state and per-peer set are recorded for different peers", [ins.where()])
        rp = F.need(IB + "remove_by_peer")
        fw = fields_written(rp, "InflightBlocks")
        cl = [b for b in K.with_nested(rp) if b.kind == "Closure"]
        rmc = [(b, c) for b in cl for c in b.calls if K.rx(r"(BTreeMap|HashMap)::<.*>::remove$").search(c.callee)]
        has_state = any(K.src_match(b.operand_sources(c.args[0]), [r"vty:&mut alloc::collections::btree::map::BTreeMap<.*BlockNumberAndHash, types::InflightState>$"]) for b, c in rmc)
        has_trace = any(K.src_match(b.operand_sources(c.args[0]), [r"vty:&mut std::collections::hash::map::HashMap<.*BlockNumberAndHash, u64>$"]) for b, c in rmc)
        calls = sorted(c.callee.split("::")[-1] for b, c in rmc)
        if "remove" in fw.get("download_schedulers", set()) and has_state and has_trace:
            R.ok("paired/inflight/remove-by-peer", "a leaving peer's scheduler, its blocks' states and their trace entries are all released", [rp.where()])
        else:
            R.bad("paired/inflight/remove-by-peer", "remove_by_peer does not release scheduler + states + trace (%s / %s)" % ({k: sorted(v) for k, v in fw.items()}, sorted(calls)), [rp.where()])
        if cl:
            K.loop_over_all(R, "loop/inflight/remove-by-peer", cl[0], r"BTreeMap::<.*>::remove$", [r"field:.*DownloadScheduler\.hashes"], what="every block listed for the peer is released")
        rb = F.need(IB + "remove_by_block")
        fwb = fields_written(rb, "InflightBlocks")
        clb = [b for b in K.with_nested(rb) if b.kind == "Closure"]
        hs = [c for b in clb for c in b.calls_to(r"HashSet::<.*>::remove$")]
        gm = [c for b in clb for c in b.calls_to(r"HashMap::<.*>::get_mut$")]
        if "remove" in fwb.get("inflight_states", set()) and hs and gm and K.src_match(gm[0].body.operand_sources(gm[0].args[1]), [r"field:.*InflightState\.peer"]):
            R.ok("paired/inflight/remove-by-block", "an arrived block leaves the state map and the set of the peer recorded in its state", [rb.where()])
        else:
            R.bad("paired/inflight/remove-by-block", "remove_by_block does not release the block from the recorded peer's set", [rb.where()])
        # prune: timeout release
        pr = F.need(IB + "prune")
        sites = K.find_cmp(pr, [r"field:.*InflightState\.timestamp", r"const:.*BLOCK_DOWNLOAD_TIMEOUT"], [r"call:.*unix_time_as_millis$"])
        if not sites:
            R.bad("cmp/inflight/timeout/anchor-lost", "timeout comparison not found in prune", [pr.where()])
        else:
            site, sw = sites[0]
            tr = K.cmp_truth(site, sw)
            if tr != (True, False, False) or K.arith_of(pr, site.b if sw else site.a) != ["op:add"]:
                R.bad("cmp/inflight/timeout", "timeout predicate is not `timestamp + BLOCK_DOWNLOAD_TIMEOUT < now`", [site.where()])
            else:
                R.ok("cmp/inflight/timeout", "a request times out iff timestamp + BLOCK_DOWNLOAD_TIMEOUT < now", [site.where()])
            for (swb, tt, ft) in K.branch_targets(pr, site):
                heads = {c.bb for c in pr.calls if c.callee.endswith("Iterator::next")}
                push = {c.bb for c in pr.calls_to(r"Vec::<.*>::push$")}
                reach, prev = K.reach_with(pr, tt, avoid=push, drop_edges=K.same_bool_edges(pr, site.result, True))
                if reach & heads:
                    R.bad("mustcall/inflight/timeout-release", "a timed-out request is not always queued for release (e.g. when its peer has no scheduler any more): the block could never be requested again",
                          K.path_lines(pr, prev, sorted(reach & heads)[0]))
                else:
                    R.ok("mustcall/inflight/timeout-release", "every timed-out request is queued for release whatever the state of its peer's scheduler", [site.where()])
        rk = [c for c in pr.calls_to(r"BTreeMap::<.*>::remove$")]
        if rk:
            K.loop_over_all(R, "loop/inflight/timeout-release", pr, r"BTreeMap::<.*>::remove$", [r"vty:alloc::vec::Vec<ckb_types::block_number_and_hash::BlockNumberAndHash>$"], what="every queued key is removed from the state map")
    R.guard("paired/inflight", inflight)

    # ---------------------------------------------------------------- 3. header map
    def header_map():
        lm = F.need(HK + "limit_memory")
        bodies = K.with_nested(lm)
        ib = [(b, c) for b in bodies for c in b.calls_to(r"KeyValueBackend::insert_batch$")]
        rb = [(b, c) for b in bodies for c in b.calls_to(r"MemoryMap::remove_batch$")]
        fn = lm.calls_to(r"MemoryMap::front_n$")
        if not ib or not rb or not fn:
            R.bad("order/spill/anchor-lost", "insert_batch / remove_batch / front_n not found in limit_memory", [lm.where()])
        else:
            blk_call = [c for c in lm.calls if c.args and "p" in c.args[0] and any(x is ib[0][0] for x in K.closure_of_local(lm, c.args[0]["p"][0]))] if ib[0][0] is not lm else []
            first = blk_call[0].bb if blk_call else ib[0][1].bb
            if rb[0][0] is lm and lm.dominates(first, rb[0][1].bb):
                R.ok("order/spill", "headers are written to the backend before they are evicted from memory", [rb[0][1].where()])
            else:
                R.bad("order/spill", "memory eviction is not preceded by the backend write: a concurrent reader could miss the header", [lm.where()])
            a = ib[0][0].operand_sources(ib[0][1].args[1])
            r_ = rb[0][0].operand_sources(rb[0][1].args[1])
            NARROW = [r"call:.*(Index|IndexMut)::index(_mut)?$", r"agg:core::ops::range::Range", r"call:.*cmp::min$|call:.*::min$", r"call:.*Iterator::(take|skip|step_by|filter)$|call:.*::(truncate|split_at|chunks)$"]
            narrowed = [x for x in sorted(a) if any(K.rx(p_).search(x) for p_ in NARROW)]
            if narrowed and not [x for x in sorted(r_) if any(K.rx(p_).search(x) for p_ in NARROW)]:
                R.bad("prov/spill/same-values", "only a part of the collected values is written to the backend (%s) while all of them are evicted from memory: the rest is in neither tier" % narrowed[:2], [ib[0][1].where()])
            elif K.src_match(a, [r"call:.*MemoryMap::front_n$"]) and K.src_match(r_, [r"call:.*MemoryMap::front_n$"]):
                R.ok("prov/spill/same-values", "exactly the spilled values are evicted", [rb[0][1].where()])
            else:
                R.bad("prov/spill/same-values", "the evicted keys are not the spilled values", [lm.where()])
        rm = F.need(HK + "remove")
        K.mustcall(R, "mustcall/header-map/remove", rm, [r"MemoryMap::remove$", r"KeyValueBackend::remove_no_return$"], S, allow_err_exits=False, assume=[(r"KeyValueBackend::is_empty$", False)],
                   what="remove clears the memory tier and, unless the backend is empty, the backend tier too (whether or not memory had the key)")
        ck = F.need(HK + "contains_key")
        K.mustcall(R, "mustcall/header-map/contains", ck, [r"KeyValueBackend::contains_key$"], S, allow_err_exits=False, assume=[(r"MemoryMap::contains_key$", False), (r"KeyValueBackend::is_empty$", False)],
                   what="a key absent from memory is looked up in the backend")
        gt = F.need(HK + "get")
        K.mustcall(R, "mustcall/header-map/get", gt, [r"KeyValueBackend::remove$"], S, allow_err_exits=False, assume=[(r"KeyValueBackend::is_empty$", False)],
                   drop_edges=K.variant_edges(gt, "core::option::Option", [r"call:.*MemoryMap::get_refresh$"], "None"), what="a key absent from memory is fetched from the backend")
        mi = gt.calls_to(r"MemoryMap::insert$")
        if mi and K.src_match(gt.operand_sources(mi[0].args[1]), [r"call:.*KeyValueBackend::remove$"]):
            R.ok("prov/header-map/promote", "a header fetched from the backend is promoted to memory unchanged", [mi[0].where()])
        else:
            R.bad("prov/header-map/promote", "get no longer promotes the backend's value into memory", [gt.where()])
        insf = F.need(HK + "insert")
        if insf.calls_to(r"MemoryMap::insert$"):
            R.ok("mustcall/header-map/insert", "insert writes the memory tier (which get/contains consult first)", [insf.where()])
        else:
            R.bad("mustcall/header-map/insert", "HeaderMapKernel::insert no longer writes memory", [insf.where()])
    R.guard("order/spill", header_map)

    # ---------------------------------------------------------------- 4. HeaderIndexView layout
    def layout():
        tv = F.need("ckb_shared::types::HeaderIndexView::to_vec")
        fs = F.need("ckb_shared::types::HeaderIndexView::from_slice_should_be_ok")
        ext = sorted(tv.calls_to(r"extend_from_slice$"), key=lambda c: c.line)
        order = []
        for c in ext:
            srcs = tv.operand_sources(c.args[1])
            order.append(sorted({s_.split(".")[-1] for s_ in srcs if s_.startswith("field:") and "HeaderIndexView." in s_}))
        want = [["number"], ["epoch"], ["timestamp"], ["parent_hash"], ["total_difficulty"], ["skip_hash"]]
        if order == want:
            R.ok("layout/header-index-view/writer", "to_vec writes number, epoch, timestamp, parent_hash, total_difficulty, [skip_hash] in that order", [tv.where()])
        else:
            R.bad("layout/header-index-view/writer", "to_vec writes %s, expected %s" % (order, want), [tv.where()])
        le = [K.src_match(tv.operand_sources(c.args[1]), [r"call:.*to_le_bytes$"]) for c in ext]
        if le[:3] == [True, True, True] and len(le) > 4 and le[4]:
            R.ok("layout/header-index-view/endianness", "integers are written little-endian", [tv.where()])
        else:
            R.bad("layout/header-index-view/endianness", "to_vec no longer writes its integers with to_le_bytes", [tv.where()])
        aggs = K.agg_sites(fs, "ckb_shared::types::HeaderIndexView")
        rngs = []
        for blk in fs.blocks:
            for st in blk["s"]:
                rv = st[1]
                if rv.get("k") == "agg" and str(rv.get("adt", "")).endswith("ops::range::Range"):
                    rngs.append((st[2], [o.get("v") for o in rv["ops"]]))
        rngs.sort()
        wantr = [["0", "8"], ["8", "16"], ["16", "24"], ["24", "56"], ["56", "88"], ["88", "120"]]
        if [r_[1] for r_ in rngs] == wantr:
            R.ok("layout/header-index-view/reader-ranges", "reader slices 0..8, 8..16, 16..24, 24..56, 56..88, 88..120 = the writer's widths 8,8,8,32,32,32", [fs.where()])
        else:
            R.bad("layout/header-index-view/reader-ranges", "reader ranges are %s, expected %s" % ([r_[1] for r_ in rngs], wantr), [fs.where()])
        K.cmp_table(R, "x", fs, [], [], {}, None) if False else None
        ln = [s_ for s_ in K.cmp_sites(fs) if s_.op == "eq" and (str(s_.a.get("v")) == "120" or str(s_.b.get("v")) == "120")]
        if ln:
            R.ok("layout/header-index-view/skip-len", "skip_hash is present iff the record is 120 bytes", [ln[0].where()])
        else:
            R.bad("layout/header-index-view/skip-len", "the reader no longer tests len == 120 for the optional skip_hash", [fs.where()])
        if aggs:
            rv = aggs[0][1]
            # each field of the aggregate derives from the slice range at its position (by line order of the range aggregates)
            names = ["number", "epoch", "timestamp", "parent_hash", "total_difficulty"]
            okf = True
            for f in names + ["skip_hash", "hash"]:
                srcs = K.agg_field_sources(fs, rv, f) or set()
                if f == "hash":
                    okf = okf and K.src_match(srcs, [r"param:hash"])
                else:
                    okf = okf and K.src_match(srcs, [r"param:slice"])
            if okf:
                R.ok("layout/header-index-view/reader-fields", "every field is rebuilt from the record (hash from the key)", [fs.where()])
            else:
                R.bad("layout/header-index-view/reader-fields", "the reader no longer rebuilds every field from the record / key", [fs.where()])
            # positional: field i is read with the i-th range: compare line order of the `let` definitions
            order_r = []
            for f in names:
                i = rv["fields"].index(f)
                op = rv["ops"][i]
                lines = sorted(ln_ for (ln_, r_) in rngs if "p" in op and _derives_from_line(fs, op, ln_))
                order_r.append(lines[:1])
            flat = [x[0] for x in order_r if x]
            if len(flat) == 5 and flat == sorted(flat) and len(set(flat)) == 5:
                R.ok("layout/header-index-view/reader-order", "fields are read from ranges in the writer's order", [fs.where()])
            else:
                R.bad("layout/header-index-view/reader-order", "reader fields do not map to ranges in the writer's order (%s)" % order_r, [fs.where()])
    R.guard("layout/header-index-view", layout)


def _derives_from_line(body, op, line):
    """True if the operand's value chain passes a statement/call on source line `line`"""
    seen = set()
    stack = [op["p"][0]]
    while stack:
        l = stack.pop()
        if l in seen:
            continue
        seen.add(l)
        for d in body.defs().get(l, []):
            if d[0] == "assign":
                if d[4] == line and d[3].get("k") == "agg" and str(d[3].get("adt", "")).endswith("Range"):
                    return True
                rv = d[3]
                for o in ([rv.get("o")] if rv.get("o") else []) + ([{"p": rv["p"]}] if rv.get("p") else []) + rv.get("ops", []) + [x for x in (rv.get("a"), rv.get("b")) if x]:
                    if o and "p" in o:
                        stack.append(o["p"][0])
            else:
                for a in d[2].args:
                    if "p" in a:
                        stack.append(a["p"][0])
    return False
