"""C20 - the node's proposal view equals the on-chain proposal window, also after restart (structural necessary conditions)."""
import kinds as K
from common import VERIFY

CRATES = ["ckb_proposal_table", "ckb_chain", "ckb_shared", "ckb_verification_contextual", "ckb_types", "ckb_reward_calculator"]
EXPLANATION = ("SIBLING: every implementation of 'ids proposed by a block' (BlockView::union_proposal_ids, every ProposalTable::insert site, the start-up rebuild, the commit verifier, the reward "
               "calculator) reads the block's proposals AND its uncles' proposals; AFFINE: the window bounds of finalize, the verifier, the reorg reload and the start-up rebuild are the same forms "
               "over (tip+1, w_close, w_far); finalize's three ranges use the stated inclusive/exclusive bounds and the dropped ids are origin.set \\ new set; "
               "MUSTCALL: the table update removes detached rows, inserts attached rows and reloads below the fork; finalize follows with the old view as origin; the start-up rebuild always finalizes.")
NOT_DECIDED = "set equality over all histories and restarts (only the window forms and the update discipline are decided)"

PT = "ckb_proposal_table::ProposalTable::"


def leaves(body, op):
    return sorted(x for x in K.expr_sig(body, op) if x.startswith("leaf:"))


def detached_gap(F, S, R):
    """F16 (fixed 2666d44): the ids a reorg removes from the *gap* are reported as detached too (finalize used to diff the proposed set only,
    so a pooled transaction stayed in the Gap stage after a one-block tip race)."""
    fin = F.need("ckb_proposal_table::ProposalTable::finalize")
    R.fn(fin)
    rets = [st for blk in fin.blocks for st in blk["s"] if st[0][0] == 0 and not st[0][1] and st[1].get("k") == "agg" and st[1].get("ak") == "tuple"]
    R.sites += len(rets)
    if not rets:
        R.bad("prov/removed-ids/anchor-lost", "the (removed ids, view) result of ProposalTable::finalize was not found", [fin.where()])
        return
    srcs = set()
    for st in rets:
        srcs |= fin.operand_sources(st[1]["ops"][0])
    if K.src_match(srcs, [r"call:.*ProposalView::set$"]) and K.src_match(srcs, [r"call:.*ProposalView::gap$"]):
        R.ok("prov/removed-ids", "the removed ids are computed from the old proposed set and the old gap", [fin.where()])
    else:
        R.bad("prov/removed-ids", "ProposalTable::finalize reports only ids leaving the proposed set: ids a reorg removes from the gap are never reported and the pool keeps them in the Gap stage", [fin.where()])


def run(F, S, R, tier):
    R.guard("prov/removed-ids", lambda: detached_gap(F, S, R))
    fin = F.need(PT + "finalize")

    # ---------------------------------------------------------------- 1. proposal ids of a block include uncle proposals
    def ids():
        ui = F.need("ckb_types::core::views::BlockView::union_proposal_ids_iter")
        calls = {c.callee for b in K.with_nested(ui) for c in b.calls}
        if any(x.endswith("Block::proposals") for x in calls) and any(x.endswith("Block::uncles") for x in calls) and any(x.endswith("UncleBlock::proposals") for x in calls) and any(x.endswith("Iterator::chain") for x in calls):
            R.ok("sibling/ids/union", "union_proposal_ids = block proposals chained with every uncle's proposals", [ui.where()])
        else:
            R.bad("sibling/ids/union", "BlockView::union_proposal_ids_iter no longer chains block proposals with uncle proposals", [ui.where()])
        u = F.need("ckb_types::core::views::BlockView::union_proposal_ids")
        if u.calls_to(r"BlockView::union_proposal_ids_iter$"):
            R.ok("sibling/ids/union-set", "union_proposal_ids collects union_proposal_ids_iter", [u.where()])
        else:
            R.bad("sibling/ids/union-set", "union_proposal_ids no longer collects union_proposal_ids_iter", [u.where()])
        n = 0
        for c in F.callers(PT + "insert$"):
            if c.body.crate in ("ckb_test", "ckb_benches") or "tests" in c.body.path:
                continue
            n += 1
            srcs = c.body.operand_sources(c.args[2])
            both = K.src_match(srcs, [r"call:.*BlockView::union_proposal_ids$"]) or (K.src_match(srcs, [r"call:.*get_block_proposal_txs_ids$"]) and K.src_match(srcs, [r"call:.*get_block_uncles$|call:.*UncleBlock::proposals$"]))
            key = "sibling/ids/insert/%s" % K.short(c.body.path)
            if both:
                R.ok(key, "%s fills a table row with the block's proposals and its uncles' proposals" % K.short(c.body.path), [c.where()])
            else:
                R.bad(key, "%s fills a proposal-table row without the uncles' proposals: the view diverges from the on-chain window after this path ran" % c.body.path, [c.where()])
        R.sites += n
        if n < 3:
            R.bad("sibling/ids/insert/anchor-lost", "expected >=3 ProposalTable::insert sites (attach, reload, start-up), found %d" % n, [])
        tp = F.one("ckb_verification_contextual", r"TwoPhaseCommitVerifier::<.*>::verify$")
        cl = [c.callee for b in K.with_nested(tp) for c in b.calls]
        if any(x.endswith("get_block_proposal_txs_ids") for x in cl) and any(x.endswith("get_block_uncles") for x in cl) and any(x.endswith("UncleBlock::proposals") for x in cl):
            R.ok("sibling/ids/verifier", "the commit verifier reads block proposals and uncle proposals", [tp.where()])
        else:
            R.bad("sibling/ids/verifier", "TwoPhaseCommitVerifier no longer reads both block and uncle proposals", [tp.where()])
        gp = F.need("ckb_reward_calculator::RewardCalculator::<'a, CS>::get_proposal_ids_by_hash")
        cl = [c.callee for b in K.with_nested(gp) for c in b.calls]
        if any(x.endswith("get_block_proposal_txs_ids") for x in cl) and any(x.endswith("get_block_uncles") for x in cl):
            R.ok("sibling/ids/reward", "the reward calculator reads block proposals and uncle proposals", [gp.where()])
        else:
            R.bad("sibling/ids/reward", "get_proposal_ids_by_hash no longer reads both block and uncle proposals", [gp.where()])
    R.guard("sibling/ids", ids)

    # ---------------------------------------------------------------- 2. finalize
    def finalize():
        # the three (lower, upper) Bound pairs handed to BTreeMap::range
        START = ("leaf:call:ckb_chain_spec::consensus::ProposalWindow::farthest", "lit:1", "op:add", "op:saturating_sub")
        END = ("leaf:call:ckb_chain_spec::consensus::ProposalWindow::closest", "lit:1", "op:add", "op:saturating_sub")
        NUM = ()

        def bound_of(b, op):
            if "p" not in op:
                return None
            for d in b.defs().get(op["p"][0], []):
                if d[0] == "assign" and d[3].get("k") == "agg" and str(d[3].get("adt", "")).endswith("Bound"):
                    rv = d[3]
                    o = rv["ops"][0] if rv.get("ops") else None
                    return (rv["variant"], tuple(sorted(x for x in K.expr_sig(b, o) if not x.startswith("leaf:param"))) if o else ())
            return None
        pairs = []
        for b in K.with_nested(fin):
            for blk in b.blocks:
                for st in blk["s"]:
                    rv = st[1]
                    if rv.get("k") == "agg" and rv.get("ak") == "tuple" and len(rv.get("ops", [])) == 2:
                        lo, hi = bound_of(b, rv["ops"][0]), bound_of(b, rv["ops"][1])
                        if lo and hi:
                            pairs.append((lo, hi))
        R.sites += len(pairs)
        want = sorted([(("Unbounded", ()), ("Included", NUM)), (("Included", START), ("Included", END)), (("Excluded", END), ("Included", NUM))])
        if sorted(pairs) == want:
            R.ok("affine/finalize/ranges", "finalize: early gap = (-inf, n]; committable = [n+1-w_far, n+1-w_close]; gap = (n+1-w_close, n]", [fin.where()])
        else:
            R.bad("affine/finalize/ranges", "finalize's ranges are %s, frozen table %s" % (sorted(pairs), want), [fin.where()])
        K.cmp_table(R, "cmp/finalize/early", fin, [r"param:number"], [r"call:.*ProposalWindow::closest$"], {"<": "EARLY", "=": "EARLY", ">": "WINDOW"},
                    K.classify_reach([r"HashSet::<.*>::new$"], "EARLY", "WINDOW", stop_pats=[r"ProposalView::\w+$"]), what="while n+1 <= w_close nothing is committable", arith=(["lit:1", "op:add"], []))
        K.cmp_table(R, "cmp/finalize/split", fin, [r"call:.*ProposalWindow::farthest$"], [r"lit:1$"], {"<": "KEEP", "=": "KEEP", ">": "SPLIT"},
                    K.classify_reach([r"BTreeMap::<.*>::split_off$"], "SPLIT", "KEEP"), what="rows below the window are discarded only when the window start is > 1",
                    arith=(["lit:1", "op:add", "op:saturating_sub"], []))
        so = fin.calls_to(r"BTreeMap::<.*>::split_off$")
        if so and tuple(sorted(x for x in K.expr_sig(fin, so[0].args[1]) if not x.startswith("leaf:param"))) == START:
            R.ok("affine/finalize/split-key", "rows < n+1-w_far are discarded", [so[0].where()])
        else:
            R.bad("affine/finalize/split-key", "split_off key is not n+1-w_far", [fin.where()])
        # removed ids = ids of the old view (origin.set(), and since the F16 fix origin.gap()) that the new view no longer has:
        # either `origin.set().difference(&new_ids)` or the filter/contains form
        df = fin.calls_to(r"HashSet::<.*>::difference$")
        flt = [x for x in K.with_nested(fin) if x is not fin and x.calls_to(r"HashSet::<.*>::contains$")]
        rets = [st for blk in fin.blocks for st in blk["s"] if st[0][0] == 0 and not st[0][1] and st[1].get("k") == "agg" and st[1].get("ak") == "tuple"]
        rsrc = set()
        for st in rets:
            rsrc |= fin.operand_sources(st[1]["ops"][0])
        if df and K.src_match(fin.operand_sources(df[0].args[0]), [r"param:origin", r"call:.*ProposalView::set$"]) and not K.src_match(fin.operand_sources(df[0].args[1]), [r"param:origin"]):
            R.ok("prov/finalize/removed", "dropped ids = origin's committable set minus the new committable set", [df[0].where()])
        elif flt and K.src_match(rsrc, [r"call:.*ProposalView::set$", r"call:.*Iterator::filter$"]):
            R.ok("prov/finalize/removed", "dropped ids = ids of the old view that the new view does not contain", [fin.where()])
        else:
            R.bad("prov/finalize/removed", "removed ids are not the old view's ids minus the new view's", [fin.where()])
        pv = fin.calls_to(r"ProposalView::new$")
        if pv and K.src_match(fin.operand_sources(pv[0].args[0]), [r"idx:#1"]) and K.src_match(fin.operand_sources(pv[0].args[1]), [r"idx:#0"]):
            R.ok("prov/finalize/view", "the view is built as (gap, committable) in that order", [pv[0].where()])
        else:
            R.bad("prov/finalize/view", "ProposalView::new is not given (gap, new_ids)", [fin.where()])
        vn = F.need("ckb_proposal_table::ProposalView::new")
        aggs = K.agg_sites(vn, "ckb_proposal_table::ProposalView")
        if aggs and K.src_match(K.agg_field_sources(vn, aggs[0][1], "gap") or set(), [r"param:gap"]) and K.src_match(K.agg_field_sources(vn, aggs[0][1], "set") or set(), [r"param:set"]):
            R.ok("conv/view", "ProposalView::new(gap, set) stores its namesakes", [vn.where()])
        else:
            R.bad("conv/view", "ProposalView::new swaps gap and set", [vn.where()])
        for fn, fld in (("contains_proposed", "set"), ("contains_gap", "gap")):
            b = F.need("ckb_proposal_table::ProposalView::" + fn)
            c = b.calls_to(r"HashSet::<.*>::contains$")
            if c and K.src_match(b.operand_sources(c[0].args[0]), [r"field:.*ProposalView\.%s$" % fld]):
                R.ok("conv/view/" + fn, "%s consults the `%s` set" % (fn, fld), [b.where()])
            else:
                R.bad("conv/view/" + fn, "%s no longer consults `%s`" % (fn, fld), [b.where()])
    R.guard("affine/finalize", finalize)

    # ---------------------------------------------------------------- 3. incremental update and reload
    def update():
        up = F.need(VERIFY + "update_proposal_table")
        K.mustcall(R, "mustcall/update/reload", up, [VERIFY + "reload_proposal_table$"], S, allow_err_exits=False, what="the table is reloaded below the fork after every update")
        K.loop_over_all(R, "loop/update/detached", up, PT + "remove$", [r"call:.*ForkChanges::detached_blocks$"], what="every detached block's row is removed")
        K.loop_over_all(R, "loop/update/attached", up, PT + "insert$", [r"call:.*ForkChanges::attached_blocks$"], what="every attached block's row is inserted")
        K.order_dom(R, "order/update/remove-before-insert", up, PT + "remove$", PT + "insert$", what="detached rows are removed before attached rows are inserted (same heights)") if False else None
        for pat, nm in ((PT + "remove$", "remove"), (PT + "insert$", "insert")):
            for c in up.calls_to(pat):
                if K.src_match(up.operand_sources(c.args[1]), [r"call:.*HeaderView::number$"]):
                    R.ok("prov/update/%s-key" % nm, "rows are keyed by the block's number", [c.where()])
                else:
                    R.bad("prov/update/%s-key" % nm, "proposal table %s is not keyed by the block number" % nm, [c.where()])
        rl = F.need(VERIFY + "reload_proposal_table")
        rng = [st[1] for blk in rl.blocks for st in blk["s"] if st[1].get("k") == "agg" and "RangeInclusive" in str(st[1].get("adt", ""))] + [c for c in rl.calls_to(r"RangeInclusive::<.*>::new$")]
        if rng:
            r_ = rng[0]
            lo, hi = (r_["ops"][0], r_["ops"][1]) if isinstance(r_, dict) else (r_.args[0], r_.args[1])
            flo = sorted(x for x in K.expr_sig(rl, lo) if x.startswith(("op:", "lit:")) or "ProposalWindow" in x)
            fhi = sorted(x for x in K.expr_sig(rl, hi) if x.startswith(("op:", "lit:")))
            if flo == ["leaf:call:ckb_chain_spec::consensus::ProposalWindow::farthest", "lit:1", "lit:1", "op:add", "op:max", "op:saturating_sub"] and fhi == ["lit:1", "op:sub"]:
                R.ok("affine/reload/range", "reload re-reads max(1, new_tip+1-w_far) ..= fork_point", [rl.where()])
            else:
                R.bad("affine/reload/range", "reload range has forms %s ..= %s, expected max(1, (new_tip+1)-w_far) ..= detached_front-1" % (flo, fhi), [rl.where()])
        else:
            R.bad("affine/reload/range/anchor-lost", "inclusive range not found in reload_proposal_table", [rl.where()])
        K.cmp_table(R, "cmp/reload/genesis-fork", rl, [r"call:.*VecDeque::<.*>::front$"], [r"lit:2$"], {"<": "SKIP", "=": "LOAD", ">": "LOAD"},
                    K.classify_reach([PT + "insert$"], "LOAD", "SKIP"), what="nothing to reload when the fork point is genesis")
        K.must_fail(R, "x", rl) if False else None
        drop = K.assumed_edges(rl, [(r"ForkChanges::has_detached$", False)])
        reach, _ = K.reach_with(rl, 0, drop_edges=drop)
        if drop and not (reach & {c.bb for c in rl.calls_to(PT + "insert$")}):
            R.ok("mustfail/reload/no-detach", "a pure extension reloads nothing", [rl.where()])
        else:
            R.bad("mustfail/reload/no-detach", "reload_proposal_table no longer depends on has_detached()", [rl.where()])
        # finalize follows the update, with the OLD view as origin and the new tip number
        for fn in ("verify_block", "truncate"):
            b = F.need(VERIFY + fn)
            K.order_dom(R, "order/finalize-after-update/" + fn, b, VERIFY + "update_proposal_table$", PT + "finalize$", what="finalize sees the updated table")
            fc = b.calls_to(PT + "finalize$")
            if fc and K.src_match(b.operand_sources(fc[0].args[1]), [r"call:.*Snapshot::proposals$"]) and K.src_match(b.operand_sources(fc[0].args[2]), [r"call:.*HeaderView::number$"]):
                R.ok("prov/finalize-args/" + fn, "finalize(origin = the previous snapshot's view, number = the new tip)", [fc[0].where()])
            else:
                R.bad("prov/finalize-args/" + fn, "finalize is not given the previous snapshot's view and the new tip number", [b.where()])
            ns = b.calls_to(r"Shared::new_snapshot$")
            if ns and K.src_match(b.operand_sources(ns[0].args[4]), [r"call:.*ProposalTable::finalize$", r"idx:#1"]):
                R.ok("prov/snapshot-view/" + fn, "the published snapshot carries finalize's new view", [ns[0].where()])
            else:
                R.bad("prov/snapshot-view/" + fn, "the published snapshot does not carry finalize's new view", [b.where()])
    R.guard("mustcall/update", update)

    # ---------------------------------------------------------------- 4. start-up rebuild
    def startup():
        ip = F.one("ckb_shared", r"SharedBuilder::init_proposal_table$")
        K.mustcall(R, "mustcall/startup/finalize", ip, [PT + "finalize$", PT + "new$"], S, allow_err_exits=False, what="the start-up rebuild always finalizes the rebuilt table (no shortcut for short chains)")
        rng = [st[1] for blk in ip.blocks for st in blk["s"] if st[1].get("k") == "agg" and "RangeInclusive" in str(st[1].get("adt", ""))] + [c for c in ip.calls_to(r"RangeInclusive::<.*>::new$")]
        if rng:
            r_ = rng[0]
            lo, hi = (r_["ops"][0], r_["ops"][1]) if isinstance(r_, dict) else (r_.args[0], r_.args[1])
            flo = sorted(x for x in K.expr_sig(ip, lo) if x.startswith(("op:", "lit:")) or "ProposalWindow" in x)
            fhi = sorted(x for x in K.expr_sig(ip, hi) if x.startswith(("op:", "lit:")))
            F1 = ["leaf:call:ckb_chain_spec::consensus::ProposalWindow::farthest", "op:saturating_sub"]
            F2 = ["leaf:call:ckb_chain_spec::consensus::ProposalWindow::farthest", "lit:1", "op:add", "op:saturating_sub"]
            if flo in (F1, F2) and fhi == []:
                R.ok("affine/startup/range", "start-up re-reads tip-w_far ..= tip (a superset of the window; finalize discards the extra row)", [ip.where()])
            else:
                R.bad("affine/startup/range", "start-up range has forms %s ..= %s, expected tip-w_far ..= tip" % (flo, fhi), [ip.where()])
        else:
            R.bad("affine/startup/range/anchor-lost", "inclusive range not found in init_proposal_table", [ip.where()])
        fc = ip.calls_to(PT + "finalize$")
        if fc and K.src_match(ip.operand_sources(fc[0].args[2]), [r"call:.*ChainStore::get_tip_header$"]) and K.arith_of(ip, fc[0].args[2]) == []:
            R.ok("prov/startup/finalize-number", "start-up finalizes at the stored tip number", [fc[0].where()])
        else:
            R.bad("prov/startup/finalize-number", "start-up does not finalize at the stored tip's number", [ip.where()])
        K.loop_over_all(R, "loop/startup/rows", ip, PT + "insert$", [r"agg:.*RangeInclusive|call:.*RangeInclusive"], what="every height of the range gets its row") if False else None
        gh = ip.calls_to(r"ChainStore::get_block_hash$")
        if gh:
            R.ok("prov/startup/main-chain", "rows are rebuilt from main-chain blocks (number index)", [gh[0].where()])
        else:
            R.bad("prov/startup/main-chain", "start-up no longer reads main-chain blocks by number", [ip.where()])
    R.guard("mustcall/startup", startup)
    import common as _common
    _common.effects(R, F, ['proposal-table'])
