"""Shared anchors and effect tables for the rule files."""
from collections import Counter

import kinds as K

VERIFY = "ckb_chain::verify::ConsumeUnverifiedBlockProcessor::"

# store write primitives: pattern -> (verb, index of the column argument)
STORE_EFFECT_TABLE = {
    r"^ckb_store::transaction::StoreTransaction::insert_raw$": ("put", 1),
    r"^ckb_store::transaction::StoreTransaction::delete$": ("del", 1),
    r"^ckb_store::write_batch::StoreWriteBatch::put$": ("put", 1),
    r"^ckb_store::write_batch::StoreWriteBatch::delete$": ("del", 1),
    r"^ckb_db::write_batch::RocksDBWriteBatch::put$": ("put", 1),
    r"^ckb_db::write_batch::RocksDBWriteBatch::delete$": ("del", 1),
    r"^ckb_db::write_batch::RocksDBWriteBatch::delete_range$": ("del", 1),
    r"^ckb_db::transaction::RocksDBTransaction::put$": ("put", 1),
    r"^ckb_db::transaction::RocksDBTransaction::delete$": ("del", 1),
}
STORE_WRITES = list(STORE_EFFECT_TABLE)


def store_effects(F, S, body, depth=4, seen=None):
    """Counter of (verb, COLUMN) call sites reachable from body (each site counted once)."""
    seen = set() if seen is None else seen
    out = Counter()
    if body.path in seen:
        return out
    seen.add(body.path)
    tp = [(K.rx(p), v) for p, v in STORE_EFFECT_TABLE.items()]
    for c in body.calls:
        matched = False
        for p, (verb, ai) in tp:
            if c.matches(p):
                matched = True
                k = K.const_of_operand(body, c.args[ai]) if ai < len(c.args) else None
                out[(verb, k.split("::")[-1] if k else "?")] += 1
                break
        if matched or depth <= 0:
            continue
        for cb in S.callee_bodies(c):
            out += store_effects(F, S, cb, depth - 1, seen)
        for cl in S.closure_args(c):
            out += store_effects(F, S, cl, depth - 1, seen)
    return out


def body_in(F, crate, pat):
    bs = F.find(crate, pat)
    if not bs:
        from facts import AnchorLost
        raise AnchorLost("%s ~ %s" % (crate, pat))
    return bs


def cell_entry_rule(F, S, R):
    """attach_block_cell and detach_block_cell build CellEntry from namesake sources, so a cell restored by a
    reorg is identical to the one originally created (creating block, epoch, tx index, data size)."""
    want = {
        "attach": {"output": [], "block_hash": [r"call:.*HeaderView::hash"], "block_number": [r"call:.*HeaderView::number"],
                   "block_epoch": [r"call:.*HeaderView::epoch"], "index": [r"call:.*BlockView::transactions$", r"call:.*Iterator::enumerate$", r"!call:.*outputs_with_data_iter$"], "data_size": [r"call:.*::len$"]},
        "detach": {"output": [], "block_hash": [r"field:.*TransactionInfo\.block_hash"], "block_number": [r"field:.*TransactionInfo\.block_number"],
                   "block_epoch": [r"field:.*TransactionInfo\.block_epoch"], "index": [r"field:.*TransactionInfo\.index"], "data_size": [r"call:.*::len$"]},
    }
    for side, fn in (("attach", "ckb_store::cell::attach_block_cell"), ("detach", "ckb_store::cell::detach_block_cell")):
        root = F.need(fn)
        bodies = K.with_nested(root)
        setters = {}
        for b in bodies:
            R.fn(b)
            for c in b.calls:
                m = K.rx(r"CellEntryBuilder::(\w+)$").search(c.callee)
                if m and m.group(1) not in ("build", "default"):
                    setters.setdefault(m.group(1), []).append(c)
        R.sites += sum(len(v) for v in setters.values())
        for f, srcs in want[side].items():
            key = "conv/cell-entry/%s/%s" % (side, f)
            cs = setters.get(f, [])
            if not cs:
                R.bad(key, "%s builds CellEntry without setting `%s`" % (fn, f), [root.where()])
                continue
            c = cs[0]
            have = c.body.operand_sources(c.args[1]) if len(c.args) > 1 else set()
            forbidden = [p[1:] for p in srcs if p.startswith("!")]
            srcs = [p for p in srcs if not p.startswith("!")]
            if (srcs and not K.src_match(have, srcs)) or any(K.rx(p).search(h) for p in forbidden for h in have):
                R.bad(key, "%s: CellEntry.%s is not derived from %s (%s)" % (fn, f, srcs, c.where()), [c.where()])
            else:
                R.ok(key, "%s: CellEntry.%s derives from %s" % (K.short(fn), f, srcs or "the output"), [c.where()])
