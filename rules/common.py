"""Shared anchors and effect tables for the rule files."""
from collections import Counter

import kinds as K

VERIFY = "ckb_chain::verify::ConsumeUnverifiedBlockProcessor::"

# store write primitives: pattern -> (verb, index of the column argument)
STORE_EFFECT_TABLE = {
    r"^ckb_store::transaction::StoreTransaction::insert_raw$": ("put", 1),
    r"^ckb_store::transaction::StoreTransaction::delete$": ("del", 1),
    r"^ckb_store::write_batch::StoreWriteBatch::put$": ("put", 1),
    r"^ckb_store::write_batch::StoreWriteBatch::delete$": ("del", 1),
    r"^ckb_db::write_batch::RocksDBWriteBatch::put$": ("put", 1),
    r"^ckb_db::write_batch::RocksDBWriteBatch::delete$": ("del", 1),
    r"^ckb_db::write_batch::RocksDBWriteBatch::delete_range$": ("del", 1),
    r"^ckb_db::transaction::RocksDBTransaction::put$": ("put", 1),
    r"^ckb_db::transaction::RocksDBTransaction::delete$": ("del", 1),
}
STORE_WRITES = list(STORE_EFFECT_TABLE)


def store_effects(F, S, body, depth=4, seen=None):
    """Counter of (verb, COLUMN) call sites reachable from body (each site counted once)."""
    seen = set() if seen is None else seen
    out = Counter()
    if body.path in seen:
        return out
    seen.add(body.path)
    tp = [(K.rx(p), v) for p, v in STORE_EFFECT_TABLE.items()]
    for c in body.calls:
        matched = False
        for p, (verb, ai) in tp:
            if c.matches(p):
                matched = True
                k = K.const_of_operand(body, c.args[ai]) if ai < len(c.args) else None
                out[(verb, k.split("::")[-1] if k else "?")] += 1
                break
        if matched or depth <= 0:
            continue
        for cb in S.callee_bodies(c):
            out += store_effects(F, S, cb, depth - 1, seen)
        for cl in S.closure_args(c):
            out += store_effects(F, S, cl, depth - 1, seen)
    return out


def body_in(F, crate, pat):
    bs = F.find(crate, pat)
    if not bs:
        from facts import AnchorLost
        raise AnchorLost("%s ~ %s" % (crate, pat))
    return bs
