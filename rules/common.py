"""Shared anchors and effect tables for the rule files."""
from collections import Counter

import kinds as K

VERIFY = "ckb_chain::verify::ConsumeUnverifiedBlockProcessor::"

# store write primitives: pattern -> (verb, index of the column argument)
STORE_EFFECT_TABLE = {
    r"^ckb_store::transaction::StoreTransaction::insert_raw$": ("put", 1),
    r"^ckb_store::transaction::StoreTransaction::delete$": ("del", 1),
    r"^ckb_store::write_batch::StoreWriteBatch::put$": ("put", 1),
    r"^ckb_store::write_batch::StoreWriteBatch::delete$": ("del", 1),
    r"^ckb_db::write_batch::RocksDBWriteBatch::put$": ("put", 1),
    r"^ckb_db::write_batch::RocksDBWriteBatch::delete$": ("del", 1),
    r"^ckb_db::write_batch::RocksDBWriteBatch::delete_range$": ("del", 1),
    r"^ckb_db::transaction::RocksDBTransaction::put$": ("put", 1),
    r"^ckb_db::transaction::RocksDBTransaction::delete$": ("del", 1),
}
STORE_WRITES = list(STORE_EFFECT_TABLE)


def store_effects(F, S, body, depth=4, seen=None):
    """Counter of (verb, COLUMN) call sites reachable from body (each site counted once)."""
    seen = set() if seen is None else seen
    out = Counter()
    if body.path in seen:
        return out
    seen.add(body.path)
    tp = [(K.rx(p), v) for p, v in STORE_EFFECT_TABLE.items()]
    for c in body.calls:
        matched = False
        for p, (verb, ai) in tp:
            if c.matches(p):
                matched = True
                k = K.const_of_operand(body, c.args[ai]) if ai < len(c.args) else None
                out[(verb, k.split("::")[-1] if k else "?")] += 1
                break
        if matched or depth <= 0:
            continue
        for cb in S.callee_bodies(c):
            out += store_effects(F, S, cb, depth - 1, seen)
        for cl in S.closure_args(c):
            out += store_effects(F, S, cl, depth - 1, seen)
    return out


def body_in(F, crate, pat):
    bs = F.find(crate, pat)
    if not bs:
        from facts import AnchorLost
        raise AnchorLost("%s ~ %s" % (crate, pat))
    return bs


def cell_entry_rule(F, S, R):
    """attach_block_cell and detach_block_cell build CellEntry from namesake sources, so a cell restored by a
    reorg is identical to the one originally created (creating block, epoch, tx index, data size)."""
    want = {
        "attach": {"output": [], "block_hash": [r"call:.*HeaderView::hash"], "block_number": [r"call:.*HeaderView::number"],
                   "block_epoch": [r"call:.*HeaderView::epoch"], "index": [r"call:.*BlockView::transactions$", r"call:.*Iterator::enumerate$", r"!call:.*outputs_with_data_iter$"], "data_size": [r"call:.*::len$"]},
        "detach": {"output": [], "block_hash": [r"field:.*TransactionInfo\.block_hash"], "block_number": [r"field:.*TransactionInfo\.block_number"],
                   "block_epoch": [r"field:.*TransactionInfo\.block_epoch"], "index": [r"field:.*TransactionInfo\.index"], "data_size": [r"call:.*::len$"]},
    }
    for side, fn in (("attach", "ckb_store::cell::attach_block_cell"), ("detach", "ckb_store::cell::detach_block_cell")):
        root = F.need(fn)
        bodies = K.with_nested(root)
        setters = {}
        for b in bodies:
            R.fn(b)
            for c in b.calls:
                m = K.rx(r"CellEntryBuilder::(\w+)$").search(c.callee)
                if m and m.group(1) not in ("build", "default"):
                    setters.setdefault(m.group(1), []).append(c)
        R.sites += sum(len(v) for v in setters.values())
        for f, srcs in want[side].items():
            key = "conv/cell-entry/%s/%s" % (side, f)
            cs = setters.get(f, [])
            if not cs:
                R.bad(key, "%s builds CellEntry without setting `%s`" % (fn, f), [root.where()])
                continue
            c = cs[0]
            have = c.body.operand_sources(c.args[1]) if len(c.args) > 1 else set()
            forbidden = [p[1:] for p in srcs if p.startswith("!")]
            srcs = [p for p in srcs if not p.startswith("!")]
            if (srcs and not K.src_match(have, srcs)) or any(K.rx(p).search(h) for p in forbidden for h in have):
                R.bad(key, "%s: CellEntry.%s is not derived from %s (%s)" % (fn, f, srcs, c.where()), [c.where()])
            else:
                R.ok(key, "%s: CellEntry.%s derives from %s" % (K.short(fn), f, srcs or "the output"), [c.where()])


# ------------------------------------------------------------------ EFFECTSITES tables (DESIGN 3.14)
# mutators of protected state: callee -> {caller root regex: (reviewed number of call sites, what each is for)}
ST_ = r"^ckb_store::transaction::StoreTransaction::"
RECONCILE = r"^ckb_chain::verify::ConsumeUnverifiedBlockProcessor::reconcile_main_chain$"
ROLLBACK = r"^ckb_chain::verify::ConsumeUnverifiedBlockProcessor::rollback$"
VBLOCK = r"^ckb_chain::verify::ConsumeUnverifiedBlockProcessor::verify_block$"
TRUNC = r"^ckb_chain::verify::ConsumeUnverifiedBlockProcessor::truncate$"
INIT = r"^ckb_store::db::ChainDB::init$"
EFFECT_TABLES = {
    "main-chain": [
        ("attach_block", ST_ + "attach_block$", {RECONCILE: (3, "verified prefix, freshly verified block, disable_all arm"), INIT: (1, "genesis")}),
        ("detach_block", ST_ + "detach_block$", {ROLLBACK: (1, "one per detached block, newest first")}),
        ("attach_block_cell", r"^ckb_store::cell::attach_block_cell$", {RECONCILE: (3, "next to every attach_block"), INIT: (1, "genesis")}),
        ("detach_block_cell", r"^ckb_store::cell::detach_block_cell$", {ROLLBACK: (1, "next to detach_block")}),
        ("insert_tip_header", ST_ + "insert_tip_header$", {VBLOCK: (1, "new best block"), TRUNC: (1, "truncate target"), INIT: (1, "genesis")}),
        ("insert_current_epoch_ext", ST_ + "insert_current_epoch_ext$", {VBLOCK: (1, "new epoch or detached blocks"), TRUNC: (1, "truncate target's epoch"), INIT: (1, "genesis")}),
    ],
    "verdicts": [
        ("insert_block_ext", ST_ + "insert_block_ext$", {
            r"^ckb_chain::verify::ConsumeUnverifiedBlockProcessor::insert_(ok|failure)_ext$": (2, "verdict of a verified block"), VBLOCK: (1, "ext of a freshly received block, verified = None"),
            INIT: (1, "genesis"), r"^ckb_migrate::": (1, "migration")}),
        ("insert_epoch_ext", ST_ + "insert_epoch_ext$", {VBLOCK: (1, "epoch head"), INIT: (1, "genesis")}),
        ("delete_block", ST_ + "delete_block$", {r"^ckb_chain::delete_unverified_block$": (1, "invalid block / expired orphan"), TRUNC: (1, "attached side of a truncate fork (empty)")}),
    ],
    "pool": [
        ("remove_entry", r"^ckb_tx_pool::component::pool_map::PoolMap::remove_entry$", {
            r"PoolMap::remove_entry_and_descendants$": (1, "each collected id"), r"TxPool::remove_committed_tx$": (1, "committed on chain"), r"TxPool::remove_expired$": (1, "older than expiry")}),
        ("remove_entry_and_descendants", r"^ckb_tx_pool::component::pool_map::PoolMap::remove_entry_and_descendants$", {
            r"PoolMap::check_and_record_ancestors$": (1, "evict a cell-dep referrer under the ancestor limit"), r"PoolMap::resolve_conflict$": (2, "input and dep conflicts of a committed tx"),
            r"PoolMap::resolve_conflict_header_dep$": (1, "dependants of a detached header"), r"PoolMap::resolve_missing_outputs$": (1, "spenders of a detached tx that cannot return (F17)"),
            r"TxPool::limit_size$": (1, "size-limit eviction"), r"TxPool::remove_by_detached_proposal$": (1, "detached proposal"), r"TxPool::remove_tx$": (1, "rpc remove_transaction"),
            r"TxPoolService>::process_rbf$": (1, "replaced by fee")}),
        ("add_entry", r"^ckb_tx_pool::component::pool_map::PoolMap::add_entry$", {r"TxPool::add_(pending|gap|proposed)$": (3, "one per stage")}),
    ],
    "proposal-table": [
        ("table-update", r"^ckb_proposal_table::ProposalTable::(insert|remove)$", {
            r"ConsumeUnverifiedBlockProcessor::update_proposal_table$": (2, "remove each detached number, insert each attached"), r"ConsumeUnverifiedBlockProcessor::reload_proposal_table$": (1, "rows below the fork"),
            r"SharedBuilder::init_proposal_table$": (1, "start-up rebuild")}),
    ],
    "freeze": [
        ("wipe", r"^ckb_store::write_batch::StoreWriteBatch::delete_block(_body)?$", {
            r"^ckb_shared::shared::Shared::wipe_out_frozen_data$": (2, "bodies of frozen main-chain blocks, whole side-chain blocks"), r"StoreWriteBatch::delete_block$": (1, "delete_block = header + delete_block_body")}),
        ("freezer-truncate", r"^ckb_freezer::freezer_files::FreezerFiles::truncate$", {r"^ckb_freezer::freezer::Freezer::truncate$": (1, "the only entry")}),
    ],
    "commitments": [
        ("header-digest", ST_ + "insert_header_digest$", {r"MMRStore<.*HeaderDigest>>::append$": (1, "MMR node store")}),
        ("block-filter", ST_ + "insert_block_filter$", {r"^ckb_block_filter::filter::BlockFilter::build_filter_data_for_block$": (1, "the filter builder")}),
    ],
}


def effects(R, F, groups, prefix="effects"):
    """evaluate the EFFECTSITES tables of the named groups"""
    for g in groups:
        for name, callee, table in EFFECT_TABLES[g]:
            key = "%s/%s/%s" % (prefix, g, name)
            R.guard(key, lambda key=key, callee=callee, table=table, name=name: K.effect_sites(R, key, F, callee, table, what="who may %s, and how often" % name))
