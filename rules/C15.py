"""C15 - encodings round-trip and hashes commit to content (structural necessary conditions)."""
import re

import kinds as K
from common import store_effects

CRATES = ["ckb_jsonrpc_types", "ckb_types", "ckb_gen_types", "ckb_store"]
EXPLANATION = ("CONV: every hand-written conversion between packed (molecule), JSON-RPC and core types calls every setter of every molecule builder it opens, feeds each setter / struct field from its "
               "namesake on the other side (frozen table of renames), and passes no value through a narrowing or reordering combinator; SIBLING: integer packers and unpackers agree on width and byte order; "
               "PROV: the hash-scope table of calc_hash.rs (tx hash = raw only, witness hash = whole transaction, header hash = whole header, pow hash = raw header, uncles/proposals hashes fold every element, "
               "extra hash = uncles hash then extension hash, transactions root = merkle(raw root, witnesses root) in that order); cached hashes in views come from the matching calc function or from the matching "
               "cache of another view; nothing outside tests overwrites a cached hash; LAYOUT: the block reader of the store reads every column the block writer fills and hands the stored extension to the view.")
NOT_DECIDED = "byte-level behaviour of the molecule-generated readers/builders and of the JSON text codecs for all values (generated/third-party code is trusted); merkle_cbt arithmetic"

GEN = "ckb_gen_types::generated::"
LOSSY = re.compile(r"call:.*(Option::<.*>::(filter|take|xor|and|or)|Iterator::(filter|skip|take|rev|step_by|skip_while|take_while|filter_map|nth|last|dedup)|"
                   r"::(sort\w*|dedup\w*|truncate|retain|drain|split_off|pop|swap_remove|remove|reverse|resize))$")
NESTED_BUILD = re.compile(r"call:<ckb_gen_types::generated::\w+::\w+Builder as molecule::prelude::Builder>::build$")

# scopes of hand-written conversions: (crate, body-path regex, extra path filter)
SCOPES = [
    ("ckb_jsonrpc_types", r"::from$", r"ckb_gen_types::generated|ckb_types::core::views"),
    ("ckb_types", r"^ckb_types::conversion::.*::(pack|unpack|from)$", None),
    ("ckb_types", r"^ckb_types::extension::.*::reset_header_with_hashes$", None),
    ("ckb_types", r"^ckb_types::core::advanced_builders::(TransactionBuilder|HeaderBuilder)::build$", None),
    ("ckb_types", r"^ckb_types::core::advanced_builders::BlockBuilder::build_internal$", None),
    ("ckb_types", r"^ckb_types::core::views::BlockView::new_unchecked(_with_extension)?$", None),
    ("ckb_gen_types", r"^ckb_gen_types::conversion::.*::(pack|unpack|from)$", None),
]
# renames and derived fields: (function regex, builder-or-adt short name, field) -> accepted source regex (None = no source required)
RENAMES = [
    (r"From<block_template::BlockTemplate>", "RawHeaderBuilder", "timestamp", r"field:.*BlockTemplate\.current_time$"),
    (r"reset_header_with_hashes$", "RawHeaderBuilder", "transactions_root", r"call:.*merkle_root$"),
    (r"reset_header_with_hashes$", "RawHeaderBuilder", "proposals_hash", r"call:.*calc_proposals_hash$"),
    (r"reset_header_with_hashes$", "RawHeaderBuilder", "extra_hash", r"call:.*ExtraHashView::extra_hash$"),
    (r"BlockView::new_unchecked(_with_extension)?$", "*", "header", r"^param:1$"),
    (r"BlockView::new_unchecked(_with_extension)?$", "*", "uncles", r"^param:2$"),
    (r"BlockView::new_unchecked(_with_extension)?$", "*", "transactions", r"^param:3$"),
    (r"BlockView::new_unchecked(_with_extension)?$", "*", "proposals", r"^param:4$"),
    (r"BlockView::new_unchecked_with_extension$", "*", "extension", r"^param:5$"),
    (r"BlockBuilder::build_internal$", "*", "header", r"call:.*HeaderBuilder::build$"),
    (r"BlockBuilder::build_internal$", "*", "uncles", r"field:.*BlockBuilder\.uncles$"),
    (r"BlockExtReader<'r>>", "BlockExt", "cycles", None),       # V0 records carry no cycles / sizes
    (r"BlockExtReader<'r>>", "BlockExt", "txs_sizes", None),
    (r"ckb_jsonrpc_types", "TransactionView", "inner", r"call:.*(TransactionView::data|Block::transactions)$"),
    (r"ckb_jsonrpc_types", "HeaderView", "inner", r"call:.*(::data|::header)$"),
    (r"ckb_jsonrpc_types", "TransactionView", "hash", r"call:.*(TransactionView::hash|BlockView::tx_hashes)$"),
    (r"ckb_jsonrpc_types", "HeaderView", "hash", r"call:.*(HeaderView::hash|BlockView::hash|BlockView::uncle_hashes|UncleBlockView::hash)$"),
]
# builders a conversion legitimately leaves partly at default: (function regex, builder) -> fields, reason
PARTIAL = {
    (r"From<block_template::BlockTemplate>", "RawHeaderBuilder"): {"transactions_root", "proposals_hash", "extra_hash"},   # filled by reset_header / the miner
    (r"From<block_template::BlockTemplate>", "HeaderBuilder"): {"nonce"},                                                 # the miner's job
}
FLOORS = {"bodies": 280, "chains": 40, "setters": 150, "aggs": 27}


def fields_of(F, adt):
    a = F.adt(adt)
    if not a:
        return None
    return [f["n"] for v in a["variants"] for f in v["f"]]


def rename(fn, owner, field):
    for frx, own, fl, src in RENAMES:
        if fl == field and (own == "*" or own == owner) and re.search(frx, fn):
            return (src,)
    return None


def namesake_ok(fn, owner, field, srcs):
    r = rename(fn, owner, field)
    if r is not None:
        return r[0] is None or any(re.search(r[0], s) for s in srcs), r[0]
    pat = r"^(field:.*\.%s|call:.*::%s)$" % (re.escape(field), re.escape(field))
    if any(re.search(pat, s) for s in srcs):
        return True, pat
    if any(NESTED_BUILD.search(s) for s in srcs) and field in ("raw", "header", "key"):
        return True, "nested builder"
    return False, pat


def conv(F, S, R):
    n = {"bodies": 0, "chains": 0, "setters": 0, "aggs": 0}
    for crate, prx, extra in SCOPES:
        for b in F.bodies_of_crate(crate):
            if b.kind not in ("AssocFn", "Fn") or not re.search(prx, b.path) or (extra and not re.search(extra, b.path)):
                continue
            n["bodies"] += 1
            R.fn(b)
            fn = K.short(b.path)
            bodies = K.with_nested(b)
            sets = {}
            news = {}
            for bb in bodies:
                for c in bb.calls:
                    m = re.search(r"(ckb_gen_types::generated::\w+::(\w+)Builder)::(\w+)$", c.callee)
                    if m and len(c.args) == 2:
                        sets.setdefault(m.group(1), []).append((m.group(3), c))
                    m = None
                    for nm in c.names():
                        m = m or re.search(r"<(ckb_gen_types::generated::\w+::\w+) as molecule::prelude::Entity>::new_builder$", nm)
                    if m:
                        news[m.group(1) + "Builder"] = news.get(m.group(1) + "Builder", 0) + 1
            for bt, lst in sorted(sets.items()):
                names = fields_of(F, bt)
                owner = bt.split("::")[-1]
                if names is None:
                    R.bad("conv/anchor-lost/%s" % owner, "builder type %s not found in the type table" % bt, [b.where()])
                    continue
                called = [x for x, _ in lst]
                if any(x in names for x in called):
                    n["chains"] += 1
                if news.get(bt):
                    allowed = set()
                    for (frx, own), fl in PARTIAL.items():
                        if own == owner and re.search(frx, b.path):
                            allowed |= fl
                    miss = [x for x in names if called.count(x) < news[bt] and not x.isdigit() and x not in allowed]
                    key = "conv/complete/%s/%s" % (fn, owner)
                    if miss:
                        R.bad(key, "%s opens %d %s chain(s) but never sets %s: the field silently takes its default" % (fn, news[bt], owner, miss), [b.where()])
                    else:
                        R.ok(key, "every field of %s is set in each of the %d chain(s)" % (owner, news[bt]), [b.where()])
                for x, c in lst:
                    if x not in names:
                        continue
                    n["setters"] += 1
                    srcs = c.body.operand_sources(c.args[1])
                    key = "conv/namesake/%s/%s.%s" % (fn, owner, x)
                    ok, pat = namesake_ok(b.path, owner, x, srcs)
                    lossy = sorted(s for s in srcs if LOSSY.search(s))
                    if not ok:
                        R.bad(key, "%s: %s.%s is not fed from its namesake (%s)" % (fn, owner, x, pat), [c.where()])
                    elif lossy:
                        R.bad(key, "%s: the value of %s.%s passes through %s: some values do not survive the conversion" % (fn, owner, x, [s.split("::")[-1] for s in lossy]), [c.where()])
                    else:
                        R.ok(key, "%s.%s <- namesake, no narrowing" % (owner, x), [c.where()])
            for bb in bodies:
                for i, blk in enumerate(bb.blocks):
                    for st in blk["s"]:
                        rv = st[1]
                        if not (rv.get("k") == "agg" and rv.get("ak") == "adt" and re.match(r"ckb_(jsonrpc_types|types::core)", rv.get("adt", ""))):
                            continue
                        fl = rv.get("fields") or []
                        if rv["adt"].startswith(VIEWS):
                            continue    # cached-hash views are decided by prov/view-hash
                        if len(fl) < 2 or fl[0].isdigit():
                            continue
                        n["aggs"] += 1
                        owner = rv["adt"].split("::")[-1]
                        for f in fl:
                            srcs = K.agg_field_sources(bb, rv, f) or set()
                            key = "conv/namesake/%s/%s.%s" % (fn, owner, f)
                            ok, pat = namesake_ok(b.path, owner, f, srcs)
                            lossy = sorted(s for s in srcs if LOSSY.search(s))
                            w = "%s:%s" % (bb.file, st[2])
                            if not ok:
                                R.bad(key, "%s: field %s.%s is not read from its namesake (%s)" % (fn, owner, f, pat), [w])
                            elif lossy:
                                R.bad(key, "%s: field %s.%s passes through %s" % (fn, owner, f, [s.split("::")[-1] for s in lossy]), [w])
                            else:
                                R.ok(key, "%s.%s <- namesake" % (owner, f), [w])
    R.sites += n["setters"] + n["aggs"]
    for k, floor in FLOORS.items():
        if n[k] < floor:
            R.bad("conv/floor/%s" % k, "only %d conversion %s analysed (floor %d): the conversion layer was not seen" % (n[k], k, floor), [])
        else:
            R.ok("conv/floor/%s" % k, "%d conversion %s analysed (floor %d)" % (n[k], k, floor), [])


def endianness(F, R):
    """ckb_gen_types::conversion::primitive: packer and unpacker of one packed integer agree on int type and byte order."""
    seen = {}
    for b in F.bodies_of_crate("ckb_gen_types"):
        if not re.match(r"ckb_gen_types::conversion::primitive::", b.path) or b.kind not in ("AssocFn", "Fn"):
            continue
        m = re.search(r"generated::\w+::((Be)?Uint(32|64|128))(Reader)?\b", b.path)
        if not m:
            continue
        for c in b.calls:
            mm = re.search(r"num::<impl (u\d+)>::(to|from)_(le|be|ne)_bytes$", c.callee)
            if mm:
                R.fn(b)
                seen.setdefault(m.group(1), []).append((mm.group(1), mm.group(2), mm.group(3), c))
    R.sites += sum(len(v) for v in seen.values())
    if len(seen) < 5:
        R.bad("sibling/int-codec/anchor-lost", "integer packers not found (%s)" % sorted(seen), [])
        return
    for t, lst in sorted(seen.items()):
        want_w = "u" + re.search(r"(\d+)$", t).group(1)
        want_e = "be" if t.startswith("Be") else "le"
        bad = [c for (w, d, e, c) in lst if w != want_w or e != want_e]
        dirs = {d for (_, d, _, _) in lst}
        key = "sibling/int-codec/%s" % t
        if bad:
            R.bad(key, "packed::%s is (un)packed with another width or byte order than %s/%s" % (t, want_w, want_e), [c.where() for c in bad])
        elif dirs != {"to", "from"}:
            R.bad(key, "packed::%s lacks a packer or an unpacker using %s_bytes" % (t, want_e), [lst[0][3].where()])
        else:
            R.ok(key, "all %d packers/unpackers of packed::%s use %s %s-endian" % (len(lst), t, want_w, want_e), [lst[0][3].where()])


# reader-level hash functions: (Type, fn) -> (required callees in dominance order, forbidden callees)
CH = r"ckb_gen_types::extension::calc_hash::"
HASH_SCOPE = [
    ("RawTransactionReader", "calc_tx_hash", [r"CalcHash>::calc_hash$|calc_hash::CalcHash::calc_hash$"], [r"Reader::<'r>::\w+$"]),
    ("TransactionReader", "calc_tx_hash", [r"TransactionReader::<'r>::raw$", r"RawTransactionReader<'r>>::calc_tx_hash$"], [r"::witnesses$", r"calc_witness_hash$"]),
    ("TransactionReader", "calc_witness_hash", [r"CalcHash>::calc_hash$|calc_hash::CalcHash::calc_hash$"], [r"::raw$", r"::witnesses$", r"calc_tx_hash$"]),
    ("RawHeaderReader", "calc_pow_hash", [r"CalcHash>::calc_hash$|calc_hash::CalcHash::calc_hash$"], [r"Reader::<'r>::\w+$"]),
    ("HeaderReader", "calc_pow_hash", [r"HeaderReader::<'r>::raw$", r"RawHeaderReader<'r>>::calc_pow_hash$"], [r"::nonce$"]),
    ("HeaderReader", "calc_header_hash", [r"CalcHash>::calc_hash$|calc_hash::CalcHash::calc_hash$"], [r"::raw$", r"::nonce$", r"calc_pow_hash$"]),
    ("UncleBlockReader", "calc_header_hash", [r"UncleBlockReader::<'r>::header$", r"HeaderReader<'r>>::calc_header_hash$"], []),
    ("UncleBlockReader", "calc_proposals_hash", [r"UncleBlockReader::<'r>::proposals$", r"ProposalShortIdVecReader<'r>>::calc_proposals_hash$"], []),
    ("BlockReader", "calc_header_hash", [r"BlockReader::<'r>::header$", r"HeaderReader<'r>>::calc_header_hash$"], []),
    ("BlockReader", "calc_proposals_hash", [r"BlockReader::<'r>::proposals$", r"ProposalShortIdVecReader<'r>>::calc_proposals_hash$"], []),
    ("BlockReader", "calc_uncles_hash", [r"BlockReader::<'r>::uncles$", r"UncleBlockVecReader<'r>>::calc_uncles_hash$"], []),
    ("BlockReader", "calc_extension_hash", [r"BlockReader<'r>>::extension$", r"Option::<.*>::map$"], []),
    ("CompactBlockReader", "calc_header_hash", [r"CompactBlockReader::<'r>::header$", r"HeaderReader<'r>>::calc_header_hash$"], []),
    ("ScriptReader", "calc_script_hash", [r"CalcHash>::calc_hash$|calc_hash::CalcHash::calc_hash$"], [r"Reader::<'r>::\w+$"]),
    ("CellOutputReader", "calc_lock_hash", [r"CellOutputReader::<'r>::lock$", r"ScriptReader<'r>>::calc_script_hash$"], [r"::type_$"]),
    ("RawAlertReader", "calc_alert_hash", [r"CalcHash>::calc_hash$|calc_hash::CalcHash::calc_hash$"], [r"Reader::<'r>::\w+$"]),
    ("AlertReader", "calc_alert_hash", [r"AlertReader::<'r>::raw$", r"RawAlertReader<'r>>::calc_alert_hash$"], [r"::signatures$"]),
    ("HeaderDigestReader", "calc_mmr_hash", [r"CalcHash>::calc_hash$|calc_hash::CalcHash::calc_hash$"], [r"Reader::<'r>::\w+$"]),
]


def hash_scope(F, S, R):
    for ty, fn, req, forb in HASH_SCOPE:
        key = "prov/hash-scope/%s::%s" % (ty, fn)
        bs = F.find("ckb_gen_types", r"^ckb_gen_types::extension::calc_hash::<impl (ckb_gen_types::)?generated::\w+::%s<'r>>::%s$" % (ty, fn))
        bs = [x for x in bs if x.kind == "AssocFn"]
        if len(bs) != 1:
            R.bad(key + "/anchor-lost", "%s::%s not found (%d bodies)" % (ty, fn, len(bs)), [])
            continue
        b = bs[0]
        R.fn(b)
        R.sites += 1
        bodies = K.with_nested(b)
        calls = [c for x in bodies for c in x.calls]
        chain = []
        for p in req:
            cs = [c for c in calls if c.matches(p)]
            chain.append(cs[0] if cs else None)
        missing = [p for p, c in zip(req, chain) if c is None]
        extra = [c for c in calls for p in forb if c.matches(p) and not any(c is x for x in chain)]
        if missing:
            R.bad(key, "%s::%s no longer hashes through %s: the hash covers different content" % (ty, fn, missing), [b.where()])
            continue
        if extra:
            R.bad(key, "%s::%s also projects through %s: the hash covers different content" % (ty, fn, sorted({K.short(c.callee) for c in extra})), [extra[0].where()])
            continue
        # the final digest call takes the value produced by the projection (or self when there is none)
        last = chain[-1]
        if len(chain) >= 2 and last.body is chain[0].body:
            srcs = last.body.operand_sources(last.args[0])
            if not any(s.startswith("call:") and chain[0].matches(re.escape(s[5:]) + "$") for s in srcs):
                R.bad(key, "%s::%s: the digest is not taken of the projected part" % (ty, fn), [last.where()])
                continue
        elif len(chain) == 1:
            srcs = last.body.operand_sources(last.args[0])
            if not any(s in ("param:self", "param:1") for s in srcs) or any(s.startswith("call:") and re.search(r"Reader::<'r>::\w+$", s) for s in srcs):
                R.bad(key, "%s::%s: the digest is not taken of the whole value" % (ty, fn), [last.where()])
                continue
        R.ok(key, "%s::%s hashes exactly %s" % (ty, fn, " -> ".join(p.split("::")[-1].rstrip("$") for p in req)), [b.where()])
    # CalcHash::calc_hash = blake2b_256(self.as_slice())
    bs = [b for b in F.find("ckb_gen_types", r"calc_hash::CalcHash>::calc_hash$|calc_hash::CalcHash for .*>::calc_hash$")]
    if not bs:
        R.bad("prov/hash-scope/CalcHash/anchor-lost", "CalcHash::calc_hash impl not found", [])
    for b in bs:
        R.fn(b)
        h = b.calls_to(r"ckb_hash::blake2b_256$")
        ok = h and K.src_match(b.operand_sources(h[0].args[0]), [r"call:.*::as_slice$"]) and not any(LOSSY.search(s) or re.search(r"Index|::get$|split", s) for s in b.operand_sources(h[0].args[0]))
        (R.ok if ok else R.bad)("prov/hash-scope/CalcHash", "calc_hash is blake2b_256 of the whole serialized slice" if ok else "calc_hash no longer digests the whole as_slice()", [b.where()])
    # folds over every element
    for ty, fn, inner, src in (("ProposalShortIdVecReader", "calc_proposals_hash", r"::update$", r"call:.*::as_slice$"),
                               ("UncleBlockVecReader", "calc_uncles_hash", r"::update$", r"call:.*UncleBlockReader<'r>>::calc_header_hash$")):
        bs = F.find("ckb_gen_types", r"^ckb_gen_types::extension::calc_hash::<impl (ckb_gen_types::)?generated::\w+::%s<'r>>::%s$" % (ty, fn))
        if len(bs) != 1:
            R.bad("loop/%s/anchor-lost" % fn, "%s::%s not found" % (ty, fn), [])
            continue
        b = bs[0]
        R.fn(b)
        K.loop_over_all(R, "loop/%s" % fn, b, inner, [r"^param:1$"], what="%s folds every element of self, in order, into the digest" % fn)
        for c in b.calls_to(inner):
            a = b.operand_sources(c.args[1])
            ok = K.src_match(a, [src]) and K.src_match(a, [r"call:.*Iterator::next$"])
            (R.ok if ok else R.bad)("loop/%s/item" % fn, "each step digests %s of the current element" % src.split("::")[-1].rstrip("$") if ok else "%s: a step does not digest %s of the current element" % (fn, src), [c.where()])
    for ty, fn, want, forbid in (("BlockReader", "calc_tx_hashes", r"calc_tx_hash$", r"calc_witness_hash$"), ("BlockReader", "calc_tx_witness_hashes", r"calc_witness_hash$", r"calc_tx_hash$")):
        bs = F.find("ckb_gen_types", r"^ckb_gen_types::extension::calc_hash::<impl (ckb_gen_types::)?generated::\w+::%s<'r>>::%s$" % (ty, fn))
        key = "prov/hash-scope/%s::%s" % (ty, fn)
        if len(bs) != 1:
            R.bad(key + "/anchor-lost", "%s::%s not found" % (ty, fn), [])
            continue
        b = bs[0]
        R.fn(b)
        calls = [c for x in K.with_nested(b) for c in x.calls]
        srcs = set()
        for x in K.with_nested(b):
            for c in x.calls:
                srcs.add("call:" + c.callee)
        lossy = [s for s in srcs if LOSSY.search(s)]
        if any(c.matches(want) for c in calls) and not any(c.matches(forbid) for c in calls) and not lossy and any(c.matches(r"BlockReader::<'r>::transactions$") for c in calls):
            R.ok(key, "%s maps every transaction of the block through %s" % (fn, want.rstrip("$")), [b.where()])
        else:
            R.bad(key, "%s does not map every transaction through %s (lossy=%s)" % (fn, want.rstrip("$"), lossy), [b.where()])


def param_of(body, name_idx):
    return "param:%d" % name_idx


def rebuilt_header(F, S, R):
    """BlockBuilder::build_internal(reset_header = true): every header it builds after setting one commitment carries all three
    (transactions_root, proposals_hash, extra_hash). A `build()` that sets two of them and keeps the third from the old header (round-3 seed
    C15-seed6: "nothing to hash" when there are no uncles and no extension) commits to a body the block no longer has."""
    b = F.one("ckb_types", r"advanced_builders::BlockBuilder::build_internal$")
    R.fn(b)
    HB = r"advanced_builders::HeaderBuilder::"
    builds = b.calls_to(HB + "build$")
    setters = {n: b.calls_to(HB + n + "$") for n in ("transactions_root", "proposals_hash", "extra_hash")}
    R.sites += len(builds) + sum(len(v) for v in setters.values())
    if not builds or not all(setters.values()):
        R.bad("mustcall/rebuilt-header/anchor-lost", "HeaderBuilder::build / the three commitment setters not found in build_internal", [b.where()])
        return
    bad = []
    for bc in builds:
        dom = {n: any(b.dominates(c.bb, bc.bb) for c in cs) for n, cs in setters.items()}
        if any(dom.values()) and not all(dom.values()):
            bad.append((bc, sorted(n for n, v in dom.items() if not v)))
    if bad:
        R.bad("mustcall/rebuilt-header", "a header is rebuilt with some commitments recomputed and %s kept from the old header" % bad[0][1], [bad[0][0].where()])
    else:
        R.ok("mustcall/rebuilt-header", "every rebuilt header carries all three recomputed commitments", [builds[0].where()])


def orders(F, S, R):
    # ExtraHashView::new: blake2b(uncles_hash || extension_hash), tuple = (extension_hash, extra_hash)
    new = F.need("ckb_types::core::views::ExtraHashView::new")
    R.fn(new)
    cl = [x for x in new.nested()]
    ups = [(x, c) for x in cl for c in x.calls if c.matches(r"::update$")]
    key = "order/extra-hash"
    if len(ups) != 2:
        R.bad(key, "ExtraHashView::new does not feed exactly two values into the digest (%d)" % len(ups), [new.where()])
    else:
        (x0, a), (x1, b) = ups
        sa, sb = x0.operand_sources(a.args[1]), x1.operand_sources(b.args[1])
        first_is_uncles = any(s.startswith("upvar:") for s in sa) and not any(re.match(r"param:(2|extension_hash)$", s) for s in sa)
        second_is_ext = any(re.match(r"param:2$", s) for s in sb) and not any(s.startswith("upvar:") for s in sb)
        order = x0 is x1 and x0.dominates(a.bb, b.bb)
        if first_is_uncles and second_is_ext and order:
            R.ok(key, "extra hash = blake2b(uncles_hash || extension_hash), in that order", [a.where(), b.where()])
        else:
            R.bad(key, "extra hash no longer digests uncles_hash then extension_hash (uncles-first=%s, extension-second=%s, order=%s)" % (first_is_uncles, second_is_ext, order), [a.where(), b.where()])
        R.sites += 2
        # the closure's tuple is (extension_hash, extra_hash) and the getters project .0 / .1
        tup = [(st[1], st[2]) for blk in x0.blocks for st in blk["s"] if st[1].get("k") == "agg" and st[1].get("ak") == "tuple" and len(st[1].get("ops", [])) == 2]
        tup = [t for t in tup if any(re.match(r"param:2$", s) for s in x0.operand_sources(t[0]["ops"][0]) | x0.operand_sources(t[0]["ops"][1]))]
        if tup:
            t = tup[-1][0]
            s0, s1 = x0.operand_sources(t["ops"][0]), x0.operand_sources(t["ops"][1])
            if any(re.match(r"param:2$", s) for s in s0) and not any(re.match(r"param:2$", s) for s in s1):
                R.ok("order/extra-hash/tuple", "the cached pair is (extension_hash, extra_hash)", ["%s:%s" % (x0.file, tup[-1][1])])
            else:
                R.bad("order/extra-hash/tuple", "the cached pair is no longer (extension_hash, extra_hash)", ["%s:%s" % (x0.file, tup[-1][1])])
        else:
            R.bad("order/extra-hash/tuple/anchor-lost", "the (extension_hash, extra_hash) pair construction was not found", [new.where()])
    new_agg = K.agg_sites(new, "ckb_types::core::views::ExtraHashView")
    if new_agg:
        s = K.agg_field_sources(new, new_agg[0][1], "uncles_hash") or set()
        (R.ok if any(re.match(r"param:1$", x) for x in s) else R.bad)("order/extra-hash/uncles", "ExtraHashView.uncles_hash is the first argument", [new.where()])
    for fn, idx, fallback in (("extension_hash", "0", False), ("extra_hash", "1", True)):
        g = F.need("ckb_types::core::views::ExtraHashView::" + fn)
        R.fn(g)
        ok = False
        for x in g.nested():
            rets = x.return_value_locals() if hasattr(x, "return_value_locals") else set()
            srcs = set()
            for l in rets:
                srcs |= x.local_sources(l)
            if any(re.search(r"(idx:#%s|field:.*\.%s)$" % (idx, idx), s) for s in srcs) and not any(re.search(r"idx:#%s$" % str(1 - int(idx)), s) for s in srcs):
                ok = True
        key = "order/extra-hash/getter/" + fn
        (R.ok if ok else R.bad)(key, "ExtraHashView::%s projects element %s of the cached pair" % (fn, idx) if ok else "ExtraHashView::%s does not project element %s of the cached pair" % (fn, idx), [g.where()])
        if fallback:
            cl2 = [x for x in g.nested() if any(re.search(r"ExtraHashView\.uncles_hash$", s) for l in x.return_value_locals() for s in x.local_sources(l))]
            uo = g.calls_to(r"Option::<.*>::unwrap_or_else$")
            (R.ok if cl2 and uo else R.bad)("order/extra-hash/no-extension", "without an extension the extra hash is the uncles hash", [g.where()])

    # transactions root = merkle_root([raw_root, witnesses_root])
    def root_order(b, key, first, second):
        R.fn(b)
        arr = [(i, st[1], st[2]) for i, blk in enumerate(b.blocks) for st in blk["s"] if st[1].get("k") == "agg" and st[1].get("ak") == "array" and len(st[1].get("ops", [])) == 2]
        arr = [a for a in arr if any(re.search(r"merkle_root$|calc_raw_transactions_root$|calc_witnesses_root$", s) for s in b.operand_sources(a[1]["ops"][0]))]
        if len(arr) != 1:
            R.bad(key + "/anchor-lost", "the two-element merkle input of %s was not found (%d)" % (K.short(b.path), len(arr)), [b.where()])
            return
        _, rv, ln = arr[0]
        s0, s1 = b.operand_sources(rv["ops"][0]), b.operand_sources(rv["ops"][1])
        ok0 = any(re.search(first, s) for s in s0) and not any(re.search(second, s) for s in s0)
        ok1 = any(re.search(second, s) for s in s1) and not any(re.search(first, s) for s in s1)
        R.sites += 1
        if ok0 and ok1:
            R.ok(key, "transactions root = merkle(raw transactions root, witnesses root) in that order", ["%s:%s" % (b.file, ln)])
        else:
            R.bad(key, "the transactions root is no longer merkle(raw root, witnesses root) in that order", ["%s:%s" % (b.file, ln)])
    root_order(F.one("ckb_types", r"^ckb_types::extension::.*::reset_header_with_hashes$"), "order/tx-root/reset_header", r"^param:2$", r"^param:3$")
    root_order(F.need("ckb_types::core::views::BlockView::calc_transactions_root"), "order/tx-root/view", r"calc_raw_transactions_root$", r"calc_witnesses_root$")
    for fn, fld, other in (("calc_raw_transactions_root", "tx_hashes", "tx_witness_hashes"), ("calc_witnesses_root", "tx_witness_hashes", "tx_hashes")):
        b = F.need("ckb_types::core::views::BlockView::" + fn)
        R.fn(b)
        m = b.calls_to(r"merkle_root$")
        s = b.operand_sources(m[0].args[0]) if m else set()
        ok = any(re.search(r"BlockView\.%s$" % fld, x) for x in s) and not any(re.search(r"BlockView\.%s$" % other, x) for x in s) and not any(LOSSY.search(x) for x in s)
        (R.ok if ok else R.bad)("order/tx-root/" + fn, "%s is the merkle root of the whole cached %s" % (fn, fld) if ok else "%s is not the merkle root of the whole cached %s" % (fn, fld), [b.where()])
    rh = F.one("ckb_types", r"^ckb_types::extension::.*::reset_header_with_hashes$")
    mr = rh.calls_to(r"merkle_root$")
    R.sites += len(mr)
    if len(mr) == 3:
        a0 = rh.operand_sources(mr[0].args[0])
        a1 = rh.operand_sources(mr[1].args[0])
        ok = any(re.match(r"param:2$", s) for s in a0) and any(re.match(r"param:3$", s) for s in a1) and not any(LOSSY.search(s) for s in a0 | a1)
        (R.ok if ok else R.bad)("order/tx-root/reset_header/inputs", "raw root over all tx hashes, witnesses root over all witness hashes", [mr[0].where(), mr[1].where()])
    else:
        R.bad("order/tx-root/reset_header/inputs", "reset_header_with_hashes no longer computes three merkle roots (%d)" % len(mr), [rh.where()])
    # MergeByte32::merge = blake2b(left || right)
    mg = F.one("ckb_types", r"MergeByte32.*::merge$")
    R.fn(mg)
    ups = mg.calls_to(r"::update$")
    if len(ups) == 2:
        sa, sb = mg.operand_sources(ups[0].args[1]), mg.operand_sources(ups[1].args[1])
        ok = any(re.match(r"param:1$", s) for s in sa) and any(re.match(r"param:2$", s) for s in sb) and mg.dominates(ups[0].bb, ups[1].bb) \
            and not any(re.match(r"param:2$", s) for s in sa) and not any(re.match(r"param:1$", s) for s in sb)
        (R.ok if ok else R.bad)("order/merkle-merge", "merkle parent = blake2b(left || right)" if ok else "merkle parent is no longer blake2b(left || right)", [ups[0].where(), ups[1].where()])
    else:
        R.bad("order/merkle-merge", "MergeByte32::merge does not digest exactly two children (%d)" % len(ups), [mg.where()])


VIEWS = "ckb_types::core::views::"
# field -> (accepted source patterns, patterns of the *other* hash kind that must not feed it)
KIND = {
    ("TransactionView", "hash"): ([r"call:.*calc_tx_hash$", r"call:.*TransactionView(Reader::<'r>)?::hash$", r"field:.*BlockView\.tx_hashes$", r"call:.*BlockView::tx_hashes$", r"field:.*TransactionView\.hash$"],
                                  [r"call:.*calc_witness_hash$", r"call:.*::witness_hash$", r"field:.*\.tx_witness_hashes$", r"field:.*\.witness_hash$"]),
    ("TransactionView", "witness_hash"): ([r"call:.*calc_witness_hash$", r"call:.*TransactionView(Reader::<'r>)?::witness_hash$", r"field:.*BlockView\.tx_witness_hashes$", r"call:.*BlockView::tx_witness_hashes$", r"field:.*TransactionView\.witness_hash$"],
                                          [r"call:.*calc_tx_hash$", r"call:.*::hash$", r"field:.*\.tx_hashes$", r"field:.*\.hash$"]),
    ("HeaderView", "hash"): ([r"call:.*calc_header_hash$", r"call:.*(HeaderView(Reader::<'r>)?|UncleBlockView|BlockView)::hash$", r"field:.*HeaderView\.hash$"], [r"call:.*calc_pow_hash$", r"call:.*calc_tx_hash$"]),
    ("UncleBlockView", "hash"): ([r"call:.*calc_header_hash$", r"call:.*(UncleBlockVecView::hashes|BlockView::hash)$", r"field:.*(UncleBlockView\.hash|BlockView\.uncle_hashes)$"], [r"call:.*calc_pow_hash$"]),
    ("BlockView", "hash"): ([r"call:.*calc_header_hash$", r"call:.*HeaderView::hash$", r"field:.*(HeaderView|BlockView)\.hash$"], [r"call:.*calc_pow_hash$"]),
    ("BlockView", "uncle_hashes"): ([r"call:.*UncleBlockReader<'r>>::calc_header_hash$", r"call:.*UncleBlockVecView::hashes$", r"field:.*BlockView\.uncle_hashes$", r"field:.*BlockBuilder\.uncles$"], []),
    ("BlockView", "tx_hashes"): ([r"call:.*TransactionView::hash$", r"^param:2$", r"field:.*BlockView\.tx_hashes$", r"field:.*BlockBuilder\.transactions$"], [r"call:.*::witness_hash$"]),
    ("BlockView", "tx_witness_hashes"): ([r"call:.*TransactionView::witness_hash$", r"^param:3$", r"field:.*BlockView\.tx_witness_hashes$", r"field:.*BlockBuilder\.transactions$"], [r"call:.*TransactionView::hash$"]),
}
# zipped / folded tuples make the two transaction hashes indistinguishable to the flow-insensitive provenance; the kind is still required
IMPRECISE = [r"BlockView::transactions::\{closure#0\}$", r"BlockView>::as_advanced_builder::\{closure#\d\}$", r"BlockBuilder::build_internal$"]


def view_hashes(F, S, R):
    n = 0
    for b in F.bodies_of_crate("ckb_types"):
        if re.search(r"as core::clone::Clone>::clone$", b.path):
            continue
        for i, blk in enumerate(b.blocks):
            for st in blk["s"]:
                rv = st[1]
                if not (rv.get("k") == "agg" and rv.get("ak") == "adt" and rv.get("adt", "").startswith(VIEWS)):
                    continue
                ty = rv["adt"][len(VIEWS):]
                for f in rv.get("fields") or []:
                    if (ty, f) not in KIND:
                        continue
                    R.fn(b)
                    n += 1
                    acc, forb = KIND[(ty, f)]
                    srcs = K.agg_field_sources(b, rv, f) or set()
                    imprecise = any(re.search(p, b.path) for p in IMPRECISE)
                    key = "prov/view-hash/%s/%s.%s" % (K.short(b.path), ty, f)
                    w = "%s:%s" % (b.file, st[2])
                    good = any(re.search(p, s) for p in acc for s in srcs)
                    wrong = [] if imprecise else sorted(s for p in forb for s in srcs if re.search(p, s) and not any(re.search(a, s) for a in acc))
                    if not good:
                        R.bad(key, "%s: cached %s.%s is not taken from %s" % (K.short(b.path), ty, f, [a.split("call:.*")[-1] for a in acc][:2]), [w])
                    elif wrong:
                        R.bad(key, "%s: cached %s.%s is fed by a hash of another kind (%s)" % (K.short(b.path), ty, f, [s.split("::")[-1] for s in wrong]), [w])
                    else:
                        R.ok(key, "cached %s.%s comes from its own hash function / cache" % (ty, f), [w])
    R.sites += n
    if n < 35:
        R.bad("prov/view-hash/floor", "only %d cached-hash constructions analysed (floor 35)" % n, [])
    # nothing outside tests overwrites a cached hash
    for fn in ("TransactionView::fake_hash", "TransactionView::fake_witness_hash", "HeaderView::fake_hash", "UncleBlockView::fake_hash", "BlockView::fake_hash"):
        F.need(VIEWS + fn)
    K.whocalls(R, "whocalls/fake-hash", F, r"^ckb_types::core::views::\w+::fake_(witness_)?hash$", {}, min_sites=0, what="no production code overwrites a cached hash")
    # direct field writes to the caches happen only in fake_*
    for b in F.bodies_of_crate("ckb_types"):
        if not b.path.startswith(VIEWS) or re.search(r"::fake_(witness_)?hash$", b.path):
            continue
        st = (b.self_ty or "") if hasattr(b, "self_ty") else ""
        for f in ("hash", "witness_hash", "tx_hashes", "tx_witness_hashes", "uncle_hashes"):
            ws = K.field_writes(b, "." + f)
            if ws and re.search(r"(TransactionView|HeaderView|UncleBlockView|BlockView)::", b.path):
                R.bad("prov/view-hash/write/%s" % K.short(b.path), "%s assigns the cached field `%s` outside construction" % (K.short(b.path), f), [b.where(ws[0][0])])


def origin_sites(body, op):
    """call sites a value originates from, looking through Option/Result::map-like wrappers (site identity, not value)."""
    out, work, seen = set(), list(body.call_sites(op)), set()
    by_bb = {c.bb: c for c in body.calls}
    while work:
        bb = work.pop()
        if bb in seen:
            continue
        seen.add(bb)
        out.add(bb)
        c = by_bb.get(bb)
        if c is not None and re.search(r"(Option|Result)::<.*>::(map|and_then|expect|unwrap)$", c.callee) and c.args:
            work.extend(body.call_sites(c.args[0]))
    return out


def store_layout(F, S, R):
    ins = F.need("ckb_store::transaction::StoreTransaction::insert_block")
    rd = F.one("ckb_store", r"ChainStore::get_unfrozen_block$")
    R.fn(ins)
    R.fn(rd)
    wr = {col for (verb, col), _ in store_effects(F, S, ins).items() if verb == "put"}
    reads = {}
    for b in [rd] + [cb for c in rd.calls for cb in S.callee_bodies(c) if re.search(r"ChainStore::get_block_\w+$", cb.path)]:
        for c in b.calls_to(r"ChainStore::(get|get_iter)$"):
            k = K.const_of_operand(b, c.args[1])
            if k:
                reads.setdefault(k.split("::")[-1], []).append(c)
    R.sites += len(wr) + len(reads)
    index_only = {"COLUMN_NUMBER_HASH"}   # (number, hash) -> tx count index, not block content
    if len(wr) < 6:
        R.bad("layout/block-columns/anchor-lost", "insert_block writes only %s" % sorted(wr), [ins.where()])
        return
    miss = sorted(wr - index_only - set(reads))
    if miss:
        R.bad("layout/block-columns", "insert_block fills %s but get_unfrozen_block never reads %s: that part of a stored block does not come back" % (sorted(wr), miss), [rd.where()])
    else:
        R.ok("layout/block-columns", "get_unfrozen_block reads every content column insert_block fills (%s)" % sorted(wr - index_only), [rd.where()])
    we = rd.calls_to(r"BlockView::new_unchecked_with_extension$")
    plain = rd.calls_to(r"BlockView::new_unchecked$")
    ext_reads = {c.bb for c in reads.get("COLUMN_BLOCK_EXTENSION", []) if c.body is rd}
    if we and ext_reads and (origin_sites(rd, we[0].args[4]) & ext_reads):
        R.ok("layout/block-extension", "a stored extension is handed to the rebuilt block", [we[0].where()])
    else:
        R.bad("layout/block-extension", "get_unfrozen_block does not rebuild the block with its stored extension: hash-committed content is lost on read", [rd.where()])
    for c, args in ((we[0] if we else None, 5), (plain[0] if plain else None, 4)):
        if c is None:
            continue
        want = [("COLUMN_BLOCK_HEADER", 0), ("COLUMN_BLOCK_UNCLE", 1), (None, 2), ("COLUMN_BLOCK_PROPOSAL_IDS", 3)]
        for col, ai in want:
            if col is None:
                ok = K.src_match(rd.operand_sources(c.args[ai]), [r"call:.*ChainStore::get_block_body$"])
                col = "COLUMN_BLOCK_BODY"
            else:
                ok = bool(origin_sites(rd, c.args[ai]) & {x.bb for x in reads.get(col, []) if x.body is rd})
            key = "layout/block-parts/%s/%s" % (c.callee.split("::")[-1], col)
            (R.ok if ok else R.bad)(key, "argument %d of %s comes from %s" % (ai, c.callee.split("::")[-1], col), [c.where()])


def lenient_decoding(F, S, R):
    """strict decoding: `from_compatible_slice` (accepts unknown trailing table fields, so the accepted bytes are not the canonical encoding of the
    decoded value) is used only where forward compatibility is wanted: P2P message envelopes and the freezer's own stored blocks."""
    allowed = {
        r"^ckb_gen_types::|^<ckb_gen_types|ckb_gen_types::generated": "generated molecule code and the *_should_be_ok helper (trusted base)",
        r"^ckb_network::protocols::(identify|discovery|ping)": "P2P support protocols (forward compatible by design)",
        r"^ckb_sync::(synchronizer|relayer|filter)::.*::received": "message envelope of the sync / relay / filter protocols",
        r"^ckb_sync::": "message envelope of the sync / relay / filter protocols",
        r"^ckb_freezer::freezer::": "blocks written by this node's own freezer",
        r"^ckb_store::store::ChainStore::get_block$|^ckb_store::store::": "frozen block read back from the freezer",
        r"^ckb_light_client_protocol_server::": "message envelope",
        r"^ckb_network_alert::|^ckb_rpc::": "not consensus data",
    }
    K.whocalls(R, "whocalls/lenient-decoding", F, r"::from_compatible_slice$", allowed, min_sites=5,
               what="only message envelopes and the freezer decode leniently; consensus data (cellbase witness, scripts, headers) is decoded with from_slice")


def run(F, S, R, tier):
    R.guard("whocalls/lenient-decoding", lambda: lenient_decoding(F, S, R))
    R.guard("conv", lambda: conv(F, S, R))
    R.guard("sibling/int-codec", lambda: endianness(F, R))
    R.guard("prov/hash-scope", lambda: hash_scope(F, S, R))
    R.guard("order", lambda: orders(F, S, R))
    R.guard("mustcall/rebuilt-header", lambda: rebuilt_header(F, S, R))
    R.guard("prov/view-hash", lambda: view_hashes(F, S, R))
    R.guard("layout", lambda: store_layout(F, S, R))
