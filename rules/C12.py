"""C12 - after any reorg the pool agrees with the new chain (structural necessary conditions)."""
import re

import kinds as K
from common import VERIFY

CRATES = ["ckb_tx_pool", "ckb_chain"]
EXPLANATION = ("MUSTCALL/ORDER: the reorg handler installs the new snapshot first, then removes committed transactions (entry + conflicts over inputs and deps, for every attached transaction), "
               "detached-header dependants, detached proposals, promotes stages in mine mode, expires and limits; detached transactions that were not re-committed are re-added afterwards, each "
               "independently, through resolve + fee + verify; PROV: the chain notifies the pool after commit with the fork's own block lists, the finalize result and the new snapshot.")
NOT_DECIDED = "absence of stale/dead/lost transactions over all histories (only the maintenance discipline is decided)"

TP = "ckb_tx_pool::pool::TxPool::"
PM = "ckb_tx_pool::component::pool_map::PoolMap::"


def _distinct_locals(b, c):
    """the two operands of `a.difference(b)` are different variables"""
    import tables as _T
    return "p" in c.args[0] and "p" in c.args[1] and _T.root_local(b, c.args[0]) != _T.root_local(b, c.args[1])


def dangling_children(F, S, R):
    """F17 (fixed 54deb81): when a detached transaction cannot be re-added (it no longer resolves), the pooled transactions spending its outputs
    are removed; they have no pool parent link (they were submitted while the parent was on chain), so nothing else removes them."""
    cos = [b for b in F.bodies_of_crate("ckb_tx_pool") if b.kind != "Fn" and re.search(r"TxPoolService>?::readd_detached_tx::\{closure#0\}$", b.path)]
    if not cos:
        R.bad("mustcall/readd/unresolved-sweep/anchor-lost", "readd_detached_tx coroutine not found", [])
        return
    b = cos[0]
    R.fn(b)
    arms = K.enum_arms(b, "core::result::Result", [r"call:.*resolve_tx$"])
    def reaches_removal(c, depth=0):
        if re.search(r"PoolMap::remove_entry_and_descendants$", c.callee):
            return True
        if depth >= 3:
            return False
        return any(reaches_removal(c2, depth + 1) for cb in S.callee_bodies(c) if "ckb_tx_pool" in cb.path for x in K.with_nested(cb) for c2 in x.calls)
    sweep = {c.bb for c in b.calls if "ckb_tx_pool" in c.callee and not re.search(r"_submit_entry$|resolve_tx$|check_tx_fee$|verify_rtx$", c.callee) and reaches_removal(c)}
    R.sites += len(arms) + len(sweep)
    errs = [a for a in arms if "Err" in a[1] or a[2] is not None]
    if not arms:
        R.bad("mustcall/readd/unresolved-sweep/anchor-lost", "the match on resolve_tx's result was not found in readd_detached_tx", [b.where()])
        return
    ok = True
    nxt = {c.bb for c in b.calls if c.callee.endswith("Iterator::next")}
    for (sw, tbl, other) in arms:
        tgt = tbl.get("Err", other)
        if tgt is None:
            continue
        # within the same iteration the sweep must be reachable from the failure arm (it may be guarded by "is it back in the pool?")
        if not (b.reachable(tgt, avoid=nxt) & sweep):
            ok = False
    if ok and sweep:
        R.ok("mustcall/readd/unresolved-sweep", "a detached transaction that cannot be re-added has its pooled spenders removed before the next one is handled", [b.where(sorted(sweep)[0])])
    else:
        R.bad("mustcall/readd/unresolved-sweep", "readd_detached_tx drops a detached transaction that no longer resolves and leaves the pooled transactions spending its outputs in place "
              "(inputs that exist neither on the chain nor in the pool)", [b.where()])


def run(F, S, R, tier):
    R.guard("mustcall/readd/unresolved-sweep", lambda: dangling_children(F, S, R))
    up = F.need("ckb_tx_pool::process::_update_tx_pool_for_reorg")

    # ---------------------------------------------------------------- 1. maintenance steps and their order
    def reorg():
        chain = [TP + "remove_committed_txs$", TP + "remove_by_detached_proposal$", TP + "remove_expired$", TP + "limit_size$"]
        K.mustcall(R, "mustcall/reorg", up, chain, S, allow_err_exits=False, what="reorg maintenance step")
        for a, b in zip(chain, chain[1:]):
            K.order_dom(R, "order/reorg/%s" % K.label(b), up, a, b, what="maintenance order (committed before detached proposals before expiry before size limit)")
        # the new snapshot is installed before anything consults it
        fw = K.field_writes(up, "TxPool.snapshot")
        snap = [i for i, _ in fw]
        first = up.calls_to(chain[0])
        if snap and first and all(up.dominates(s_, first[0].bb) for s_ in snap) and K.src_match(set().union(*[s_ for _, s_ in fw]), [r"param:snapshot"]):
            R.ok("order/reorg/snapshot-first", "the pool switches to the new chain snapshot before any maintenance step", [up.where(snap[0])])
        else:
            R.bad("order/reorg/snapshot-first", "the pool's snapshot is not replaced by the new one before the maintenance steps", [up.where()])
        rc = up.calls_to(TP + "remove_committed_txs$")
        if rc and K.src_match(up.operand_sources(rc[0].args[1]), [r"param:attached"]) and K.src_match(up.operand_sources(rc[0].args[3]), [r"param:detached_headers"]):
            R.ok("prov/reorg/committed-args", "committed transactions = the attached set; header-dependants = the detached headers", [rc[0].where()])
        else:
            R.bad("prov/reorg/committed-args", "remove_committed_txs is not given (attached, detached_headers)", [up.where()])
        rd = up.calls_to(TP + "remove_by_detached_proposal$")
        if rd and K.src_match(up.operand_sources(rd[0].args[1]), [r"param:detached_proposal_id"]):
            R.ok("prov/reorg/detached-proposals", "detached proposals = the ids that left the window", [rd[0].where()])
        else:
            R.bad("prov/reorg/detached-proposals", "remove_by_detached_proposal is not given detached_proposal_id", [up.where()])
        # mine mode promotion: proposed before gap, from the new snapshot's proposal view
        K.mustcall(R, "mustcall/reorg/promotion", up, [TP + "proposed_rtx$|" + TP + "gap_rtx$"], S, allow_err_exits=False, assume=[], what="x") if False else None
        # the promotion may live in the reorg body or in a helper of the crate it calls (stage_entries(..), promote(..))
        pbs = [up] + K.same_crate_helpers(up)

        def anyc(pat):
            return [c for b_ in pbs for x in K.with_nested(b_) for c in x.calls_to(pat)]
        if anyc(TP + "proposed_rtx$") and anyc(TP + "gap_rtx$") and anyc(r"ProposalView::contains_proposed$") and anyc(r"ProposalView::contains_gap$"):
            srcs = set()
            for c in anyc(r"ProposalView::contains_(proposed|gap)$"):
                srcs |= c.body.operand_sources(c.args[0])
            if [c for c in anyc(r"Snapshot::proposals$")]:
                srcs.add("call:ckb_snapshot::Snapshot::proposals")
                srcs.add("param:snapshot")
            if K.src_match(srcs, [r"param:snapshot", r"call:.*Snapshot::proposals$"]):
                R.ok("mustcall/reorg/promotion", "in mine mode stages follow the new snapshot's proposal view (gap/pending -> proposed, pending -> gap)", [up.where()])
            else:
                R.bad("mustcall/reorg/promotion", "stage promotion does not consult the new snapshot's proposals", [up.where()])
        else:
            R.bad("mustcall/reorg/promotion", "mine-mode stage promotion lost one of proposed_rtx/gap_rtx/contains_proposed/contains_gap", [up.where()])
    R.guard("mustcall/reorg", reorg)

    # ---------------------------------------------------------------- 2. committed removal
    def committed():
        rcs = F.need(TP + "remove_committed_txs")
        K.loop_over_all(R, "loop/committed-all", rcs, TP + "remove_committed_tx$", [r"param:txs"], what="every attached transaction is processed")
        drop = K.assumed_edges(rcs, [(r"HashSet::<.*>::is_empty$", False)])
        if drop:
            K.mustcall(R, "mustcall/committed/header-deps", rcs, [TP + "resolve_conflict_header_dep$"], S, allow_err_exits=False, drop_edges=drop, what="transactions depending on a detached header are removed")
        else:
            R.bad("mustcall/committed/header-deps/anchor-lost", "detached_headers.is_empty guard not found", [rcs.where()])
        rct = F.need(TP + "remove_committed_tx")
        K.mustcall(R, "mustcall/committed/tx", rct, [PM + "remove_entry$", PM + "resolve_conflict$"], S, allow_err_exits=False,
                   what="a committed transaction leaves the pool and everything conflicting with it (inputs or deps) is evicted, whether or not it was pooled itself")
        for c in rct.calls_to(PM + "resolve_conflict$"):
            if K.src_match(rct.operand_sources(c.args[1]), [r"param:tx"]):
                R.ok("prov/committed/conflict-arg", "conflicts are resolved against the committed transaction", [c.where()])
            else:
                R.bad("prov/committed/conflict-arg", "resolve_conflict is not given the committed transaction", [c.where()])
        rcf = F.need(PM + "resolve_conflict")
        K.loop_over_all(R, "loop/conflict-inputs", rcf, r"Edges::remove_input$", [r"call:.*input_pts_iter$"], what="every input of the committed transaction is checked for pooled spenders")
        K.follows(R, "mustcall/conflict-deps", rcf, r"Edges::remove_input$", [r"Edges::remove_deps$"], S, what="for every consumed out-point both pooled spenders and pooled dep-readers are evicted")
        for pat, nm in ((r"Edges::remove_input$", "inputs"), (r"Edges::remove_deps$", "deps")):
            cs = rcf.calls_to(pat)
            direct = False
            for c in cs:
                for (sw, arms, other) in K.enum_arms(rcf, "core::option::Option"):
                    dl = rcf.blocks[sw]["t"]["d"]["p"][0]
                    for d in rcf.defs().get(dl, []):
                        if d[0] == "assign" and d[3].get("k") == "discr" and d[3]["p"][0] == c.dest[0] and not d[3]["p"][1]:
                            some = arms.get("Some", other)
                            hit = {y.bb for y in rcf.calls_to(PM + "remove_entry_and_descendants$")}
                            if rcf.reachable(some) & hit:
                                direct = True
            if direct:
                R.ok("mustcall/conflict-direct/" + nm, "every pooled transaction recorded on the consumed out-point (%s) is evicted: the lookup result is matched directly" % nm, [cs[0].where()])
            else:
                R.bad("mustcall/conflict-direct/" + nm, "the %s lookup of resolve_conflict is filtered before eviction: some conflicting pooled transactions stay" % nm, [rcf.where()])
        n = len(rcf.calls_to(PM + "remove_entry_and_descendants$"))
        if n >= 2:
            R.ok("mustcall/conflict-descendants", "conflicting entries are removed with their descendants (both input and dep conflicts)", [rcf.where()])
        else:
            R.bad("mustcall/conflict-descendants", "resolve_conflict has %d remove_entry_and_descendants sites, expected 2 (inputs, deps)" % n, [rcf.where()])
        hd = F.need(PM + "resolve_conflict_header_dep")
        if hd.calls_to(PM + "remove_entry_and_descendants$") and hd.calls_to(r"HashSet::<.*>::contains$"):
            R.ok("mustcall/header-dep-conflict", "entries whose header deps include a detached header are removed with descendants", [hd.where()])
        else:
            R.bad("mustcall/header-dep-conflict", "resolve_conflict_header_dep no longer removes dependants of detached headers", [hd.where()])
        rdp = F.need(TP + "remove_by_detached_proposal")
        K.loop_over_all(R, "loop/detached-proposals", rdp, PM + "remove_entry_and_descendants$", [r"param:ids"], what="every detached proposal id is handled")
        if rdp.calls_to(TP + "add_pending$"):
            R.ok("mustcall/detached-proposals/readd", "transactions whose proposal was detached go back to pending", [rdp.where()])
        else:
            R.bad("mustcall/detached-proposals/readd", "remove_by_detached_proposal no longer re-adds the entries as pending", [rdp.where()])
    R.guard("mustcall/committed", committed)

    # ---------------------------------------------------------------- 3. re-adding detached transactions
    def readd():
        upr = F.one("ckb_tx_pool", r"TxPoolService>::update_tx_pool_for_reorg$")
        co = [b for b in K.with_nested(upr) if b.calls_to(r"process::_update_tx_pool_for_reorg$")]
        if not co:
            R.bad("order/readd/anchor-lost", "update_tx_pool_for_reorg coroutine not found", [upr.where()])
            return
        b = co[0]
        K.order_dom(R, "order/readd", b, r"process::_update_tx_pool_for_reorg$", r"TxPoolService>?::readd_detached_tx$", what="detached transactions are re-added after the pool was brought to the new chain")
        df = b.calls_to(r"LinkedHashSet::<.*>::difference$")
        if df and K.src_match(b.operand_sources(df[0].args[0]), [r"call:.*BlockView::transactions$|call:.*detached_blocks", r"vty:ckb_util::linked_hash_set::LinkedHashSet<ckb_types::core::views::TransactionView>$"]) and K.src_match(b.operand_sources(df[0].args[1]), [r"vty:ckb_util::linked_hash_set::LinkedHashSet<ckb_types::core::views::TransactionView>$"]) and _distinct_locals(b, df[0]):
            R.ok("prov/readd/retain", "retain = detached \\ attached", [df[0].where()])
        else:
            R.bad("prov/readd/retain", "the re-add set is not detached.difference(attached)", [b.where()])
        ra = b.calls_to(r"TxPoolService>?::readd_detached_tx$")
        if ra and K.src_match(b.operand_sources(ra[0].args[2]), [r"call:.*difference$"]):
            R.ok("prov/readd/arg", "readd_detached_tx receives the retained transactions", [ra[0].where()])
        else:
            R.bad("prov/readd/arg", "readd_detached_tx is not given the retained set", [b.where()])
        sk = [c for c in b.calls_to(r"Iterator::skip$")]
        if len(sk) >= 2 and all(str(c.args[1].get("v")) == "1" for c in sk):
            R.ok("prov/readd/skip-cellbase", "cellbases are excluded from both detached and attached sets", [c.where() for c in sk])
        else:
            R.bad("prov/readd/skip-cellbase", "detached/attached transaction sets no longer skip exactly the cellbase", [b.where()])
        rd = F.one("ckb_tx_pool", r"TxPoolService>::readd_detached_tx$")
        rco = [x for x in K.with_nested(rd) if x.calls_to(r"process::_submit_entry$")]
        if not rco:
            R.bad("mustcall/readd/anchor-lost", "readd_detached_tx coroutine not found", [rd.where()])
            return
        x = rco[0]
        ends = {c.bb for c in x.calls_to(r"process::_submit_entry$")}
        K.mustcall(R, "mustcall/readd/pipeline", x, [r"process::resolve_tx$", r"util::check_tx_fee$", r"util::verify_rtx$"], S, ends=ends, allow_err_exits=False,
                   what="a detached transaction re-enters the pool only through resolve, fee check and verification on the new chain")
        for pat in (r"process::resolve_tx$", r"util::check_tx_fee$", r"util::verify_rtx$"):
            arms = [a for a in K.enum_arms_of_call(x, "core::result::Result", pat) if "Err" in a[1] or "Ok" in a[1]]
            if not arms:
                R.bad("mustfail/readd/gate/" + K.label(pat), "the verdict of %s is not branched on in readd_detached_tx (a failure would not keep the transaction out)" % K.label(pat), [x.where()])
                continue
            a = arms[0]
            err_t = a[1].get("Err", a[2])
            hd = {c.bb for c in x.calls if c.callee.endswith("Iterator::next")}
            reach, _ = K.reach_with(x, err_t, avoid=hd)
            if reach & ends:
                R.bad("mustfail/readd/gate/" + K.label(pat), "a transaction failing %s is still submitted" % K.label(pat), [x.where(a[0])])
            else:
                R.ok("mustfail/readd/gate/" + K.label(pat), "a transaction failing %s is not re-added" % K.label(pat), [x.where(a[0])])
        # one inadmissible transaction must not stop the loop: no Return reachable from a failed step except through the loop head
        heads = {c.bb for c in x.calls if c.callee.endswith("Iterator::next")}
        bad = []
        for c in x.calls_to(r"process::resolve_tx$|util::check_tx_fee$|util::verify_rtx$"):
            if c.target is None:
                continue
            reach, prev = K.reach_with(x, c.target, avoid=heads | ends)
            rets = {i for i in reach if x.blocks[i]["t"].get("k") == "return"}
            # in a coroutine body the final return is reached from the loop exit only; a return reachable without passing the loop head skips the rest
            if rets:
                bad.append((c, K.path_lines(x, prev, sorted(rets)[0])))
        if bad:
            R.bad("loop/readd/independent", "a detached transaction that fails %s ends the whole re-add loop: every later detached transaction is lost" % K.label(bad[0][0].callee), bad[0][1])
        else:
            R.ok("loop/readd/independent", "each detached transaction is re-added independently (a failure continues with the next one)", [x.where()])
        K.loop_over_all(R, "loop/readd/all", x, r"process::resolve_tx$", [r"txs"], what="every retained transaction is tried")
    R.guard("order/readd", readd)

    # ---------------------------------------------------------------- 4. chain -> pool notification
    def notify():
        vb = F.need(VERIFY + "verify_block")
        c = vb.calls_to(r"TxPoolController::update_tx_pool_for_reorg$")
        if not c:
            R.bad("prov/notify/anchor-lost", "update_tx_pool_for_reorg call not found in verify_block", [vb.where()])
            return
        c = c[0]
        want = [(1, [r"call:.*ForkChanges::detached_blocks$"]), (2, [r"call:.*ForkChanges::attached_blocks$"]), (3, [r"call:.*ForkChanges::detached_proposal_id$"]), (4, [r"call:.*Shared::new_snapshot$"])]
        for i, w in want:
            if K.src_match(vb.operand_sources(c.args[i]), w) and not (i in (1, 2) and K.src_match(vb.operand_sources(c.args[i]), want[2 - i if i == 1 else 0][1]) and False):
                R.ok("prov/notify/arg%d" % i, "pool notification argument %d derives from %s" % (i, w), [c.where()])
            else:
                R.bad("prov/notify/arg%d" % i, "pool notification argument %d does not derive from %s" % (i, w), [c.where()])
        K.order_dom(R, "order/notify-after-commit", vb, r"StoreTransaction::commit$", r"TxPoolController::update_tx_pool_for_reorg$", what="the pool hears about a reorg only after it was committed")
        K.order_dom(R, "order/notify-after-publish", vb, r"Shared::store_snapshot$", r"TxPoolController::update_tx_pool_for_reorg$", what="the pool hears about a reorg only after the snapshot was published")
        dpw = K.field_writes(vb, "ForkChanges.detached_proposal_id")
        fin = vb.calls_to(r"ProposalTable::finalize$")
        if dpw and fin and K.src_match(set().union(*[s_ for _, s_ in dpw]), [r"call:.*ProposalTable::finalize$", r"idx:#0"]):
            R.ok("prov/notify/detached-ids", "fork.detached_proposal_id = the removed ids returned by ProposalTable::finalize", [fin[0].where()])
        else:
            R.bad("prov/notify/detached-ids", "fork.detached_proposal_id is not finalize's first result", [vb.where()])
    R.guard("prov/notify", notify)

    # ---------------------------------------------------------------- 5. stage mapping
    def stage():
        gs = F.need("ckb_tx_pool::process::get_tx_status")
        K.order_dom(R, "order/status-proposed-first", gs, r"ProposalView::contains_proposed$", r"ProposalView::contains_gap$", what="proposed is tested before gap")
        se = F.need("ckb_tx_pool::process::_submit_entry")
        arms = K.enum_arms(se, "ckb_tx_pool::process::TxStatus")
        want = {"Fresh": "add_pending", "Gap": "add_gap", "Proposed": "add_proposed"}
        if not arms:
            R.bad("sibling/stage-map/anchor-lost", "match on TxStatus not found in _submit_entry", [se.where()])
        else:
            sw, tbl, other = arms[0]
            for var, fn in want.items():
                tgt = tbl.get(var, other)
                stops = [t for v, t in tbl.items() if v != var] + ([other] if var in tbl else [])
                reach = se.reachable(tgt, avoid=stops)
                cs = [c.callee.split("::")[-1] for c in se.calls if c.bb in reach and K.rx(r"TxPool::add_").search(c.callee)]
                if cs == [fn]:
                    R.ok("sibling/stage-map/" + var, "TxStatus::%s -> %s" % (var, fn), [se.where(tgt)])
                else:
                    R.bad("sibling/stage-map/" + var, "TxStatus::%s inserts with %s, expected %s" % (var, cs, fn), [se.where(tgt)])
    R.guard("sibling/stage-map", stage)
    import common as _common
    _common.effects(R, F, ['pool'])

    # whatever finalize reports as dropped (expired from the window or detached) is handed to the pool on EVERY tip change, not only on a reorg
    # (round-2 seed C12-seed3 stored it in the fork only when blocks were detached: proposals that merely expire then stay Proposed in the pool)
    def dropped_ids_always():
        vb = F.need("ckb_chain::verify::ConsumeUnverifiedBlockProcessor::verify_block")
        R.fn(vb)
        fin = vb.calls_to(r"ProposalTable::finalize$")
        ws = [i for i, blk in enumerate(vb.blocks) for st in blk["s"] if st[0][1] and str(st[0][1][-1]).endswith("ForkChanges.detached_proposal_id")]
        ns = vb.calls_to(r"Shared::new_snapshot$")
        R.sites += len(fin) + len(ws) + len(ns)
        if not fin or not ws or not ns:
            R.bad("order/dropped-ids-always/anchor-lost", "finalize / the detached_proposal_id assignment / new_snapshot not found in verify_block", [vb.where()])
        elif any(vb.dominates(fin[0].bb, w) and vb.dominates(w, ns[0].bb) for w in ws):
            R.ok("order/dropped-ids-always", "the dropped ids are recorded for the pool on every path from finalize to the new snapshot", [vb.where(ws[0])])
        else:
            R.bad("order/dropped-ids-always", "the ids finalize reports as dropped are recorded for the pool only on some paths (a condition was put around the assignment)", [vb.where(ws[0])])
    R.guard("order/dropped-ids-always", dropped_ids_always)
