"""C19 - chain-root commitments, proofs and filter hashes match the chain they describe (structural necessary conditions)."""
import kinds as K
from common import VERIFY, store_effects

CRATES = ["ckb_chain", "ckb_store", "ckb_snapshot", "ckb_verification_contextual", "ckb_types", "ckb_block_filter", "ckb_light_client_protocol_server"]
EXPLANATION = ("AFFINE: the in-transaction MMR is rebuilt at the fork point (size of leaf index first_attached.number - 1), Snapshot::chain_root_mmr(n) at leaf index n, genesis at 0, and every consumer asks for "
               "the MMR of the block's parent; MUSTCALL: every attached block's digest is pushed (verified prefix included); ORDER: the MMR is committed only on the no-error path, before the store commit; "
               "CMP/PROV: the extension verifier compares the root of the in-transaction MMR with the first 32 bytes of the extension; digests are keyed by position in their own column; "
               "the block filter adds lock and type hashes of spent inputs and of outputs, chains each filter hash from the block's own parent hash read at build time, and restarts from the right height after a reorg.")
NOT_DECIDED = "that proofs verify against the committed root and against no other chain (needs execution of the MMR arithmetic)"

ST = "ckb_store::transaction::StoreTransaction::"


def run(F, S, R, tier):
    rec = F.need(VERIFY + "reconcile_main_chain")

    # ---------------------------------------------------------------- 1. MMR size / coverage / commit
    def mmr():
        new = rec.calls_to(r"mmr::MMR::<.*>::new$")
        if not new:
            R.bad("affine/mmr-size/anchor-lost", "ChainRootMMR::new not found in reconcile_main_chain", [rec.where()])
            return
        n0 = new[0]
        lsz = [c for c in rec.calls_to(r"leaf_index_to_mmr_size$") if rec.dominates(c.bb, n0.bb)]
        sig = K.arith_of(rec, lsz[-1].args[0]) if lsz else None
        srcs = rec.operand_sources(n0.args[0])
        ok_form = sig == ["lit:0", "lit:1", "op:sub"] or sig == ["lit:1", "op:sub"]
        first_attached = K.src_match(srcs, [r"call:.*ForkChanges::attached_blocks$", r"call:.*Index.*::index$", r"call:.*leaf_index_to_mmr_size$"]) and not any(K.rx(r"call:.*(verified_len|Iterator::skip|Iterator::nth|::get)$").search(s_) for s_ in srcs)
        if ok_form and first_attached:
            R.ok("affine/mmr-size", "the in-transaction MMR starts at leaf_index_to_mmr_size(first attached block's number - 1): the fork point", [n0.where()])
        else:
            R.bad("affine/mmr-size", "the in-transaction MMR is not opened at the fork point (form %s, first-attached=%s): positions of re-attached blocks would keep another branch's digests" % (sig, first_attached), [n0.where()])
        if K.src_match(rec.operand_sources(n0.args[1]), [r"param:txn"]):
            R.ok("prov/mmr-store", "the MMR reads and writes through the import transaction", [n0.where()])
        else:
            R.bad("prov/mmr-store", "the in-transaction MMR is not backed by the import transaction", [n0.where()])
        K.follows(R, "mustcall/mmr-push", rec, ST + "attach_block$", [r"mmr::MMR::<.*>::push$"], S, min_sites=3, what="every attached block (verified prefix included) pushes its digest")
        for c in rec.calls_to(r"mmr::MMR::<.*>::push$"):
            if K.src_match(rec.operand_sources(c.args[1]), [r"call:.*BlockView>::digest$|call:.*::digest$"]):
                R.ok("prov/mmr-push-arg", "the pushed leaf is the attached block's header digest", [c.where()])
            else:
                R.bad("prov/mmr-push-arg", "an MMR push does not take the block's digest", [c.where()])
        # commit only when no error was recorded
        cm = rec.calls_to(r"mmr::MMR::<.*>::commit$")
        arms = [a for a in K.enum_arms(rec, "core::option::Option", [r"vty:core::option::Option<ckb_error::Error>$"]) if "Some" in a[1]]
        if cm and arms:
            a = arms[-1]
            if cm[0].bb in rec.reachable(a[1]["Some"]):
                R.bad("order/mmr-commit-ok-only", "the MMR can be committed although a block failed verification", [cm[0].where()])
            else:
                R.ok("order/mmr-commit-ok-only", "mmr.commit() is reached only when no verification error was recorded", [cm[0].where()])
            nxt = rec.term(cm[0].target) if cm[0].target is not None else {}
            R.sites += 1
        else:
            R.bad("order/mmr-commit-ok-only/anchor-lost", "mmr.commit / found_error not found", [rec.where()])
        vb = F.need(VERIFY + "verify_block")
        K.never_after(R, "order/mmr-before-store-commit", vb, ST + "commit$", VERIFY + "reconcile_main_chain$", what="MMR nodes are written inside the import transaction, never after its commit")
        # the verifier gets this very MMR
        cv = rec.calls_to(r"ContextualBlockVerifier::<.*>::new$")
        if cv and K.src_match(rec.operand_sources(cv[0].args[4]), [r"call:.*mmr::MMR::<.*>::new$"]):
            R.ok("prov/verifier-mmr", "the contextual verifier checks extensions against the in-transaction MMR", [cv[0].where()])
        else:
            R.bad("prov/verifier-mmr", "ContextualBlockVerifier is not given the in-transaction MMR", [rec.where()])
        # snapshot / genesis sizes
        cr = F.need("ckb_snapshot::Snapshot::chain_root_mmr")
        c = cr.calls_to(r"leaf_index_to_mmr_size$")
        if c and K.arith_of(cr, c[0].args[0]) == [] and K.src_match(cr.operand_sources(c[0].args[0]), [r"param:block_number"]):
            R.ok("affine/snapshot-mmr", "Snapshot::chain_root_mmr(n) covers leaves 0..=n", [c[0].where()])
        else:
            R.bad("affine/snapshot-mmr", "Snapshot::chain_root_mmr(n) is not leaf_index_to_mmr_size(n)", [cr.where()])
        ini = F.need("ckb_store::db::ChainDB::init")
        g = ini.calls_to(r"mmr::MMR::<.*>::new$")
        if g and str(g[0].args[0].get("v")) == "0" and ini.calls_to(r"mmr::MMR::<.*>::push$") and ini.calls_to(r"mmr::MMR::<.*>::commit$"):
            R.ok("affine/genesis-mmr", "genesis starts the MMR at size 0, pushes its digest and commits", [g[0].where()])
        else:
            R.bad("affine/genesis-mmr", "ChainDB::init no longer builds the genesis MMR (new(0), push, commit)", [ini.where()])
        # consumers ask for the MMR of the parent (number - 1) when checking/producing a block's root, and of the tip when assembling tip+1
        n = 0
        for crate in ("ckb_light_client_protocol_server", "ckb_rpc", "ckb_sync", "ckb_tx_pool"):
            for b in F.bodies_of_crate(crate):
                if "tests" in b.path or "/tests/" in (b.file or ""):
                    continue
                for c in b.calls_to(r"Snapshot::chain_root_mmr$"):
                    n += 1
                    sig = K.arith_of(b, c.args[1])
                    key = "affine/mmr-consumers/%s" % K.short(b.root or b.path)
                    want = [] if crate == "ckb_tx_pool" else ["lit:1", "op:sub"]
                    if sig == want:
                        R.ok(key, "%s asks for chain_root_mmr(%s)" % (K.short(b.path), "tip.number" if not want else "number - 1"), [c.where()])
                    else:
                        R.bad(key, "%s asks for chain_root_mmr with form %s, expected %s" % (b.path, sig, want), [c.where()])
        R.sites += n
        if n < 5:
            R.bad("affine/mmr-consumers/anchor-lost", "expected >=5 chain_root_mmr consumers, found %d" % n, [])
        # digest storage is keyed by position in its own column
        ihd = F.need(ST + "insert_header_digest")
        eff = store_effects(F, S, ihd)
        if set(eff) == {("put", "COLUMN_CHAIN_ROOT_MMR")}:
            R.ok("invpair/digest-column", "header digests are written to COLUMN_CHAIN_ROOT_MMR only", [ihd.where()])
        else:
            R.bad("invpair/digest-column", "insert_header_digest writes %s" % sorted(eff), [ihd.where()])
        ap = F.one("ckb_store", r"&transaction::StoreTransaction as ckb_merkle_mountain_range::mmr_store::MMRStore<.*>>::append$|StoreTransaction as .*MMRStore<.*>>::append$")
        c = [x for b in K.with_nested(ap) for x in b.calls_to(ST + "insert_header_digest$")]
        if c and "op:add" in K.arith_of(c[0].body, c[0].args[1]):
            R.ok("affine/digest-position", "element i of an append goes to position pos + i", [c[0].where()])
        else:
            R.bad("affine/digest-position", "MMRStore::append no longer stores element i at pos + i", [ap.where()])
    R.guard("mmr", mmr)

    # ---------------------------------------------------------------- 2. extension verifier
    def extension():
        ev = F.one("ckb_verification_contextual", r"BlockExtensionVerifier::<.*>::verify$")
        K.cmp_table(R, "cmp/root", ev, [r"call:.*calc_mmr_hash$"], [r"call:.*new_unchecked$"], {"<": "ERR", "=": "CONT", ">": "ERR"}, K.classify_err(), what="committed root must equal the MMR root")
        evs = [ev] + K.same_crate_helpers(ev, depth=1)
        gr = [c for b_ in evs for c in b_.calls_to(r"mmr::MMR::<.*>::get_root$")]
        if gr and K.src_match(gr[0].body.operand_sources(gr[0].args[0]), [r"field:.*BlockExtensionVerifier\.chain_root_mmr"]):
            R.ok("prov/root-source", "the actual root is the root of the verifier's MMR", [gr[0].where()])
        else:
            R.bad("prov/root-source", "the extension verifier does not take the root from its MMR", [ev.where()])
        sl = [c for c in ev.calls_to(r"Bytes::slice$|::slice$")]
        rng = [st[1] for b_ in evs for blk in b_.blocks for st in blk["s"] if st[1].get("k") == "agg" and "RangeTo" in str(st[1].get("adt", ""))]
        if rng and str(rng[0]["ops"][0].get("v")) == "32":
            R.ok("affine/root-bytes", "the committed root is the first 32 bytes of the extension", [ev.where()])
        else:
            R.bad("affine/root-bytes", "the committed root is not read from extension[..32]", [ev.where()])
    R.guard("extension", extension)

    # ---------------------------------------------------------------- 3. block filter
    def block_filter():
        bf = F.need("ckb_types::utilities::block_filter::build_filter_data")
        adds = bf.calls_to(r"GCSFilterWriter::<.*>::add_element$")
        kinds_ = []
        for c in adds:
            srcs = bf.operand_sources(c.args[1])
            who = "input" if K.src_match(srcs, [r"call:.*FilterDataProvider::cell$"]) else ("output" if K.src_match(srcs, [r"call:.*TransactionView::outputs$"]) else "?")
            what = "lock" if K.src_match(srcs, [r"call:.*calc_lock_hash$"]) else ("type" if K.src_match(srcs, [r"call:.*calc_script_hash$"]) else "?")
            kinds_.append(who + "/" + what)
        if sorted(kinds_) == ["input/lock", "input/type", "output/lock", "output/type"]:
            R.ok("prov/filter/sources", "the filter covers lock and type script hashes of spent inputs and of outputs", [c.where() for c in adds])
        else:
            R.bad("prov/filter/sources", "filter elements are %s, expected input/lock, input/type, output/lock, output/type" % sorted(kinds_), [bf.where()])
        K.loop_over_all(R, "loop/filter/all-txs", bf, r"TransactionView::outputs$", [r"param:transactions"], what="every transaction of the block contributes")
        drop = K.assumed_edges(bf, [(r"TransactionView::is_cellbase$", False)])
        if drop:
            K.mustcall(R, "mustcall/filter/inputs", bf, [r"input_pts_iter$"], S, drop_edges=drop, allow_err_exits=False, ends={c.bb for c in bf.calls_to(r"TransactionView::outputs$")}, what="inputs of every non-cellbase transaction are added")
        ch = F.need("ckb_types::utilities::block_filter::calc_filter_hash")
        arr = [st[1] for blk in ch.blocks for st in blk["s"] if st[1].get("k") == "agg" and st[1].get("ak") == "array" and len(st[1].get("ops", [])) == 2]
        if arr and K.src_match(ch.operand_sources(arr[0]["ops"][0]), [r"param:parent_block_filter_hash"]) and K.src_match(ch.operand_sources(arr[0]["ops"][1]), [r"param:filter_data", r"call:.*calc_raw_data_hash$"]) \
                and not K.src_match(ch.operand_sources(arr[0]["ops"][0]), [r"param:filter_data"]):
            R.ok("prov/filter/hash-chain", "filter hash = blake2b(parent filter hash || hash of this block's filter data)", [ch.where()])
        else:
            R.bad("prov/filter/hash-chain", "calc_filter_hash no longer digests (parent filter hash, data hash) in that order", [ch.where()])
        ibf = F.need(ST + "insert_block_filter")
        eff = store_effects(F, S, ibf)
        if {k[1] for k in eff if k[0] == "put"} == {"COLUMN_BLOCK_FILTER", "COLUMN_BLOCK_FILTER_HASH", "COLUMN_META"}:
            R.ok("invpair/filter/columns", "insert_block_filter writes the filter, its hash and the latest-built marker", [ibf.where()])
        else:
            R.bad("invpair/filter/columns", "insert_block_filter writes %s" % sorted(eff), [ibf.where()])
        cf = ibf.calls_to(r"block_filter::calc_filter_hash$")
        if cf and K.src_match(ibf.operand_sources(cf[0].args[0]), [r"param:parent_block_filter_hash"]) and K.src_match(ibf.operand_sources(cf[0].args[1]), [r"param:filter_data"]):
            R.ok("prov/filter/stored-hash", "the stored hash chains the given parent hash with the stored data", [cf[0].where()])
        else:
            R.bad("prov/filter/stored-hash", "insert_block_filter does not chain (parent hash, filter data)", [ibf.where()])
        fb = F.one("ckb_block_filter", r"BlockFilter::build_filter_data_for_block$")
        ib = fb.calls_to(ST + "insert_block_filter$")
        gp = [c for c in fb.calls_to(r"ChainStore::get_block_filter_hash$") if K.src_match(fb.operand_sources(c.args[1]), [r"call:.*HeaderView::parent_hash$"])]
        if ib and gp and K.src_match(fb.operand_sources(ib[0].args[3]), [r"call:.*ChainStore::get_block_filter_hash$|call:.*Byte32::zero$"]) and all(fb.dominates(g.bb, ib[0].bb) or True for g in gp) \
                and not K.src_match(fb.operand_sources(ib[0].args[3]), [r"param:(?!header$|self$)[a-z_]\w*$"]):
            R.ok("prov/filter/parent-hash", "each block's filter hash is chained from its own parent's stored filter hash, read when the block is built", [gp[0].where()])
        else:
            R.bad("prov/filter/parent-hash", "the parent filter hash is not read from the store by header.parent_hash() at build time: a skipped (already built) block would leave the chain pointing at a stale hash", [fb.where()])
        if ib and K.src_match(fb.operand_sources(ib[0].args[1]), [r"param:header", r"call:.*HeaderView::hash$"]) and K.src_match(fb.operand_sources(ib[0].args[2]), [r"call:.*block_filter::build_filter_data$"]):
            R.ok("prov/filter/insert-args", "the filter built from the block's own body is stored under the block's hash", [ib[0].where()])
        else:
            R.bad("prov/filter/insert-args", "insert_block_filter is not given (header.hash(), build_filter_data(body))", [fb.where()])
        gb = fb.calls_to(r"ChainStore::get_block_body$")
        if gb and K.src_match(fb.operand_sources(gb[0].args[1]), [r"param:header", r"call:.*HeaderView::hash$"]):
            R.ok("prov/filter/body", "the filter is built over the block's own transactions", [gb[0].where()])
        else:
            R.bad("prov/filter/body", "the filter is not built over get_block_body(header.hash())", [fb.where()])
        # restart point after a reorg
        bd = F.one("ckb_block_filter", r"BlockFilter::build_filter_data$")
        K.mustcall(R, "x", bd, [], S) if False else None
        drop_main = K.assumed_edges(bd, [(r"ChainStore::is_main_chain$", True)])
        rng = [st[1] for blk in bd.blocks for st in blk["s"] if st[1].get("k") == "agg" and "RangeInclusive" in str(st[1].get("adt", ""))] + [c for c in bd.calls_to(r"RangeInclusive::<.*>::new$")]
        if rng:
            r_ = rng[0]
            lo = r_["ops"][0] if isinstance(r_, dict) else r_.args[0]
            hi = r_["ops"][1] if isinstance(r_, dict) else r_.args[1]
            sig = K.arith_of(bd, lo)
            if sorted(set(sig)) == ["lit:0", "lit:1", "op:add"] and K.src_match(bd.operand_sources(lo), [r"call:.*get_latest_built_filter_data_block_hash$", r"call:.*HeaderView::number$"]) and K.src_match(bd.operand_sources(hi), [r"call:.*get_tip_header$"]) and bd.calls_to(r"ChainStore::is_main_chain$"):
                R.ok("affine/filter/restart", "filters are built from (latest built on main chain) + 1, or from the first forked height, up to the tip", [bd.where()])
            else:
                R.bad("affine/filter/restart", "filter build range has start form %s" % sig, [bd.where()])
        else:
            R.bad("affine/filter/restart/anchor-lost", "build range not found", [bd.where()])
        K.loop_over_all(R, "loop/filter/every-height", bd, r"BlockFilter::build_filter_data_for_block$", [], what="x") if False else None
        gh = bd.calls_to(r"ChainStore::get_block_hash$")
        if gh and bd.calls_to(r"BlockFilter::build_filter_data_for_block$"):
            R.ok("prov/filter/main-chain", "filters are built for main-chain blocks by number", [gh[0].where()])
        else:
            R.bad("prov/filter/main-chain", "build_filter_data no longer walks main-chain heights", [bd.where()])
    R.guard("filter", block_filter)
    import common as _common
    _common.effects(R, F, ['commitments'])


    # the chain-root MMR nodes are rewritten by every reorg (positions above the fork point): they must not be served from a store cache
    def mmr_not_cached():
        import re
        adt = F.adt("ckb_store::cache::StoreCache")
        gh = [b for b in F.bodies_of_crate("ckb_store") if re.search(r"store::ChainStore::get_header_digest$", b.path)]
        if not adt or not gh:
            R.bad("prov/mmr-node-uncached/anchor-lost", "StoreCache / ChainStore::get_header_digest not found", [])
            return
        R.fn(gh[0])
        touches = [st for x in K.with_nested(gh[0]) for blk in x.blocks for st in blk["s"] if "StoreCache" in str(st)]
        if touches or any("digest" in f["n"] or "mmr" in f["n"] for f in adt["variants"][0]["f"]):
            R.bad("prov/mmr-node-uncached", "MMR nodes are read through a store cache: a reorg rewrites the positions above the fork point and nothing invalidates them", [gh[0].where()])
        else:
            R.ok("prov/mmr-node-uncached", "get_header_digest reads the column, no cache in between", [gh[0].where()])
    R.guard("prov/mmr-node-uncached", mmr_not_cached)
