"""C09 - the freezer never loses or corrupts a frozen block (structural necessary conditions)."""
import kinds as K

CRATES = ["ckb_freezer"]
EXPLANATION = ("ORDER: data write precedes index write precedes the counter bump; rollover assigns head and head_id together; MUSTCALL: freeze fsyncs data and index on every Ok path after an append, "
               "build syncs before handing out the files; CMP: parent-hash and expected-number checks dominate the append, bounds guards of retrieve/truncate; "
               "PROV(call-site identity): in the repair loop the re-opened head file and the final head_id come from the index entry decoded in that iteration; truncate always resets head.bytes; "
               "LAYOUT: IndexEntry encode/decode agree; positioned-I/O discipline: every read/write on a freezer file handle is preceded by an explicit seek in the same function "
               "(the cached read handle is a dup sharing the cursor with the write handle).")
NOT_DECIDED = "behaviour for every byte-level crash state (which partial writes the repair loop converges on)"

FF = "ckb_freezer::freezer_files::FreezerFiles::"


def run(F, S, R, tier):
    ap = F.need(FF + "append")
    bd = F.need("ckb_freezer::freezer_files::FreezerFilesBuilder::build")
    fz = F.one("ckb_freezer", r"freezer::Freezer::freeze$")
    tr = F.need(FF + "truncate")

    # ---------------------------------------------------------------- 1. append ordering
    def append_order():
        K.order_dom(R, "order/append/data-before-index", ap, r"freezer_files::Head::write$", FF + "write_index$", what="the data bytes are written before the index entry that points past them")
        K.order_dom(R, "order/append/index-before-counter", ap, FF + "write_index$", r"Atomic(U64|::<u64>)::fetch_add$", what="the item counter is bumped only after data and index were written")
        for pat in (r"freezer_files::Head::write$", FF + "write_index$"):
            for c in ap.calls_to(pat):
                nxt = ap.term(c.target) if c.target is not None else {}
                if nxt.get("k") == "call" and (nxt.get("callee") or "").endswith("Try::branch"):
                    R.ok("order/append/checked/" + K.label(pat), "%s's error aborts the append" % K.label(pat), [c.where()])
                else:
                    R.bad("order/append/checked/" + K.label(pat), "the Result of %s is ignored: the counter would advance over a failed write" % K.label(pat), [c.where()])
        wi = ap.calls_to(FF + "write_index$")
        hw = F.need("ckb_freezer::freezer_files::Head::write")
        # the offset recorded in the index entry is where the item ends: head.bytes + data.len(), as returned by Head::write (F20: head.bytes itself
        # moves only once the entry is written) or, equivalently, head.bytes read after a write that already advanced it
        end_ok = False
        if wi:
            s2 = ap.operand_sources(wi[0].args[2])
            if K.src_match(s2, [r"call:.*freezer_files::Head::write$"]):
                end_ok = True
            elif K.src_match(s2, [r"field:.*Head\.bytes"]):
                end_ok = True
        if wi and end_ok and K.src_match(ap.operand_sources(wi[0].args[1]), [r"field:.*FreezerFiles\.head_id"]):
            R.ok("prov/append/index-entry", "the index entry records (head_id, end offset of the item in the head file)", [wi[0].where()])
        else:
            R.bad("prov/append/index-entry", "write_index is not given (self.head_id, end offset returned by Head::write / self.head.bytes)", [ap.where()])
        K.cmp_table(R, "cmp/append/expected-number", ap, [r"call:.*Atomic(U64|::<u64>)::load$"], [r"param:number"], {"<": "ERR", "=": "CONT", ">": "ERR"}, K.classify_err(), what="only the next item number may be appended")
        K.cmp_table(R, "cmp/append/rollover", ap, [r"field:.*Head\.bytes"], [r"field:.*FreezerFiles\.max_size"], {"<": "SAME", "=": "SAME", ">": "ROLL"},
                    K.classify_reach([FF + "open_truncated$"], "ROLL", "SAME", S=S), what="a new data file is opened when the item does not fit", arith=(["op:add"], []))
        # rollover assigns head and head_id together, to the id that was opened
        # the rollover may live in append itself or in a helper append calls (roll_head_file ..): `ro` is the body that opens the next data file
        ro = ap
        if not ap.calls_to(FF + "open_truncated$"):
            for c in ap.calls:
                for cb in S.callee_bodies(c):
                    if cb.crate == "ckb_freezer" and cb.calls_to(FF + "open_truncated$"):
                        ro = cb
        R.fn(ro)
        ot = ro.calls_to(FF + "open_truncated$")
        live = ro.reachable(0)
        blocks_hid = [i for i, blk in enumerate(ro.blocks) for st in blk["s"] if i in live and st[0][1] and st[0][1][-1].endswith("FreezerFiles.head_id")]
        blocks_head = [i for i, blk in enumerate(ro.blocks) for st in blk["s"] if i in live and st[0][1] and st[0][1][-1].endswith("FreezerFiles.head")] + \
                      [c.bb for c in ro.calls if c.bb in live and c.dest and c.dest[1] and c.dest[1][-1].endswith("FreezerFiles.head")]
        if ot and blocks_hid and blocks_head and all(ro.dominates(ot[0].bb, b) for b in blocks_hid + blocks_head):
            R.ok("paired/append/rollover", "head_id and head are switched together, after the new file was opened", [ot[0].where()])
        else:
            R.bad("paired/append/rollover", "the rollover no longer assigns both head_id and head after open_truncated", [ro.where()])
        sig = K.arith_of(ro, ot[0].args[1]) if ot else None
        if sig == ["lit:1", "op:add"]:
            R.ok("affine/append/next-id", "the new data file is head_id + 1", [ot[0].where()])
        else:
            R.bad("affine/append/next-id", "the new data file id has form %s, expected head_id + 1" % sig, [ap.where()])
        # F20 (fixed): head.bytes (where the next item starts) may move only when the item has its index entry. It used to be advanced inside
        # Head::write: an index write that failed left it behind orphaned bytes, and a retried append produced an entry spanning orphan + item.
        def bytes_writes(b):
            return [(i, st) for i, blk in enumerate(b.blocks) for st in blk["s"] if st[0][1] and str(st[0][1][-1]).endswith("Head.bytes")]
        in_write = bytes_writes(hw)
        in_append = bytes_writes(ap)
        R.sites += len(in_write) + len(in_append)
        if in_write:
            R.bad("order/bytes-after-index", "Head::write advances head.bytes itself: a failed index write leaves the head behind bytes no index entry accounts for (F20)", ["%s:%s" % (hw.file, in_write[0][1][2])])
        elif not in_append:
            R.bad("order/bytes-after-index/anchor-lost", "no assignment to Head.bytes found in FreezerFiles::append", [ap.where()])
        elif wi and all(ap.dominates(wi[0].target if wi[0].target is not None else wi[0].bb, i) and wi[0].bb != i for i, _ in in_append):
            R.ok("order/bytes-after-index", "head.bytes moves only after write_index returned (and its error aborted the append)", ["%s:%s" % (ap.file, in_append[0][1][2])])
        else:
            R.bad("order/bytes-after-index", "head.bytes is advanced before the index entry of the item is written (F20)", ["%s:%s" % (ap.file, in_append[0][1][2])])
        others = [b.path for b in F.bodies_of_crate("ckb_freezer") if b.path not in (ap.path, hw.path, tr.path) and not b.path.endswith("Head::new") and bytes_writes(b)]      # truncate: C09/mustcall/truncate/head-bytes
        if others:
            R.bad("order/bytes-after-index/other-writers", "Head.bytes is also assigned in %s" % others, [])
        if hw.calls_to(r"write_all$"):
            R.ok("order/head-write", "Head::write writes the data with write_all", [hw.where()])
        else:
            R.bad("order/head-write", "Head::write no longer calls write_all", [hw.where()])
        # F21 (fixed): the data file that stops being the head is fsynced before it is replaced; sync_all() only ever reaches the current head, and
        # the caller deletes the frozen blocks from the kv store once freeze() returns
        ot2 = ro.calls_to(FF + "open_truncated$")
        syncs = [c for c in ro.calls_to(r"File::sync_all$|File::sync_data$") if K.src_match(ro.operand_sources(c.args[0]), [r"field:.*Head\.file"])]
        R.sites += len(syncs)
        if not ot2:
            R.bad("mustcall/rollover-sync/anchor-lost", "no open_truncated in append or in a helper it calls", [ap.where()])
        elif syncs and all(any(ro.dominates(c.bb, o.bb) for c in syncs) for o in ot2):
            nxt = ro.term(syncs[0].target) if syncs[0].target is not None else {}
            if nxt.get("k") == "call" and (nxt.get("callee") or "").endswith("Try::branch"):
                R.ok("mustcall/rollover-sync", "the outgoing head file is fsynced (error aborts the append) before the next data file is opened", [syncs[0].where()])
            else:
                R.bad("mustcall/rollover-sync", "the result of the outgoing head's sync_all is ignored", [syncs[0].where()])
        else:
            R.bad("mustcall/rollover-sync", "the data file that stops being the head is never fsynced: items frozen before a rollover may not be on disk when freeze() reports them (F21)", [ot2[0].where()])
    R.guard("order/append", append_order)

    # ---------------------------------------------------------------- 2. fsync
    def fsync():
        K.follows(R, "mustcall/fsync", fz, FF + "append$", [FF + "sync_all$"], S, stop_at_next=False, what="after an append, freeze returns Ok only after data and index were fsynced")
        sa = F.need(FF + "sync_all")
        cs = sa.calls_to(r"std::fs::File::sync_all$")
        flds = set()
        for c in cs:
            for s_ in sa.operand_sources(c.args[0]):
                if s_.startswith("field:") and (s_.endswith("Head.file") or s_.endswith("FreezerFiles.index")):
                    flds.add(s_.split(".")[-1])
        if flds == {"file", "index"}:
            R.ok("mustcall/fsync/both", "sync_all fsyncs the head data file and the index", [sa.where()])
        else:
            R.bad("mustcall/fsync/both", "FreezerFiles::sync_all syncs only %s" % sorted(flds), [sa.where()])
        K.mustcall(R, "mustcall/fsync/both-paths", sa, [r"std::fs::File::sync_all$"], S, what="sync_all succeeds only if the fsyncs ran")
        aggs = K.agg_sites(bd, "ckb_freezer::freezer_files::FreezerFiles")
        syncs = bd.calls_to(r"std::fs::File::sync_all$")
        if aggs and len(syncs) >= 2 and all(bd.dominates(c.bb, aggs[0][0]) for c in syncs):
            R.ok("mustcall/fsync/build", "build fsyncs the repaired head and index before handing out FreezerFiles", [syncs[0].where()])
        else:
            R.bad("mustcall/fsync/build", "build no longer fsyncs head and index before constructing FreezerFiles", [bd.where()])
    R.guard("mustcall/fsync", fsync)

    # ---------------------------------------------------------------- 3. parent check, tip tracking
    def parent():
        K.cmp_table(R, "cmp/parent-hash", fz, [r"field:.*Inner\.tip", r"call:.*HeaderView::hash$"], [r"call:.*HeaderView::parent_hash$"], {"<": "ERR", "=": "CONT", ">": "ERR"}, K.classify_err(),
                    what="only a block whose parent is the frozen tip may be appended")
        # with a known tip the check is on every path to the append
        arms = K.enum_arms(fz, "core::option::Option", [r"field:.*Inner\.tip"])
        apb = {c.bb for c in fz.calls_to(FF + "append$")}
        sites = K.find_cmp(fz, [r"field:.*Inner\.tip", r"call:.*HeaderView::hash$"], [r"call:.*HeaderView::parent_hash$"])
        if arms and sites and "Some" in arms[0][1]:
            reach, _ = K.reach_with(fz, arms[0][1]["Some"], avoid={s_.bb for s_, _ in sites} | {c.bb for c in fz.calls if c.callee.endswith("Iterator::next")})
            if reach & apb:
                R.bad("cmp/parent-hash/dominates", "with a frozen tip known, a block can be appended without the parent-hash check", [fz.where(arms[0][0])])
            else:
                R.ok("cmp/parent-hash/dominates", "with a frozen tip known, every path to the append passes the parent-hash check", [fz.where(arms[0][0])])
        else:
            R.bad("cmp/parent-hash/dominates/anchor-lost", "tip match / parent comparison not found", [fz.where()])
        tips = [i for i, blk in enumerate(fz.blocks) for st in blk["s"] if st[0][1] and st[0][1][-1].endswith("Inner.tip")]
        apc = fz.calls_to(FF + "append$")
        if apc and tips:
            reach, prev = K.reach_with(fz, apc[0].target, avoid=set(tips) | fz.error_exit_blocks())
            loop_heads = {c.bb for c in fz.calls if c.callee.endswith("Iterator::next")}
            if reach & (loop_heads | set(fz.return_blocks())):
                R.bad("mustcall/tip-follows", "after a successful append the frozen tip is not advanced on some path", K.path_lines(fz, prev, sorted(reach & (loop_heads | set(fz.return_blocks())))[0]))
            else:
                R.ok("mustcall/tip-follows", "the frozen tip advances with every successful append", [fz.where(tips[0])])
        else:
            R.bad("mustcall/tip-follows/anchor-lost", "append / tip assignment not found in freeze", [fz.where()])
        a = apc[0] if apc else None
        if a and K.src_match(fz.operand_sources(a.args[2]), [r"call:.*BlockView::data$"]) and K.src_match(fz.operand_sources(a.args[1]), [r"call:.*Iterator::next$|call:.*Range.*next$"]):
            R.ok("prov/freeze-append", "the appended bytes are the block's packed data under the loop's number", [a.where()])
        else:
            R.bad("prov/freeze-append", "freeze does not append (number, block.data())", [fz.where()])
    R.guard("cmp/parent", parent)

    # ---------------------------------------------------------------- 4. repair: head handle and head_id agree
    def head_agreement():
        dec = bd.calls_to(r"IndexEntry::decode$")
        nxt_loop = [c for c in dec if any(bd.dominates(x.bb, c.bb) for x in bd.calls_to(r"helper::truncate_file$"))]
        pre = [c for c in dec if c not in nxt_loop]
        fn = bd.calls_to(r"helper::file_name$")
        in_loop_fn = [c for c in fn if nxt_loop and bd.dominates(nxt_loop[0].bb, c.bb)]
        if len(dec) < 3 or not nxt_loop or not in_loop_fn:
            R.bad("prov/head-agreement/anchor-lost", "repair loop anchors not found (decode x3, in-loop file_name)", [bd.where()])
            return
        loop_dec = {c.bb for c in nxt_loop}
        pre_dec = {c.bb for c in pre}
        for c in in_loop_fn:
            sites = bd.call_sites(c.args[0]) & (loop_dec | pre_dec)
            if sites and sites <= loop_dec:
                R.ok("prov/head-agreement/reopen", "the head file re-opened by the repair loop is named by the index entry decoded in that iteration", [c.where()])
            else:
                R.bad("prov/head-agreement/reopen", "the repair loop re-opens a head file named by a stale index entry (the discarded one), so handle and head_id disagree", [c.where()])
        aggs = K.agg_sites(bd, "ckb_freezer::freezer_files::FreezerFiles")
        if aggs:
            rv = aggs[0][1]
            i = rv["fields"].index("head_id")
            sites = bd.call_sites(rv["ops"][i]) & (loop_dec | pre_dec)
            if sites & loop_dec and sites & pre_dec:
                R.ok("prov/head-agreement/head-id", "head_id follows the last surviving index entry (initial entry or the one the repair loop fell back to)", ["%s:%d" % (bd.file, aggs[0][2])])
            else:
                R.bad("prov/head-agreement/head-id", "head_id does not follow the index entry the repair loop fell back to", ["%s:%d" % (bd.file, aggs[0][2])])
            j = rv["fields"].index("head")
            if K.src_match(bd.operand_sources(rv["ops"][j]), [r"call:.*open_append$", r"call:.*Head::new$"]):
                R.ok("prov/head-agreement/head", "the head handle comes from open_append (initial or re-opened)", ["%s:%d" % (bd.file, aggs[0][2])])
            else:
                R.bad("prov/head-agreement/head", "the head handle is not the file opened by open_append", ["%s:%d" % (bd.file, aggs[0][2])])
            k = rv["fields"].index("number")
            sig = K.arith_of(bd, rv["ops"][k])
            if "op:div" in sig and K.src_match(bd.operand_sources(rv["ops"][k]), [r"const:.*INDEX_ENTRY_SIZE"]):
                R.ok("affine/build/number", "number = index_size / INDEX_ENTRY_SIZE after repair", [bd.where()])
            else:
                R.bad("affine/build/number", "the item count is not index_size / INDEX_ENTRY_SIZE", [bd.where()])
        # the size compared by the loop follows the file it currently holds: both open_append results feed head_size
        oa = bd.calls_to(r"FreezerFilesBuilder::open_append$")
        oa_loop = [c for c in oa if bd.dominates(nxt_loop[0].bb, c.bb)]
        ne = [(s_, sw) for s_, sw in K.find_cmp(bd, [r"field:.*IndexEntry\.offset$"], [r"call:.*FreezerFilesBuilder::open_append$"]) if s_.op == "ne"]
        if len(oa) >= 2 and oa_loop and ne:
            s_, sw = ne[0]
            hs = s_.a if sw else s_.b
            es = s_.b if sw else s_.a
            cs_h = bd.call_sites(hs)
            cs_e = bd.call_sites(es)
            if {c.bb for c in oa} <= cs_h:
                R.ok("prov/head-agreement/head-size", "the actual head size in the repair condition is the size of the file currently opened (initial or re-opened)", [s_.where()])
            else:
                R.bad("prov/head-agreement/head-size", "after slipping back to an earlier data file the repair loop keeps comparing against the abandoned file's size: it would discard every earlier index entry", [s_.where()])
            if loop_dec <= cs_e and pre_dec & cs_e:
                R.ok("prov/head-agreement/expected-size", "the expected head size follows the last surviving index entry", [s_.where()])
            else:
                R.bad("prov/head-agreement/expected-size", "the expected head size does not follow the index entry the loop fell back to", [s_.where()])
        else:
            R.bad("prov/head-agreement/head-size/anchor-lost", "open_append x2 / repair condition not found", [bd.where()])
        # repair loop conditions: truncate head when it is longer than the index says, truncate index when shorter
        sites = K.find_cmp(bd, [r"field:.*IndexEntry\.offset$"], [r"call:.*FreezerFilesBuilder::open_append$"])
        opsf = sorted((K.SWAP[s.op] if sw else s.op) for s, sw in sites)
        if opsf == ["gt", "lt", "ne"]:
            R.ok("cmp/repair", "repair loops while expected != actual, truncating the head when expected < actual and the index when expected > actual", [s.where() for s, _ in sites])
        else:
            R.bad("cmp/repair", "repair loop comparisons are %s, expected [gt, lt, ne]" % opsf, [bd.where()])
    R.guard("prov/head-agreement", head_agreement)

    # ---------------------------------------------------------------- 5. truncate resets the head bookkeeping
    def truncate():
        dec = tr.calls_to(r"IndexEntry::decode$")
        if not dec:
            R.bad("mustcall/truncate/anchor-lost", "decode not found in truncate", [tr.where()])
            return
        setb = {i for i, blk in enumerate(tr.blocks) for st in blk["s"] if st[0][1] and st[0][1][-1].endswith("Head.bytes") and K.src_match(tr.rvalue_sources(st[1], set()), [r"field:.*IndexEntry\.offset"])}
        reach, prev = K.reach_with(tr, dec[0].target, avoid=setb | tr.error_exit_blocks())
        if reach & set(tr.return_blocks()) or not setb:
            R.bad("mustcall/truncate/head-bytes", "truncate can return Ok without resetting head.bytes to the new last offset (later index entries would be wrong)", K.path_lines(tr, prev, sorted(reach & set(tr.return_blocks()))[0]) if setb else [tr.where()])
        else:
            R.ok("mustcall/truncate/head-bytes", "every successful truncate resets head.bytes to the new last entry's offset", [tr.where(sorted(setb)[0])])
        K.mustcall(R, "mustcall/truncate/steps", tr, [r"helper::truncate_file$", r"Atomic(U64|::<u64>)::store$"], S, start=dec[0].target, what="truncate cuts the head file and stores the new count")
        st = tr.calls_to(r"Atomic(U64|::<u64>)::store$")
        if st and K.arith_of(tr, st[0].args[1]) == ["lit:1", "op:add"]:
            R.ok("affine/truncate/number", "number = item + 1 after truncate", [st[0].where()])
        else:
            R.bad("affine/truncate/number", "truncate does not store item + 1", [tr.where()])
        tf = [c for c in tr.calls_to(r"helper::truncate_file$")]
        idx = [c for c in tf if K.src_match(tr.operand_sources(c.args[0]), [r"field:.*FreezerFiles\.index"])]
        if idx and K.arith_of(tr, idx[0].args[1]) == ["lit:1", "op:add", "op:mul"]:
            R.ok("affine/truncate/index", "the index keeps (item + 1) entries", [idx[0].where()])
        else:
            R.bad("affine/truncate/index", "the index is not truncated to (item + 1) * INDEX_ENTRY_SIZE", [tr.where()])
        # cross-file truncate: head, head_id and file deletion move together
        K.cmp_table(R, "cmp/truncate/cross-file", tr, [r"field:.*IndexEntry\.file_id"], [r"field:.*FreezerFiles\.head_id"], {"<": "SWITCH", "=": "KEEP", ">": "SWITCH"},
                    K.classify_reach([FF + "open_append$"], "SWITCH", "KEEP"), what="a truncation point in an earlier file re-opens that file as head")
        K.order_dom(R, "order/truncate/delete-after-open", tr, FF + "open_append$", FF + "delete_after$", what="later data files are deleted only after the new head was opened")
    R.guard("mustcall/truncate", truncate)

    # ---------------------------------------------------------------- 6. index entry layout
    def layout():
        en = F.need("ckb_freezer::freezer_files::IndexEntry::encode")
        de = F.need("ckb_freezer::freezer_files::IndexEntry::decode")
        ext = sorted(en.calls_to(r"extend_from_slice$"), key=lambda c: c.line)
        order = []
        for c in ext:
            srcs = en.operand_sources(c.args[1])
            order.append(sorted(s_.split(".")[-1] for s_ in srcs if s_.startswith("field:") and "IndexEntry." in s_))
        if order == [["file_id"], ["offset"]] and all(K.src_match(en.operand_sources(c.args[1]), [r"call:.*to_le_bytes$"]) for c in ext):
            R.ok("layout/index-entry/encode", "encode = file_id (u32 LE) ++ offset (u64 LE)", [en.where()])
        else:
            R.bad("layout/index-entry/encode", "encode writes %s, expected file_id then offset, little endian" % order, [en.where()])
        aggs = K.agg_sites(de, "ckb_freezer::freezer_files::IndexEntry")
        sp = de.calls_to(r"split_at$")
        if not aggs or not sp:
            R.bad("layout/index-entry/decode/anchor-lost", "decode aggregate / split_at not found", [de.where()])
            return
        rv = aggs[0][1]
        fs = K.agg_field_sources(de, rv, "file_id") or set()
        os_ = K.agg_field_sources(de, rv, "offset") or set()
        good = K.src_match(fs, [r"idx:#0", r"call:.*u32.*from_le_bytes$|call:.*<impl u32>::from_le_bytes$"]) and K.src_match(os_, [r"idx:#1", r"call:.*<impl u64>::from_le_bytes$|call:.*u64.*from_le_bytes$"]) \
            and not K.src_match(fs, [r"idx:#1"]) and not K.src_match(os_, [r"idx:#0"])
        if good and K.src_match(de.operand_sources(sp[0].args[1]), [r"call:.*size_of$|lit:4$"]):
            R.ok("layout/index-entry/decode", "decode splits at 4: file_id = u32 LE of the first part, offset = u64 LE of the rest", [de.where()])
        else:
            R.bad("layout/index-entry/decode", "decode no longer mirrors encode (file_id from bytes 0..4 LE, offset from 4..12 LE)", [de.where()])
        c = F.consts("ckb_freezer").get("ckb_freezer::freezer_files::INDEX_ENTRY_SIZE")
        if c and c.get("val") == "12":
            R.ok("layout/index-entry/size", "INDEX_ENTRY_SIZE = 12 = 4 + 8", [])
        else:
            R.bad("layout/index-entry/size", "INDEX_ENTRY_SIZE is %s, the entry is 4 + 8 bytes" % (c and c.get("val")), [])
    R.guard("layout/index-entry", layout)

    # ---------------------------------------------------------------- 7. bounds
    def bounds():
        rt = F.need(FF + "retrieve")
        gb = F.need(FF + "get_bounds")
        K.cmp_table(R, "cmp/retrieve/low", rt, [r"param:item"], [r"lit:1$"], {"<": "NONE", "=": "GO", ">": "GO"}, K.classify_reach([FF + "get_bounds$"], "GO", "NONE"), what="item 0 is never served")
        K.cmp_table(R, "cmp/retrieve/high", rt, [r"call:.*Atomic(U64|::<u64>)::load$"], [r"param:item"], {"<": "NONE", "=": "NONE", ">": "GO"}, K.classify_reach([FF + "get_bounds$"], "GO", "NONE"), what="only items below the count are served")
        sites = K.find_cmp(gb, [r"field:.*IndexEntry\.file_id"], [r"field:.*IndexEntry\.file_id"])
        if sites and all(s.op == "ne" for s, _ in sites):
            R.ok("cmp/bounds/file-switch", "an item that starts a data file begins at offset 0", [s.where() for s, _ in sites])
        else:
            R.bad("cmp/bounds/file-switch", "get_bounds no longer tests start.file_id != end.file_id", [gb.where()])
        seeks = gb.calls_to(r"Seek::seek$|Seek>::seek$")
        sigs = sorted(tuple(K.arith_of(gb, c.args[1])) for c in seeks)
        # SeekFrom::Start(item * SIZE) and ((item - 1) * SIZE)
        want = sorted([("op:mul",), ("lit:1", "op:mul", "op:sub")])
        if sigs == want:
            R.ok("affine/bounds/offsets", "index entries item and item-1 are read at item*12 and (item-1)*12", [c.where() for c in seeks])
        else:
            R.bad("affine/bounds/offsets", "get_bounds seeks have forms %s, expected %s" % (sigs, want), [gb.where()])
        tg = K.find_cmp(tr, [r"param:item"], [r"lit:1$"])
        if tg:
            R.ok("cmp/truncate/low", "truncate ignores item < 1", [tg[0][0].where()])
        else:
            R.bad("cmp/truncate/low", "truncate's lower guard is gone", [tr.where()])
    R.guard("cmp/bounds", bounds)

    # ---------------------------------------------------------------- 8. positioned I/O on shared descriptors
    def positioned_io():
        io_pat = K.rx(r"(Write::write_all|Read::read_exact|Write>::write_all|Read>::read_exact|Read::read|Write::write)$")
        seek_pat = K.rx(r"(Seek::seek|Seek>::seek|Seek::rewind|Seek>::rewind|helper::truncate_file|FreezerFiles::open_append|FreezerFilesBuilder::open_append)$")
        n = 0
        for b in F.bodies_of_crate("ckb_freezer"):
            if "tests" in b.path or b.file.endswith("tests.rs"):
                continue
            ios = [c for c in b.calls if io_pat.search(c.callee) or (c.res and io_pat.search(c.res))]
            if not ios:
                continue
            seeks = [c for c in b.calls if seek_pat.search(c.callee) or (c.res and seek_pat.search(c.res))]
            for c in ios:
                # only handles on files (not Vec/cursors)
                aty = (c.atys[0] if c.atys else "")
                if "File" not in aty:
                    continue
                n += 1
                R.fn(b)
                fam = {s_ for s_ in b.operand_sources(c.args[0]) if s_.startswith(("field:", "var:", "param:")) and not s_.startswith("param:self") and s_ not in ("var:self",)}
                ok = False
                for s_ in seeks:
                    if not b.dominates(s_.bb, c.bb):
                        continue
                    sf = {x for x in b.operand_sources(s_.args[0]) if x.startswith(("field:", "var:", "param:")) and not x.startswith("param:self") and x not in ("var:self",)}
                    if fam & sf or (s_.dest and b.operand_sources(c.args[0]) & {"call:" + s_.callee}):
                        ok = True
                key = "typestate/positioned-io/%s" % K.short(b.path)
                if ok:
                    R.ok(key, "%s positions the handle (seek/rewind/truncate) before %s" % (K.short(b.path), c.callee.split("::")[-1]), [c.where()])
                else:
                    R.bad(key, "%s does %s on a freezer file handle without positioning it first: cached read handles are dups sharing the cursor, so the I/O lands wherever the last reader left it" % (
                        K.short(b.path), c.callee.split("::")[-1]), [c.where()])
        R.sites += n
        if n < 6:
            R.bad("typestate/positioned-io/anchor-lost", "expected >=6 file read/write sites in ckb-freezer, found %d" % n, [])
    R.guard("typestate/positioned-io", positioned_io)

    def torn_first_entry():
        """F14 (fixed 08b5946): the index is refilled with the default entry whenever it is empty *after* a torn tail has been cut off;
        testing emptiness on the raw file length leaves an index of 1..11 bytes (first write cut by a crash) truncated to zero and build() fails."""
        oi = F.one("ckb_freezer", r"FreezerFilesBuilder::open_index$")
        R.fn(oi)
        fills = oi.calls_to(r"::write_all$")
        tests = []
        for h, site in K.decision_sites(oi):
            if h[0] == "eq" and ("lit:0",) in (h[1], h[2]):
                other = h[1] if h[2] == ("lit:0",) else h[2]
                for (sw, tt, ft) in K.branch_targets(oi, site):
                    side = tt if getattr(site, "op", "eq") == "eq" else ft
                    if fills and any(c.bb in oi.reachable(side, avoid={ft if side == tt else tt}) for c in fills):
                        tests.append((other, site))
        R.sites += len(tests) + len(fills)
        if not fills or not tests:
            R.bad("order/index-align-before-fill/anchor-lost", "the `index is empty -> write the default entry` step of open_index was not found", [oi.where()])
        elif all(any(oi.dominates(rb, site.bb) for rb in [i for i, blk in enumerate(oi.blocks) for st in blk["s"] if st[1].get("k") == "bin" and st[1]["op"] == "Rem"]) for _, site in tests):
            R.ok("order/index-align-before-fill", "emptiness of the index is decided on its length after the torn tail was cut off", [tests[0][1].where()])
        else:
            R.bad("order/index-align-before-fill", "open_index decides `empty -> write the default entry` on the raw file length: an index of 1..11 bytes (first entry torn by a crash) "
                  "is truncated to zero afterwards and never refilled, so the freezer cannot be opened again", [tests[0][1].where()])
    R.guard("order/index-align-before-fill", torn_first_entry)
