"""C18 - the indexer's answers equal filtering the chain (structural necessary conditions)."""
import re

import kinds as K

CRATES = ["ckb_indexer", "ckb_indexer_sync", "ckb_rich_indexer"]
EXPLANATION = ("INVPAIR: append and rollback touch inverse key-kind sets (Key variant x CellType), with ConsumedOutPoint as the one documented exception (kept for later rollbacks, removed by prune); "
               "PROV: rollback undoes the tip block's transactions newest-first and uses the stored tx index, append walks forward; ORDER/CMP: the sync loop appends only tip+1 whose parent is the indexer tip "
               "and rolls back otherwise; query loops: an exact-mode length mismatch skips the key (continues) and never ends the scan, with the key widths 16/17; rich-indexer insert/remove table sets agree.")
NOT_DECIDED = "that query answers equal a filter over the chain for all histories (needs execution)"

IX = "ckb_indexer::indexer::"
KEY = "ckb_indexer::indexer::Key"


def key_effects(body):
    """{(verb, KeyVariant[/CellType])} for batch.put_kv / batch.delete calls in body (+nested)"""
    out = {}
    for b in K.with_nested(body):
        for c in b.calls:
            if K.rx(r"Batch.*::put_kv$|::put_kv$").search(c.callee):
                verb = "put"
            elif K.rx(r"Batch.*::delete$|store::Batch::delete$|::delete$").search(c.callee) and c.atys and ("Batch" in c.atys[0] or "batch" in c.atys[0].lower()):
                verb = "del"
            else:
                continue
            if len(c.args) < 2:
                continue
            da = K.direct_aggs(b, c.args[1], "ckb_indexer::indexer::")
            kinds_ = sorted(x.split("::")[1] for x in da if x.startswith("Key::"))
            cts = sorted(x.split("::")[1] for x in da if x.startswith("CellType::"))
            for k in kinds_:
                name = k + ("/" + cts[0] if cts and k.startswith("Tx") and k != "TxHash" else "")
                out.setdefault((verb, name), []).append(c)
    return out


def run(F, S, R, tier):
    ap = F.one("ckb_indexer", r"indexer::Indexer<S> as ckb_indexer_sync::IndexerSync>::append$")
    rb = F.one("ckb_indexer", r"indexer::Indexer<S> as ckb_indexer_sync::IndexerSync>::rollback$")

    # ---------------------------------------------------------------- 1. inverse key sets
    def invpair():
        ea, er = key_effects(ap), key_effects(rb)
        R.sites += sum(len(v) for v in ea.values()) + sum(len(v) for v in er.values())
        aput = {k[1] for k in ea if k[0] == "put"}
        adel = {k[1] for k in ea if k[0] == "del"}
        rput = {k[1] for k in er if k[0] == "put"}
        rdel = {k[1] for k in er if k[0] == "del"}
        want_put = {"Header", "TxLockScript/Input", "TxTypeScript/Input", "ConsumedOutPoint", "CellLockScript", "TxLockScript/Output", "CellTypeScript", "TxTypeScript/Output", "OutPoint", "TxHash"}
        want_del = {"CellLockScript", "CellTypeScript", "OutPoint"}
        if aput == want_put and adel == want_del:
            R.ok("invpair/kv/append", "append puts %s and deletes %s" % (sorted(aput), sorted(adel)), [ap.where()])
        else:
            R.bad("invpair/kv/append", "append puts %s / deletes %s; frozen table: puts %s / deletes %s" % (sorted(aput), sorted(adel), sorted(want_put), sorted(want_del)), [ap.where()])
        exc = {"ConsumedOutPoint"}
        if rdel == aput - exc:
            R.ok("invpair/kv/rollback-deletes", "rollback deletes every key kind append puts (except ConsumedOutPoint, kept for deeper rollbacks and pruned later)", [rb.where()])
        else:
            R.bad("invpair/kv/rollback-deletes", "rollback deletes %s but append puts %s: missing %s, extra %s" % (sorted(rdel), sorted(aput - exc), sorted((aput - exc) - rdel), sorted(rdel - (aput - exc))), [rb.where()])
        if rput == adel:
            R.ok("invpair/kv/rollback-restores", "rollback restores every key kind append deletes: %s" % sorted(rput), [rb.where()])
        else:
            R.bad("invpair/kv/rollback-restores", "rollback puts %s but append deletes %s" % (sorted(rput), sorted(adel)), [rb.where()])
        # the restored live cell is the consumed record itself
        op = [c for c in er.get(("put", "OutPoint"), [])]
        if op and K.src_match(op[0].body.operand_sources(op[0].args[2]), [r"agg:.*Key::ConsumedOutPoint", r"call:.*::get$"]):
            R.ok("prov/restore-from-consumed", "a re-created live cell is the stored ConsumedOutPoint record of this block", [op[0].where()])
        else:
            R.bad("prov/restore-from-consumed", "rollback does not restore live cells from the ConsumedOutPoint record", [rb.where()])
        for b, nm in ((ap, "append"), (rb, "rollback")):
            cm = [c for x in K.with_nested(b) for c in x.calls if K.rx(r"::commit$").search(c.callee) and c.atys and "Batch" in c.atys[0]]
            if cm:
                R.ok("order/%s/commit" % nm, "%s writes through one batch and commits it" % nm, [cm[0].where()])
            else:
                R.bad("order/%s/commit" % nm, "%s no longer commits its batch" % nm, [b.where()])
    R.guard("invpair/kv", invpair)

    # ---------------------------------------------------------------- 2. direction
    def direction():
        def loop_iters(b, inner_pat):
            out = []
            for c in b.calls_to(inner_pat):
                heads = [n for n in b.calls if n.callee.endswith("Iterator::next") and n.exp and b.dominates(n.bb, c.bb)]
                if heads:
                    out.append(heads[0])   # outermost loop
            return out
        hr = loop_iters(rb, r"OutPoint::new$|store::.*::get$")
        if hr and all(K.src_match(rb.operand_sources(h.args[0]), [r"call:.*Iterator::rev$", r"call:.*Iterator::enumerate$"]) for h in hr):
            R.ok("prov/rollback-reverse", "rollback undoes the block's transactions newest-first (enumerate().rev())", [hr[0].where()])
        else:
            R.bad("prov/rollback-reverse", "rollback walks the block's transactions forward: a cell created and consumed inside the block would be resurrected by the undo batch", [rb.where()])
        ha = [n for n in ap.calls if n.callee.endswith("Iterator::next")]
        if ha and not any(K.src_match(ap.operand_sources(h.args[0]), [r"call:.*Iterator::rev$"]) for h in ha):
            R.ok("prov/append-forward", "append applies the block's transactions in block order", [ha[0].where()])
        else:
            R.bad("prov/append-forward", "append iterates transactions in reverse", [ap.where()])
        uo = rb.calls_to(r"Option::<.*>::unwrap_or$")
        if uo and K.src_match(rb.operand_sources(uo[0].args[0]), [r"idx:#2"]):
            R.ok("prov/rollback-tx-index", "rollback uses the stored tx index of filtered blocks, else the position", [uo[0].where()])
        else:
            R.bad("prov/rollback-tx-index", "rollback no longer prefers the stored tx index", [rb.where()])
        K.cmp_table(R, "cmp/append-skip-cellbase", ap, [r"call:.*next$|idx:#0"], [r"lit:0$"], {"<": "SKIP", "=": "SKIP", ">": "INPUTS"},
                    K.classify_reach([r"CellInput::previous_output$"], "INPUTS", "SKIP"), what="only the cellbase's inputs are skipped", only_ops=("gt", "lt", "le", "ge"))
    R.guard("prov/direction", direction)

    # ---------------------------------------------------------------- 3. sync loop
    def sync_loop():
        tl = F.one("ckb_indexer_sync", r"IndexerSyncService::try_loop_sync$")
        gb = tl.calls_to(r"IndexerSyncService::get_block_by_number$")
        nxt = [c for c in gb if K.arith_of(tl, c.args[1]) == ["lit:1", "op:add"] and K.src_match(tl.operand_sources(c.args[1]), [r"call:.*IndexerSync::tip$"])]
        if nxt:
            R.ok("affine/sync-next", "the sync loop fetches block tip + 1", [nxt[0].where()])
        else:
            R.bad("affine/sync-next", "the sync loop does not fetch tip_number + 1", [tl.where()])
        K.cmp_table(R, "cmp/sync-parent", tl, [r"call:.*BlockView::parent_hash$"], [r"call:.*IndexerSync::tip$"], {"<": "ROLLBACK", "=": "APPEND", ">": "ROLLBACK"},
                    K.classify_reach([r"IndexerSync::append$"], "APPEND", "ROLLBACK", stop_pats=[r"has_received_stop_signal$"]), what="append only a block whose parent is the indexer tip")
        K.cmp_table(R, "cmp/sync-rollback", tl, [r"call:.*BlockView::parent_hash$"], [r"call:.*IndexerSync::tip$"], {"<": "ROLLBACK", "=": "KEEP", ">": "ROLLBACK"},
                    K.classify_reach([r"IndexerSync::rollback$"], "ROLLBACK", "KEEP", stop_pats=[r"has_received_stop_signal$"]), what="a tip that is off the main chain is rolled back")
        ap_calls = tl.calls_to(r"IndexerSync::append$")
        okargs = all(K.src_match(tl.operand_sources(c.args[1]), [r"call:.*get_block_by_number$"]) for c in ap_calls)
        if ap_calls and okargs:
            R.ok("prov/sync-append-arg", "the block appended is the one fetched from the chain", [ap_calls[0].where()])
        else:
            R.bad("prov/sync-append-arg", "append is not given the fetched block", [tl.where()])
    R.guard("order/sync-loop", sync_loop)

    # ---------------------------------------------------------------- 4. query loops: exact-mode mismatch skips, never stops
    def query_loops():
        n = 0
        widths = {}
        for fn, w in (("get_cells", "16"), ("get_transactions", "17"), ("get_cells_capacity", "16")):
            b = F.one("ckb_indexer", r"service::IndexerHandle::%s$" % fn)
            for x in K.with_nested(b):
                heads = [c for c in x.calls if c.callee.endswith("Iterator::next")]
                for site in K.cmp_sites(x):
                    sa, sb = K.arith_of(x, site.a), K.arith_of(x, site.b)
                    lits = [s_ for s_ in sa + sb if s_.startswith("lit:")]
                    if site.op not in ("ne", "eq") or "op:add" not in sa + sb or not lits:
                        continue
                    if not (K.src_match(x.operand_sources(site.a) | x.operand_sources(site.b), [r"call:.*::len$"]) and K.src_match(x.operand_sources(site.a) | x.operand_sources(site.b), [r"prefix"])):
                        continue
                    n += 1
                    widths.setdefault(fn, set()).add(lits[0].split(":")[1])
                    dom_heads = [h for h in heads if x.dominates(h.bb, site.bb)]
                    if not dom_heads:
                        continue   # inside a filter closure: returns None / false for the element only
                    head = dom_heads[-1]
                    for (swb, tt, ft) in K.branch_targets(x, site):
                        mism = tt if site.op == "ne" else ft
                        reach, _ = K.reach_with(x, mism, drop_edges=K.same_bool_edges(x, site.result, site.op == "ne"), avoid=set())
                        # `continue`: the loop head is reachable again; `break`: it is not
                        key = "loop/query/%s/exact-skip" % fn
                        if head.bb in reach:
                            R.ok(key, "%s: a key of another script sharing the prefix is skipped and the scan continues" % fn, [site.where()])
                        else:
                            R.bad(key, "%s: an exact-mode length mismatch ends the scan instead of skipping the key: later matching keys are lost" % fn, [site.where()])
            if widths.get(fn) != {w}:
                R.bad("const/query/%s/width" % fn, "%s compares key length against prefix + %s, expected prefix + %s" % (fn, sorted(widths.get(fn, [])), w), [b.where()])
            else:
                R.ok("const/query/%s/width" % fn, "%s: exact keys are prefix + %s bytes" % (fn, w), [b.where()])
        R.sites += n
        if n < 4:
            R.bad("loop/query/anchor-lost", "expected >=4 exact-mode length tests in the indexer service, found %d" % n, [])
    R.guard("loop/query", query_loops)

    # ---------------------------------------------------------------- 5. rich indexer: tables inserted vs deleted
    def rich():
        def tables(body_rx, call_rx):
            t = set()
            for b in F.bodies_of_crate("ckb_rich_indexer"):
                if not K.rx(body_rx).search(b.path):
                    continue
                for c in b.calls_to(call_rx):
                    for a in c.args[:1]:
                        v = a.get("v")
                        if isinstance(v, str):
                            t.add(v)
                        elif "p" in a:
                            for s_ in b.operand_sources(a):
                                if s_.startswith("lit:") and s_[4:].replace("_", "").isalpha():
                                    t.add(s_[4:])
            return t
        ins = tables(r"indexer::insert::", r"insert::bulk_insert(_and_return_ids)?$")
        dele = tables(r"indexer::remove::rollback_block", r"remove::remove_batch_by_blobs$")
        R.sites += len(ins) + len(dele)
        if len(ins) < 8:
            R.bad("invpair/rich/anchor-lost", "expected >=8 tables written by the rich indexer's insert path, found %s" % sorted(ins), [])
        elif ins <= dele:
            R.ok("invpair/rich", "every table the rich indexer inserts into (%s) is cleared by rollback_block" % sorted(ins), [])
        else:
            R.bad("invpair/rich", "rich-indexer rollback leaves rows in %s (inserted by append, never deleted)" % sorted(ins - dele), [])
        assoc = {"block_association_proposal", "block_association_uncle", "tx_association_cell_dep", "tx_association_header_dep"}
        if assoc <= dele:
            R.ok("invpair/rich/assoc", "association tables are cleared on rollback", [])
        else:
            R.bad("invpair/rich/assoc", "rich-indexer rollback leaves rows in %s" % sorted(assoc - dele), [])
    R.guard("invpair/rich", rich)

    # the key encoder writes every key component whole: prefix byte, big-endian numbers, molecule entities as_slice(), scripts through append_key.
    # Its callee set is closed; a projection of a component (round-2 seed C18-seed4: `out_point.tx_hash()` for the ConsumedOutPoint key, so that
    # two outputs of one transaction consumed in one block share a key) is a callee that was never reviewed.
    def key_encoder():
        enc = [b for b in F.bodies_of_crate("ckb_indexer") if re.search(r"From<indexer::Key<'a>> for alloc::vec::Vec<u8>>::from$", b.path)]
        if not enc:
            R.bad("layout/key-encoder/anchor-lost", "the Key -> bytes encoder not found", [])
            return
        b = enc[0]
        R.fn(b)
        allowed = re.compile(r"^(alloc::vec::Vec::(extend_from_slice|new|push|with_capacity|reserve)|ckb_indexer::indexer::append_key|core::num::to_be_bytes|molecule::prelude::Entity::as_slice|core::convert::(Into::into|From::from)|core::clone::Clone::clone)$")
        other = sorted({re.sub(r"<[^<>]*>", "", re.sub(r"<[^<>]*>", "", c.callee)).replace("::::", "::") for x in K.with_nested(b) for c in x.calls} - set())
        other = [o for o in other if not allowed.match(o)]
        R.sites += len(b.calls)
        if other:
            R.bad("layout/key-encoder", "the key encoder applies %s to a key component: components are written whole (the reviewed callee set is closed)" % other[:3], [b.where()])
        elif len(b.calls) < 20:
            R.bad("layout/key-encoder/anchor-lost", "the key encoder has %d calls, about 30 were reviewed" % len(b.calls), [b.where()])
        else:
            R.ok("layout/key-encoder", "every key component is written whole (%d calls, all from the reviewed set)" % len(b.calls), [b.where()])
    R.guard("layout/key-encoder", key_encoder)
