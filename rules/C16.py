"""C16 - bytes from peers can be rejected but never crash the node or forge a block (structural necessary conditions)."""
import re

import kinds as K

CRATES = ["ckb_network", "ckb_sync"]
EXPLANATION = ("guarded allocation: at both decompression sites the buffer sized by the peer-declared length is allocated only behind `len > MAX_UNCOMPRESSED_LEN => reject`, and no unbounded snappy entry point is used; "
               "CMP/REQERR: the compact-block, block-transactions and block-uncles verifiers keep their index/order/length/hash rejections (these make reconstruct_block's index arithmetic and `expect`s safe); "
               "a built rejection Status is never dropped; ORDER: verifiers dominate reconstruction; a Block result is constructed only behind the transactions-root AND header-hash comparisons; "
               "protocol handlers decode peer bytes with checked readers only.")
NOT_DECIDED = "panic-freedom of every accessor/verifier on every decoded value (no sound bound on indices without value analysis of generated code)"

REL = "ckb_sync::relayer::"


def status_err_blocks(body):
    """blocks that produce a rejection Status: StatusCode::with_context / StatusCode.into()"""
    out = set()
    for c in body.calls:
        if c.callee.endswith("StatusCode::with_context") or (c.callee.endswith("Into::into") and c.atys and "StatusCode" in c.atys[0]):
            out.add(c.bb)
    return out


def status_table(R, key, body, A, B, expect, what="", arith=((), ()), min_sites=1, only_ops=None):
    err = status_err_blocks(body)

    def classify(b, site, tt, ft):
        if tt is None:
            return None
        oks = {c.bb for c in b.calls_to(r"Status::ok$")}

        def lab(start, other):
            reach, _ = K.reach_with(b, start, avoid=err, drop_edges=K.same_bool_edges(b, site.result, start == tt))
            # error side: cannot reach a Status::ok() / return without passing a rejection
            return "CONT" if reach & (oks | set(b.return_blocks())) else "ERR"
        return (lab(tt, ft), lab(ft, tt))
    return K.cmp_table(R, key, body, A, B, expect, classify, what=what, arith=arith, min_sites=min_sites, only_ops=only_ops)


def run(F, S, R, tier):
    # ---------------------------------------------------------------- 1. guarded allocation
    def guarded_alloc():
        sites = [("message", F.need("ckb_network::compress::Message::decompress")),
                 ("codec", F.one("ckb_network", r"LengthDelimitedCodecWithCompress as tokio_util::codec::decoder::Decoder>::decode$"))]
        for nm, b in sites:
            dl = b.calls_to(r"snap::decompress::decompress_len$|raw::decompress_len$|decompress_len$")
            dc = b.calls_to(r"snap::decompress::Decoder::decompress$|Decoder::decompress$")
            if not dl or not dc:
                R.bad("guarded-alloc/%s/anchor-lost" % nm, "decompress_len / Decoder::decompress not found at the %s decompression site (an unbounded entry point such as decompress_vec sizes its buffer from the peer's header)" % nm, [b.where()])
                continue
            K.cmp_table(R, "guarded-alloc/%s/bound" % nm, b, [r"call:.*decompress_len$"], [r"const:.*MAX_UNCOMPRESSED_LEN"], {"<": "GO", "=": "GO", ">": "STOP"},
                        K.classify_reach([r"Decoder::decompress$"], "GO", "STOP"), what="declared length above the limit never reaches the decompressor")
            for c in dc:
                if not any(b.dominates(x.bb, c.bb) for x in dl):
                    R.bad("guarded-alloc/%s/dominated" % nm, "a decompression is not preceded by the declared-length check", [c.where()])
            # the buffer handed to the decompressor is sized by the checked length
            buf_ok = any(K.src_match(b.operand_sources(c.args[2]), [r"call:.*decompress_len$"]) for c in dc if len(c.args) > 2)
            if buf_ok:
                R.ok("guarded-alloc/%s/size" % nm, "the output buffer is sized by the checked decompress_len", [dc[0].where()])
            else:
                R.bad("guarded-alloc/%s/size" % nm, "the decompression buffer is not sized by the checked length", [dc[0].where()])
        # no unbounded snappy entry point anywhere in the network crate
        unb = [c for c in F.callers(r"snap::.*Decoder::decompress_vec$", ["ckb_network"])]
        if unb:
            R.bad("guarded-alloc/unbounded", "ckb-network calls snap's decompress_vec (allocates whatever the peer's header declares)", [c.where() for c in unb])
        else:
            R.ok("guarded-alloc/unbounded", "ckb-network never calls an unbounded snappy decompression entry point", [])
        c = F.consts("ckb_network").get("ckb_network::compress::MAX_UNCOMPRESSED_LEN")
        if c and c.get("val") == str(1 << 23):
            R.ok("guarded-alloc/limit", "MAX_UNCOMPRESSED_LEN = 8 MiB", [])
        else:
            R.bad("guarded-alloc/limit", "MAX_UNCOMPRESSED_LEN is %s, the declared bound is 1 << 23" % (c and c.get("val")), [])
        dec = sites[1][1]
        K.cmp_table(R, "cmp/frame-min", dec, [r"call:.*BytesMut::len$|call:.*::len$"], [r"lit:2$"], {"<": "ERR", "=": "CONT", ">": "CONT"}, K.classify_err(), what="a frame shorter than flag+1 byte is rejected before indexing")
        msg = sites[0][1]
        K.must_fail(R, "mustfail/empty-message", msg, assume=[(r"BytesMut::is_empty$", True)], what="an empty message is rejected before its flag byte is read")
    R.guard("guarded-alloc", guarded_alloc)

    # ---------------------------------------------------------------- 2. context-free verifiers of relay messages
    def verifiers():
        pv = F.need(REL + "compact_block_verifier::PrefilledVerifier::verify")
        status_table(R, "cmp/prefilled/first", pv, [r"call:.*PrefilledTransaction::index$|call:.*index$"], [r"lit:0$"], {"<": "ERR", "=": "CONT", ">": "ERR"}, what="first prefilled index must be 0", min_sites=1, only_ops=("ne", "eq"))
        if K.find_cmp(pv, [r"call:.*index$"], [r"call:.*IndexTransactionVec::len$", r"call:.*ProposalShortIdVec::len$"]) or not K.find_cmp(pv, [r"call:.*index$"], [r"call:.*::txs_len$"]):
            status_table(R, "cmp/prefilled/range", pv, [r"call:.*index$"], [r"call:.*IndexTransactionVec::len$", r"call:.*ProposalShortIdVec::len$"], {"<": "CONT", "=": "ERR", ">": "ERR"}, what="last prefilled index must be < txs_len", arith=([], ["op:add"]))
        else:       # the same quantity through the generated type's own helper
            status_table(R, "cmp/prefilled/range", pv, [r"call:.*index$"], [r"call:.*::txs_len$"], {"<": "CONT", "=": "ERR", ">": "ERR"}, what="last prefilled index must be < txs_len()", arith=([], []))
        # order: a comparison whose two operands both come from PrefilledTransaction::index() (neither a literal nor a length)
        # must reject equality and exactly one strict side (idiom: pairwise loop; other idioms - windows(2).all(..), is_sorted_by(..) -
        # are not recognised and are reported as `no pairwise comparison`, which is a finding to review, never a silent pass)
        IDX = r"call:.*IndexTransaction(Reader::<'r>)?::index$"
        err = status_err_blocks(pv)
        oks = {c.bb for c in pv.calls_to(r"Status::ok$")}
        pair = []
        for site in K.cmp_sites(pv):
            sa, sb = pv.operand_sources(site.a), pv.operand_sources(site.b)
            if not (K.src_match(sa, [IDX]) and K.src_match(sb, [IDX])):
                continue
            if any(x.startswith("lit:") for x in K.arith_of(pv, site.a) + K.arith_of(pv, site.b)) and (("p" not in site.a) or ("p" not in site.b)):
                continue
            if K.src_match(sa, [r"call:.*::len$"]) and not K.src_match(sb, [r"call:.*::len$"]) or K.src_match(sb, [r"call:.*::len$"]) and not K.src_match(sa, [r"call:.*::len$"]):
                continue
            pair.append(site)
        R.sites += len(pair)
        good = False
        for site in pair:
            tr = K.cmp_truth(site, False)
            for (sw, tt, ft) in K.branch_targets(pv, site):
                def lab(start):
                    reach, _ = K.reach_with(pv, start, avoid=err, drop_edges=K.same_bool_edges(pv, site.result, start == tt))
                    return "CONT" if reach & (oks | set(pv.return_blocks())) else "ERR"
                lt, lf = lab(tt), lab(ft)
                table = {"<": lt if tr[0] else lf, "=": lt if tr[1] else lf, ">": lt if tr[2] else lf}
                if table["="] == "ERR" and sorted([table["<"], table[">"]]) == ["CONT", "ERR"]:
                    good = True
                    R.ok("cmp/prefilled/order", "prefilled indexes strictly increase: equal neighbours are rejected %s" % K.fmt_table(table), [site.where()])
                else:
                    R.bad("cmp/prefilled/order", "neighbouring prefilled indexes are compared with table %s: equal or descending indexes pass, reconstruct_block subtracts them" % K.fmt_table(table), [site.where()])
                    good = True
        if not good:
            R.bad("cmp/prefilled/order", "PrefilledVerifier no longer compares neighbouring prefilled indexes pairwise with a strict order (duplicate indexes make reconstruct_block's `index - filled` arithmetic wrong)", [pv.where()])
        K.must_fail(R, "x", pv) if False else None
        drop = K.assumed_edges(pv, [(r"PrefilledTransactionVec::is_empty$|is_empty$", True)])
        if drop:
            reach, _ = K.reach_with(pv, 0, avoid=status_err_blocks(pv), drop_edges=drop)
            if reach & {c.bb for c in pv.calls_to(r"Status::ok$")}:
                R.bad("mustfail/prefilled/empty", "a compact block without prefilled cellbase is accepted", [pv.where()])
            else:
                R.ok("mustfail/prefilled/empty", "a compact block without prefilled transactions is rejected", [pv.where()])
        else:
            R.bad("mustfail/prefilled/empty/anchor-lost", "is_empty guard not found in PrefilledVerifier", [pv.where()])
        sv = F.need(REL + "compact_block_verifier::ShortIdsVerifier::verify")
        status_table(R, "cmp/shortids/dup", sv, [r"call:.*ProposalShortIdVec::len$"], [r"call:.*HashSet::<.*>::len$"], {"<": "ERR", "=": "CONT", ">": "ERR"}, what="duplicated short ids are rejected")
        cv = F.need(REL + "compact_block_verifier::CompactBlockVerifier::verify")
        oks = {c.bb for c in cv.calls_to(r"Status::ok$")}
        K.mustcall(R, "mustcall/compact-verifier", cv, [REL + r"compact_block_verifier::PrefilledVerifier::verify$", REL + r"compact_block_verifier::ShortIdsVerifier::verify$"], S, ends=oks, allow_err_exits=False,
                   what="the compact block verifier accepts only after both sub-verifiers")
        for sub in (r"PrefilledVerifier::verify$", r"ShortIdsVerifier::verify$"):
            for c in cv.calls_to(REL + "compact_block_verifier::" + sub):
                gate = [x for x in cv.calls_to(r"Status::is_ok$") if K.src_match(cv.operand_sources(x.args[0]), [r"call:.*" + sub])]
                if gate:
                    R.ok("mustcall/compact-verifier/gated/" + K.label(sub), "%s's verdict is tested (attempt!)" % K.label(sub), [c.where()])
                else:
                    R.bad("mustcall/compact-verifier/gated/" + K.label(sub), "%s's verdict is ignored" % K.label(sub), [c.where()])
        bt = F.need(REL + "block_transactions_verifier::BlockTransactionsVerifier::verify")
        status_table(R, "cmp/block-transactions/len", bt, [r"call:.*::len$"], [r"call:.*::len$"], {"<": "ERR", "=": "CONT", ">": "ERR"}, what="received transactions must match the requested indexes in number")
        bu = F.need(REL + "block_uncles_verifier::BlockUnclesVerifier::verify")
        status_table(R, "cmp/block-uncles/len", bu, [r"call:.*::len$"], [r"call:.*::len$", r"param:uncles"], {"<": "ERR", "=": "CONT", ">": "ERR"}, what="received uncles must match the requested indexes in number (reconstruct_block indexes them with expect)")
        status_table(R, "cmp/block-uncles/hash", bu, [r"call:.*UncleBlockView::hash$"], [r"call:.*next$|idx:#0"], {"<": "ERR", "=": "CONT", ">": "ERR"}, what="each received uncle must be the requested one")
    R.guard("verifiers", verifiers)

    # ---------------------------------------------------------------- 3. a built rejection is never dropped
    def no_dropped_status():
        n = 0
        for b in F.bodies_of_crate("ckb_sync"):
            if "/tests/" in (b.file or "") or "tests" in b.path:
                continue
            for c in b.calls:
                if not (c.callee.endswith("StatusCode::with_context") or (c.callee.endswith("Into::into") and c.atys and "StatusCode" in c.atys[0])):
                    continue
                n += 1
                if c.dest is None or c.dest[1] or c.dest[0] == 0:
                    continue
                d = c.dest[0]
                used = False
                for blk in b.blocks:
                    for st in blk["s"]:
                        if _mentions(st[1], d):
                            used = True
                    t = blk["t"]
                    if t.get("k") == "call" and any("p" in a and a["p"][0] == d for a in t.get("args", [])):
                        used = True
                    if t.get("k") == "switch" and "p" in t["d"] and t["d"]["p"][0] == d:
                        used = True
                    if t.get("k") == "yield" and "p" in t.get("v", {}) and t["v"]["p"][0] == d:
                        used = True
                if not used:
                    R.bad("reqerr/dropped-status/%s" % K.short(b.path), "a rejection Status is built at %s and dropped: the check it belongs to never rejects" % c.where(), [c.where()])
        R.sites += n
        if n < 45:
            R.bad("reqerr/dropped-status/anchor-lost", "expected >=45 rejection sites in ckb-sync, found %d" % n, [])
        else:
            R.ok("reqerr/dropped-status", "all %d rejection Status values built in ckb-sync are returned or otherwise used" % n, [])
    R.guard("reqerr/dropped-status", no_dropped_status)

    # ---------------------------------------------------------------- 4. verification dominates reconstruction; Block only behind both comparisons
    def reconstruction():
        cbp = F.one("ckb_sync", r"::compact_block_process::CompactBlockProcess::<'a>::execute$")
        co = [b for b in K.with_nested(cbp) if b.calls_to(r"Relayer::reconstruct_block$")]
        if not co:
            R.bad("order/compact-verify/anchor-lost", "CompactBlockProcess::execute coroutine not found", [cbp.where()])
        else:
            b = co[0]
            K.order_dom(R, "order/compact-verify", b, REL + r"compact_block_verifier::CompactBlockVerifier::verify$", r"Relayer::reconstruct_block$", what="a compact block is reconstructed only after the context-free verifier")
            K.order_dom(R, "order/compact-verify/pending", b, REL + r"compact_block_verifier::CompactBlockVerifier::verify$", r"compact_block_process::missing_or_collided_post_process$", need_b=1,
                        what="only verified compact blocks are parked in pending_compact_blocks")
            gate = [x for x in b.calls_to(r"Status::is_ok$") if K.src_match(b.operand_sources(x.args[0]), [r"call:.*CompactBlockVerifier::verify$"])]
            if gate:
                R.ok("order/compact-verify/gated", "the verifier's verdict is tested before reconstruction", [gate[0].where()])
            else:
                R.bad("order/compact-verify/gated", "the compact block verifier's verdict is ignored", [b.where()])
        btp = F.one("ckb_sync", r"::block_transactions_process::BlockTransactionsProcess::<'a>::execute$")
        co2 = [b for b in K.with_nested(btp) if b.calls_to(r"Relayer::reconstruct_block$")]
        if not co2:
            R.bad("order/block-transactions-verify/anchor-lost", "BlockTransactionsProcess::execute coroutine not found", [btp.where()])
        else:
            b = co2[0]
            K.order_dom(R, "order/block-transactions-verify/txs", b, r"BlockTransactionsVerifier::verify$", r"Relayer::reconstruct_block$", what="received transactions are verified before reconstruction")
            K.order_dom(R, "order/block-transactions-verify/uncles", b, r"BlockUnclesVerifier::verify$", r"Relayer::reconstruct_block$", what="received uncles are verified before reconstruction")
        # the only writer of pending_compact_blocks entries
        ins = [c for c in F.callers(r"SyncState::pending_compact_blocks$", ["ckb_sync"]) if "tests" not in c.body.path]
        R.sites += len(ins)
        rb = F.one("ckb_sync", r"relayer::Relayer::reconstruct_block$")
        co3 = [b for b in K.with_nested(rb) if K.agg_sites(b, "ckb_sync::relayer::ReconstructionResult", "Block")]
        if not co3:
            R.bad("order/root-check/anchor-lost", "ReconstructionResult::Block construction not found", [rb.where()])
            return
        b = co3[0]
        blk_sites = {i for (i, rv, ln) in K.agg_sites(b, "ckb_sync::relayer::ReconstructionResult", "Block")}
        for key, A, Bp, what in (("order/root-check", [r"call:.*RawHeader::transactions_root$"], [r"call:.*BlockView::transactions_root$"], "transactions root"),
                                 ("order/header-commitment", [r"call:.*BlockView::hash$"], [r"call:.*calc_header_hash$"], "header hash")):
            found = K.find_cmp(b, A, Bp)
            good = False
            for site, sw in found:
                if site.op not in ("ne", "eq"):
                    continue
                for (swb, tt, ft) in K.branch_targets(b, site):
                    neq_t = tt if site.op == "ne" else ft
                    eq_t = ft if site.op == "ne" else tt
                    reach, _ = K.reach_with(b, neq_t, drop_edges=K.same_bool_edges(b, site.result, site.op == "ne"))
                    if reach & blk_sites:
                        R.bad(key, "a reconstructed block whose %s differs from the compact block's can still be returned as Block" % what, [site.where()])
                    elif all(b.dominates(swb, x) for x in blk_sites):
                        good = True
            if good:
                R.ok(key, "ReconstructionResult::Block is constructed only when the reconstructed %s equals the compact block's" % what, [found[0][0].where()])
            elif not found:
                R.bad(key, "no comparison of the reconstructed block's %s with the compact block's dominates the Block result: a block the verified header does not commit to can be handed out" % what, [b.where()])
    R.guard("reconstruction", reconstruction)

    # ---------------------------------------------------------------- 5. protocol handlers decode with checked readers only
    def handlers():
        n = 0
        for crate in ("ckb_sync", "ckb_network"):
            for b in F.bodies_of_crate(crate):
                if not (b.name == "received" and b.trait and b.trait.endswith("CKBProtocolHandler")):
                    continue
                n += 1
                bodies = K.with_nested(b)
                unchecked = [c for x in bodies for c in x.calls if K.rx(r"(Reader|Entity)::new_unchecked$|from_slice_should_be_ok$").search(c.callee) and K.src_match(x.operand_sources(c.args[0]) if c.args else set(), [r"param:data|upvar:data"])]
                checked = [c for x in bodies for c in x.calls if K.rx(r"::from_compatible_slice$|::from_slice$").search(c.callee)]
                key = "whocalls/unchecked/" + K.short(b.path.replace("::received", ""))
                if unchecked:
                    R.bad(key, "%s builds an unchecked reader over peer bytes" % b.path, [unchecked[0].where()])
                elif checked:
                    R.ok(key, "%s decodes the peer's bytes with a verifying reader (from_slice / from_compatible_slice)" % K.short(b.path), [checked[0].where()])
        R.sites += n
        if n < 3:
            R.bad("whocalls/unchecked/anchor-lost", "expected >=3 CKBProtocolHandler::received bodies, found %d" % n, [])
    R.guard("whocalls/unchecked", handlers)

    def unchecked_everywhere():
        # the decoders the handlers delegate to are covered too: in the crates that receive peer bytes nothing builds an unchecked reader
        # except the three frozen sites that re-wrap bytes this node has itself just built or already verified
        allowed = {
            r"^ckb_network::protocols::discovery::protocol::DiscoveryMessage::encode$": "wraps bytes built by this node",
            r"^ckb_sync::utils::(item_name|message_name)$": "names a message that was already verified by the handler",
        }
        K.whocalls(R, "whocalls/unchecked-decoders", F, r"(Reader|Entity)::new_unchecked$|from_slice_should_be_ok$|from_compatible_slice_should_be_ok$", allowed,
                   crates=["ckb_sync", "ckb_network", "ckb_light_client_protocol_server", "ckb_network_alert", "ckb_block_filter"], min_sites=3,
                   what="peer-facing crates never construct an unchecked molecule reader (a malformed field would panic in an accessor)")
    R.guard("whocalls/unchecked-decoders", unchecked_everywhere)

    # ---------------------------------------------------------------- 6. defects F11-F13 (fixed): strict re-verification, pending index range, offset median
    def strict_blocks():
        """F11: compatible verification never looks inside extra fields; a received block / compact block must be re-verified strictly
        (as Block or BlockV1) before anything processes it."""
        for who, strict, proc in (("Synchronizer", r"generated::blockchain::Block(V1)?Reader<'r> as molecule::prelude::Reader<'r>>::verify$|BlockV1Reader.*::verify$|BlockReader.*::verify$",
                                   r"Synchronizer::process$"),
                                  ("Relayer", r"CompactBlock(V1)?Reader<'r> as molecule::prelude::Reader<'r>>::verify$|CompactBlockV1Reader.*::verify$|CompactBlockReader.*::verify$", r"Relayer::process$|Relayer::try_process$")):
            key = "mustcall/strict-block/%s" % who
            rc = [b for b in F.bodies_of_crate("ckb_sync") if b.kind != "Fn" and re.search(r"%s as ckb_network::protocols::CKBProtocolHandler>::received::\{closure#0\}$" % who, b.path)]
            if not rc:
                R.bad(key + "/anchor-lost", "%s::received not found" % who, [])
                continue
            b = rc[0]
            R.fn(b)
            hits = S.hit_blocks(b, K.pats([strict]), 2)
            verifies = []
            for c in b.calls:
                if c.bb in hits:
                    # strict = second argument `compatible` is the literal false, here or in the helper
                    verifies.append(c)
            procs = b.calls_to(proc)
            R.sites += len(verifies) + len(procs)
            if not procs:
                R.bad(key + "/anchor-lost", "%s::received no longer hands the message to try_process" % who, [b.where()])
            elif verifies and all(any(b.dominates(v.bb, p.bb) or v.bb in set(b.reachable(0)) - set(b.reachable(p.target or p.bb)) for v in verifies) for p in procs):
                strict_ok = False
                for v in verifies:
                    for cb in [b] + S.callee_bodies(v):
                        for c2 in cb.calls:
                            if re.search(r"::verify$", c2.callee) and len(c2.args) == 2 and c2.args[1].get("v") in (0, "0", False, "false"):
                                strict_ok = True
                (R.ok if strict_ok else R.bad)(key, ("%s::received re-verifies the block strictly (compatible = false) before processing it" % who) if strict_ok else
                                              ("%s::received verifies the block only in compatible mode: extra fields are never inspected" % who), [verifies[0].where()])
            else:
                R.bad(key, "%s::received processes a block that was only verified in compatible mode: a junk extension field or an extra field in a nested table "
                      "(uncle) reaches accessors that unwrap (remote panic / poisoned store)" % who, [procs[0].where()])
    R.guard("mustcall/strict-block", strict_blocks)

    def pending_index():
        """F12: the indexes of a BlockTransactions reply were computed from the replying peer's compact block, the pending compact block may be
        another peer's: an index must be range-checked against the pending block, never `.expect`ed."""
        v = F.one("ckb_sync", r"BlockTransactionsVerifier::verify$")
        bodies = K.with_nested(v)
        R.fn(v)
        exps = [c for x in bodies for c in x.calls if re.search(r"Option::<.*>::(expect|unwrap)$", c.callee)]
        lens = [s_ for x in bodies for s_ in K.cmp_sites(x) if K.src_match(x.operand_sources(s_.a) | x.operand_sources(s_.b), [r"call:.*::len$"]) and
                K.src_match(x.operand_sources(s_.a) | x.operand_sources(s_.b), [r"param:indexes|^param:2$|call:.*Iterator::find$|call:.*::iter$"])]
        R.sites += len(exps) + len(lens)
        if exps:
            R.bad("reqerr/pending-index", "BlockTransactionsVerifier::verify unwraps a lookup into the pending compact block: an index computed from another peer's layout panics the relay handler", [exps[0].where()])
        elif lens:
            R.ok("reqerr/pending-index", "indexes are range-checked against the pending compact block and nothing is unwrapped", ["%s:%s" % (v.file, lens[0].line)])
        else:
            R.bad("reqerr/pending-index", "BlockTransactionsVerifier::verify does not compare the reply's indexes with the length of the pending compact block", [v.where()])
    R.guard("reqerr/pending-index", pending_index)

    def median():
        """F13: peer-supplied offsets are summed: the sum must not be taken in i64."""
        m = F.one("ckb_sync", r"NetTimeChecker::median_offset$")
        R.fn(m)
        locs = m.rec.get("locals") or []
        adds = [(st, locs[st[0][0]] if st[0][0] < len(locs) else "?") for blk in m.blocks for st in blk["s"] if st[1].get("k") == "bin" and st[1]["op"].startswith("Add")]
        narrow = [a for a in adds if re.search(r"\bi64\b|\bu64\b", str(a[1]))]
        R.sites += len(adds)
        if narrow:
            R.bad("affine/median-no-overflow", "median_offset adds two peer-supplied i64 offsets in 64 bits: with overflow checks on, a peer can panic the time handler", ["%s:%s" % (m.file, narrow[0][0][2])])
        else:
            R.ok("affine/median-no-overflow", "the two middle samples are added in a wider type (or not at all)", [m.where()])
    R.guard("affine/median-no-overflow", median)

    def uncle_commitment():
        """F15 (fixed 9cf4300): a block hash commits to an uncle through the uncle's header hash only, the uncle header commits to the uncle's
        proposals. A twin of an honest block with other uncle proposals has the honest block's hash; it must be dropped where it enters
        (before its hash is given any status), i.e. both entry points compare uncle.proposals_hash() with uncle.calc_proposals_hash()."""
        def has_commitment_cmp(bodies):
            for x in bodies:
                for c in x.calls:
                    if c.callee in K.CMP_CALLS or re.search(r"PartialEq::(eq|ne)$", c.callee):
                        sa, sb = x.operand_sources(c.args[0]), x.operand_sources(c.args[1])
                        if (K.src_match(sa, [r"call:.*::proposals_hash$"]) and K.src_match(sb, [r"call:.*calc_proposals_hash$"])) or \
                           (K.src_match(sb, [r"call:.*::proposals_hash$"]) and K.src_match(sa, [r"call:.*calc_proposals_hash$"])):
                            return c
            return None
        for fn in ("execute",):      # blocking_execute is cfg(test)
            b = F.one("ckb_sync", r"synchronizer::block_process::BlockProcess::<'a>::%s$" % fn)
            R.fn(b)
            nbr = b.calls_to(r"::new_block_received$")
            guards = []
            for c in b.calls:
                for cb in S.callee_bodies(c):
                    if "ckb_sync" in cb.path and has_commitment_cmp(K.with_nested(cb)):
                        guards.append(c)
            inl = has_commitment_cmp(K.with_nested(b))
            if inl is not None:
                guards.append(inl)
            R.sites += len(nbr) + len(guards)
            key = "order/uncle-commitment/BlockProcess::%s" % fn
            if not nbr:
                R.bad(key + "/anchor-lost", "new_block_received not found in BlockProcess::%s" % fn, [b.where()])
            elif guards and all(any(g.body is b and b.dominates(g.bb, n.bb) for g in guards) for n in nbr):
                R.ok(key, "uncle proposals are checked against the uncle header before the block's hash gets a status", [guards[0].where()])
            else:
                R.bad(key, "BlockProcess::%s hands a block to new_block_received without checking that every uncle's proposals match its header: a twin with the honest block's hash "
                      "fails later and the honest block is marked BLOCK_INVALID (refused until restart, honest peers banned)" % fn, [nbr[0].where()])
        bu = F.one("ckb_sync", r"BlockUnclesVerifier::verify$")
        R.fn(bu)
        g = has_commitment_cmp(K.with_nested(bu))
        R.sites += 1
        if g is not None:
            R.ok("order/uncle-commitment/BlockUnclesVerifier", "uncles of a BlockTransactions reply are checked against their own header's proposals hash", [g.where()])
        else:
            R.bad("order/uncle-commitment/BlockUnclesVerifier", "BlockUnclesVerifier binds received uncles by header hash only: an uncle with other proposals rebuilds an invalid block with a valid block's hash", [bu.where()])
    R.guard("order/uncle-commitment", uncle_commitment)

    # the uncles a peer sends are in the order they were asked for: the k-th requested uncle is reply[k], not reply[slot in the block]
    # (round-2 seed C16-seed3 indexed the reply by the enumerate() slot)
    def reply_position():
        rb = F.need("ckb_sync::relayer::Relayer::reconstruct_block")
        hits = []
        for x in K.with_nested(rb):
            for c in x.calls:
                if re.search(r"::get$", c.callee) and len(c.args) > 1 and K.src_match(x.operand_sources(c.args[0]), [r"param:received_uncles$|param:6$"]):
                    hits.append((x, c))
        R.sites += len(hits)
        if not hits:
            R.bad("prov/uncle-reply-position/anchor-lost", "the lookup into the received uncles not found in reconstruct_block", [rb.where()])
            return
        for x, c in hits:
            srcs = x.operand_sources(c.args[1])
            if any(re.search(r"Enumerate<.*>.*::next$|^idx:#?0$", y) for y in srcs) and not any(y.startswith("lit:") for y in srcs):
                R.bad("prov/uncle-reply-position", "the received uncles are indexed by the uncle's slot in the block (enumerate index), not by a counter of the requested ones", [c.where()])
            elif any(y == "lit:1" for y in srcs) and any(y == "lit:0" for y in srcs):
                R.ok("prov/uncle-reply-position", "the received uncles are consumed through a counter that starts at 0 and advances by one per requested uncle", [c.where()])
            else:
                R.bad("prov/uncle-reply-position", "the index into the received uncles is not a 0-based counter advanced by one", [c.where()])
    R.guard("prov/uncle-reply-position", reply_position)

def _mentions(rv, local):
    k = rv.get("k")
    ops = []
    if k in ("use", "cast", "repeat"):
        ops = [rv["o"]]
    elif k == "ref" or k == "discr":
        return rv["p"][0] == local
    elif k == "bin":
        ops = [rv["a"], rv["b"]]
    elif k == "un":
        ops = [rv["a"]]
    elif k == "agg":
        ops = rv.get("ops", [])
    return any("p" in o and o["p"][0] == local for o in ops)
