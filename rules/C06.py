"""C06 - rewards, fee split and DAO field (structural necessary conditions)."""
import kinds as K
from common import VERIFY

CRATES = ["ckb_reward_calculator", "ckb_dao", "ckb_dao_utils", "ckb_verification_contextual", "ckb_chain", "ckb_chain_spec"]
EXPLANATION = ("PROV: BlockReward.total is the sum of committer fees, proposer rewards and both base rewards, each field from its namesake; proposer and committer shares use the same ratio and sum to the fee; "
               "a proposer share is added only behind target_proposals.remove(id) and, in the walk, behind !proposed.contains(id) with `proposed` accumulated across the walk; "
               "AFFINE: window starts of the reward walk and the finalize target; PROV/positional: the DAO field packs (AR,C,S,U) from the parent's (AR,C,S,U) with the RFC's operator forms and ratio operands; "
               "LAYOUT: pack/extract byte ranges agree; CMP: the verifiers compare exactly total / lock / dao; PROV: stored txs_fees come from the verifier's results of the same block.")
NOT_DECIDED = "arithmetic exactness/rounding over all values and U = occupied capacity of the live set (needs value reasoning over histories)"

RC = "ckb_reward_calculator::RewardCalculator::<'a, CS>::"


def ops(sig):
    return sorted(x for x in sig if x.startswith("op:"))


def run(F, S, R, tier):
    bri = F.need(RC + "block_reward_internal")
    pr = F.need(RC + "proposal_reward")
    tf = F.need(RC + "txs_fees")
    bb = F.need(RC + "base_block_reward")

    # ------------------------------------------------------------ 1. total and fields
    def total():
        aggs = K.agg_sites(bri, "ckb_types::core::reward::BlockReward")
        if not aggs:
            R.bad("prov/total/anchor-lost", "BlockReward aggregate not found", [bri.where()])
            return
        rv = aggs[0][1]
        want = {
            "total": [r"call:.*::txs_fees$", r"call:.*::proposal_reward$", r"call:.*::base_block_reward$", r"idx:#0", r"idx:#1"],
            "primary": [r"call:.*::base_block_reward$", r"idx:#0"],
            "secondary": [r"call:.*::base_block_reward$", r"idx:#1"],
            "tx_fee": [r"call:.*::txs_fees$"],
            "proposal_reward": [r"call:.*::proposal_reward$"],
        }
        forbid = {"primary": [r"idx:#1", r"call:.*::txs_fees$"], "secondary": [r"idx:#0", r"call:.*::txs_fees$"], "tx_fee": [r"call:.*::proposal_reward$", r"call:.*::base_block_reward$"],
                  "proposal_reward": [r"call:.*::txs_fees$", r"call:.*::base_block_reward$"]}
        for f, w in want.items():
            srcs = K.agg_field_sources(bri, rv, f) or set()
            bad = [x for x in forbid.get(f, []) if K.src_match(srcs, [x])]
            if K.src_match(srcs, w) and not bad:
                R.ok("prov/total/" + f, "BlockReward.%s derives from %s" % (f, w), ["%s:%d" % (bri.file, aggs[0][2])])
            else:
                R.bad("prov/total/" + f, "BlockReward.%s does not derive exactly from %s (also has %s)" % (f, w, bad), ["%s:%d" % (bri.file, aggs[0][2])])
        i = rv["fields"].index("total")
        sig = K.arith_of(bri, rv["ops"][i])
        if sig == ["op:safe_add"] * 3:
            R.ok("affine/total", "total = txs_fees + proposal_reward + primary + secondary (three checked additions, nothing else)", [bri.where()])
        else:
            R.bad("affine/total", "total has arithmetic %s, expected exactly three safe_add" % sig, [bri.where()])
        # calls use the right headers: fees and base reward of the TARGET, proposal reward of (parent, target)
        for pat, args in ((r"::txs_fees$", ["param:target"]), (r"::base_block_reward$", ["param:target"]), (r"::proposal_reward$", ["param:parent", "param:target"])):
            c = bri.calls_to(pat)
            good = c and all(K.src_match(bri.operand_sources(c[0].args[1 + j]), [a]) for j, a in enumerate(args))
            if good:
                R.ok("prov/total/args/" + K.label(pat), "%s is evaluated on %s" % (K.label(pat), args), [c[0].where()])
            else:
                R.bad("prov/total/args/" + K.label(pat), "%s is not evaluated on %s" % (K.label(pat), args), [bri.where()])
        # target lock from the target's cellbase witness
        gc = bri.calls_to(r"ChainStore::get_cellbase$")
        if gc and K.src_match(bri.operand_sources(gc[0].args[1]), [r"param:target", r"call:.*HeaderView::hash$"]):
            R.ok("prov/target-lock", "the rewarded lock is read from the target block's cellbase witness", [gc[0].where()])
        else:
            R.bad("prov/target-lock", "the rewarded lock is not read from the target block's cellbase", [bri.where()])
        # base_block_reward returns (primary, secondary) in that order, both for the same target
        tup = [(i_, rv_, ln) for i_, blk in enumerate(bb.blocks) for st in blk["s"] for rv_, ln in [(st[1], st[2])] if rv_.get("k") == "agg" and rv_.get("ak") == "tuple" and len(rv_.get("ops", [])) == 2]
        good = False
        for i_, rv_, ln in tup:
            a, b_ = bb.operand_sources(rv_["ops"][0]), bb.operand_sources(rv_["ops"][1])
            if K.src_match(a, [r"call:.*primary_block_reward$"]) and not K.src_match(a, [r"call:.*secondary_block_reward$"]) and K.src_match(b_, [r"call:.*secondary_block_reward$"]) and not K.src_match(b_, [r"call:.*primary_block_reward$"]):
                good = True
        if good:
            R.ok("prov/base-order", "base_block_reward returns (primary, secondary)", [bb.where()])
        else:
            R.bad("prov/base-order", "base_block_reward no longer returns (primary_block_reward, secondary_block_reward) in that order", [bb.where()])
        # finalize target arithmetic
        brf = F.need(RC + "block_reward_to_finalize")
        ft = brf.calls_to(r"Consensus::finalize_target$")
        if ft and K.arith_of(brf, ft[0].args[1]) == ["lit:1", "op:add"] and K.src_match(brf.operand_sources(ft[0].args[1]), [r"param:parent", r"call:.*HeaderView::number$"]):
            R.ok("affine/finalize-block", "reward is finalised for block parent.number + 1", [ft[0].where()])
        else:
            R.bad("affine/finalize-block", "block_reward_to_finalize does not evaluate finalize_target(parent.number + 1)", [brf.where()])
        fin = F.need("ckb_chain_spec::consensus::Consensus::finalize_target")
        sub = fin.calls_to(r"saturating_sub$")
        if sub and K.src_match(fin.operand_sources(sub[0].args[1]), [r"call:.*finalization_delay_length$"]) and K.src_match(fin.operand_sources(sub[0].args[0]), [r"param:block_number"]):
            R.ok("affine/finalize-target", "finalize_target(n) = n - finalization_delay_length", [sub[0].where()])
        else:
            R.bad("affine/finalize-target", "finalize_target is not n - finalization_delay_length()", [fin.where()])
        fdl = F.need("ckb_chain_spec::consensus::Consensus::finalization_delay_length")
        sigs = [K.def_sig(fdl, d) for d in fdl.defs().get(0, [])]
        flat = sorted(x for s_ in sigs for x in s_)
        if [x for x in flat if x.startswith(("op:", "lit:"))] == ["lit:1", "op:add"] and any("ProposalWindow::farthest" in x for x in flat):
            R.ok("affine/finalization-delay", "finalization_delay_length = farthest + 1", [fdl.where()])
        else:
            R.bad("affine/finalization-delay", "finalization_delay_length is %s, expected farthest + 1" % flat, [fdl.where()])
    R.guard("prov/total", total)

    # ------------------------------------------------------------ 2. fee split
    def ratio():
        n = 0
        for b in K.with_nested(tf) + K.with_nested(pr):
            for c in b.calls_to(r"safe_mul_ratio$"):
                n += 1
                R.sites += 1
                if K.src_match(b.operand_sources(c.args[1]), [r"call:.*Consensus::proposer_reward_ratio$"]):
                    R.ok("prov/ratio/%s" % K.short(b.path), "proposer share uses consensus.proposer_reward_ratio()", [c.where()])
                else:
                    R.bad("prov/ratio/%s" % K.short(b.path), "a proposer share is computed with a ratio other than proposer_reward_ratio()", [c.where()])
        if n < 3:
            R.bad("prov/ratio/anchor-lost", "expected 3 safe_mul_ratio sites in txs_fees/proposal_reward, found %d" % n, [tf.where()])
        # committer share = fee - fee*ratio, accumulated with safe_add, over all fees of the target's ext
        subs = [(b, c) for b in K.with_nested(tf) for c in b.calls_to(r"safe_sub$")]
        good = False
        for b, c in subs:
            a0, a1 = b.operand_sources(c.args[0]), b.operand_sources(c.args[1])
            # structural (no names): the subtrahend is this closure's own parameter, fed by `.and_then` from safe_mul_ratio(ratio)
            # in the enclosing closure; the minuend is captured from that enclosing closure (the raw fee)
            import tables as _T
            r0 = _T.root_local(b, c.args[0]) if "p" in c.args[0] else None
            d0 = b.defs().get(r0, []) if r0 is not None else []
            if len(d0) == 1 and d0[0][0] == "assign" and d0[0][3].get("k") == "use" and "p" in d0[0][3]["o"]:
                r0 = d0[0][3]["o"]["p"][0]     # a read out of the closure environment: (_1.N)
            r1 = _T.root_local(b, c.args[1]) if "p" in c.args[1] else None
            par = F.body(b.parent, b.crate) if b.parent else None
            fed = bool(par) and any(K.src_match(par.operand_sources(x.args[0]), [r"call:.*Capacity::safe_mul_ratio$"]) for x in par.calls_to(r"Result::<.*>::and_then$"))
            if b.kind != "Fn" and r1 is not None and 2 <= r1 <= b.argc and r0 == 1 and fed and K.src_match(a0, [r"field:.*BlockExt\.txs_fees$"]):
                good = True
                R.ok("prov/committer-share", "committer share = tx_fee - proposer share of the same fee", [c.where()])
        if not good:
            R.bad("prov/committer-share", "committer share is no longer tx_fee.safe_sub(proposer share of that fee)", [tf.where()])
        fold = tf.calls_to(r"Iterator::try_fold$")
        if fold and K.src_match(tf.operand_sources(fold[0].args[0]), [r"field:.*BlockExt\.txs_fees", r"call:.*ChainStore::get_block_ext$"]) and not any(K.NARROWING.search(s) for s in tf.operand_sources(fold[0].args[0])):
            R.ok("loop/committer-all-fees", "every recorded fee of the target block contributes a committer share", [fold[0].where()])
        else:
            R.bad("loop/committer-all-fees", "txs_fees no longer folds over all of target_ext.txs_fees", [tf.where()])
        ge = tf.calls_to(r"ChainStore::get_block_ext$")
        if ge and K.src_match(tf.operand_sources(ge[0].args[1]), [r"param:target"]):
            R.ok("prov/committer-target", "committer fees are those recorded for the target block", [ge[0].where()])
        else:
            R.bad("prov/committer-target", "txs_fees does not read the target block's ext", [tf.where()])
    R.guard("prov/ratio", ratio)

    # ------------------------------------------------------------ 3. proposer share paid at most once
    def once():
        adds = pr.calls_to(r"safe_mul_ratio$")
        rem = pr.calls_to(r"HashSet::<.*>::remove$")
        con = pr.calls_to(r"HashSet::<.*>::contains$")
        R.sites += len(adds) + len(rem) + len(con)
        if len(adds) != 2 or len(rem) != 2 or not con:
            R.bad("prov/once/anchor-lost", "expected 2 proposer-share sites, 2 target_proposals.remove and a proposed.contains in proposal_reward (found %d/%d/%d)" % (len(adds), len(rem), len(con)), [pr.where()])
            return
        for c in adds:
            doms = [r for r in rem if pr.dominates(r.bb, c.bb)]
            if not doms:
                R.bad("prov/once/remove", "proposer share at %s is not guarded by target_proposals.remove(&id)" % c.where(), [c.where()])
                continue
            r = doms[-1]
            drop = K.assumed_edges(pr, [(r"HashSet::<.*>::remove$", False)])
            reach, _ = K.reach_with(pr, r.target, drop_edges=drop, avoid={x.bb for x in pr.calls if x.callee.endswith("Iterator::next")})
            if c.bb in reach:
                R.bad("prov/once/remove", "a proposer share is paid although target_proposals.remove(&id) returned false (id already rewarded)", [c.where()])
            else:
                R.ok("prov/once/remove", "proposer share only behind target_proposals.remove(&id) == true", [c.where()])
            if not K.src_match(pr.operand_sources(r.args[0]), [r"call:.*get_proposal_ids_by_hash$"]) or not K.src_match(pr.operand_sources(r.args[1]), [r"call:.*next$|idx:#0"]):
                R.bad("prov/once/remove-set", "the remove guard is not on the target's proposal-id set", [r.where()])
        walk = [c for c in adds if any(pr.dominates(x.bb, c.bb) for x in con)]
        if len(walk) != 1:
            R.bad("prov/once/earlier-proposer", "the walk's proposer share must be guarded by !proposed.contains(&id)", [pr.where()])
        else:
            c = walk[0]
            cc = [x for x in con if pr.dominates(x.bb, c.bb)][-1]
            drop = K.assumed_edges(pr, [(r"HashSet::<.*>::contains$", True)])
            reach, _ = K.reach_with(pr, cc.target, drop_edges=drop, avoid={x.bb for x in pr.calls if x.callee.endswith("Iterator::next")})
            if c.bb in reach:
                R.bad("prov/once/earlier-proposer", "a later proposer is paid although an earlier in-window block already proposed the id", [c.where()])
            else:
                R.ok("prov/once/earlier-proposer", "in the walk the share is paid only if no earlier block of the window proposed the id", [c.where()])
            # `proposed` accumulates across the whole walk: created before the loop, extended inside it
            srcs = pr.operand_sources(cc.args[0])
            news = [x for x in pr.calls_to(r"HashSet::<.*>::new$")]
            ext = [x for x in pr.calls_to(r"Extend::extend$") if K.src_match(pr.operand_sources(x.args[1]), [r"call:.*get_proposal_ids_by_hash$"])]
            loops = [x for x in pr.calls_to(r"PartialOrd::gt$|HeaderView::number$") if pr.dominates(x.bb, cc.bb)]
            outer_new = [x for x in news if K.src_match(srcs, [r"call:.*HashSet::<.*>::new$"]) and pr.dominates(x.bb, ext[0].bb if ext else cc.bb) and not (x.bb in pr.reachable(ext[0].target) if ext else False)]
            if K.src_match(srcs, [r"call:.*HashSet::<.*>::new$", r"call:.*Extend::extend$"]) and ext and outer_new:
                R.ok("prov/once/accumulated", "`proposed` is one set created before the walk and extended at every step", [ext[0].where()])
            else:
                R.bad("prov/once/accumulated", "`proposed` is not accumulated across the walk (created before the loop, extended inside it): a re-proposed id would be paid twice", [cc.where()])
            if ext and K.arith_of(pr, ext[0].args[1]) is not None:
                gh = [x for x in pr.calls_to(r"ChainStore::get_block_hash$") if pr.dominates(x.bb, ext[0].bb)]
                if gh:
                    sig = K.arith_of(pr, gh[-1].args[1])
                    if sig == ["lit:1", "op:max", "op:saturating_sub"] and K.src_match(pr.operand_sources(gh[-1].args[1]), [r"call:.*ProposalWindow::farthest$"]):
                        R.ok("affine/competing-proposal-start", "competing_proposal_start = max(index.number - farthest, 1)", [gh[-1].where()])
                    else:
                        R.bad("affine/competing-proposal-start", "competing_proposal_start has form %s, expected max(index.number - farthest, 1)" % sig, [gh[-1].where()])
        # commit walk start
        gts = [s_ for s_, sw in K.find_cmp(pr, [r"call:.*HeaderView::number$"], [r"call:.*ProposalWindow::length$", r"call:.*ProposalWindow::closest$"])]
        if gts:
            s0 = gts[0]
            side = s0.b if K.src_match(pr.operand_sources(s0.b), [r"call:.*ProposalWindow::length$"]) else s0.a
            sig = K.arith_of(pr, side)
            if sig == ["lit:1", "lit:1", "op:add", "op:add", "op:max", "op:saturating_sub"] and s0.op in ("gt", "lt"):
                R.ok("affine/competing-commit-start", "walk continues while index.number > max((parent.number + 1) - length, 1 + closest)", [s0.where()])
            else:
                R.bad("affine/competing-commit-start", "competing_commit_start has form %s with operator %s" % (sig, s0.op), [s0.where()])
        else:
            R.bad("affine/competing-commit-start/anchor-lost", "walk bound comparison not found", [pr.where()])
        # fees are zipped with committed ids that skip the cellbase
        cl = [b for b in K.with_nested(pr) if b.calls_to(r"ChainStore::get_block_txs_hashes$")]
        sk = cl and cl[0].calls_to(r"Iterator::skip$")
        if sk and str(sk[0].args[1].get("v")) == "1":
            R.ok("prov/fee-alignment", "committed ids skip the cellbase so that they align with txs_fees", [sk[0].where()])
        else:
            R.bad("prov/fee-alignment", "committed ids no longer skip exactly the cellbase: fees and ids are misaligned", [pr.where()])
        # ids proposed by a block include uncle proposals (shared with C20)
        gp = F.need(RC + "get_proposal_ids_by_hash")
        if gp.calls_to(r"ChainStore::get_block_proposal_txs_ids$") and gp.calls_to(r"ChainStore::get_block_uncles$"):
            R.ok("sibling/proposal-ids", "proposal ids of a block = its proposals + its uncles' proposals", [gp.where()])
        else:
            R.bad("sibling/proposal-ids", "get_proposal_ids_by_hash no longer reads both block and uncle proposals", [gp.where()])
    R.guard("prov/once", once)

    # ------------------------------------------------------------ 4. DAO field
    DC = "ckb_dao::DaoCalculator::<'a, DL>::"

    def dao():
        df = F.need(DC + "dao_field_with_current_epoch")
        pk = df.calls_to(r"ckb_dao_utils::pack_dao_data$")
        if not pk:
            R.bad("prov/dao-pack/anchor-lost", "pack_dao_data call not found", [df.where()])
            return
        c = pk[0]
        names = ["AR", "C", "S", "U"]
        must = [
            [r"idx:#0", r"call:.*secondary_block_issuance$", r"idx:#1"],
            [r"idx:#1", r"call:.*EpochExt::block_reward$", r"call:.*secondary_block_issuance$"],
            [r"idx:#2", r"call:.*secondary_block_issuance$", r"call:.*withdrawed_interests$"],
            [r"idx:#3", r"call:.*added_occupied_capacities$", r"call:.*input_occupied_capacities$"],
        ]
        forms = [
            ["op:checked_add", "op:div", "op:mul"],
            ["op:safe_add", "op:safe_add"],
            ["op:div", "op:mul", "op:safe_add", "op:safe_sub", "op:safe_sub"],
            ["op:safe_add", "op:safe_sub"],
        ]
        for i, nm in enumerate(names):
            srcs = df.operand_sources(c.args[i])
            if K.src_match(srcs, must[i]) and K.src_match(srcs, [r"call:.*extract_dao_data$"]):
                R.ok("prov/dao-pack/" + nm, "%s derives from the parent's %s and %s" % (nm, nm, must[i][1:]), [c.where()])
            else:
                R.bad("prov/dao-pack/" + nm, "argument %d (%s) of pack_dao_data does not derive from %s" % (i, nm, must[i]), [c.where()])
            got = ops(K.arith_of(df, c.args[i]))
            if got == forms[i]:
                R.ok("affine/dao-pack/" + nm, "%s has the frozen operator form %s" % (nm, forms[i]), [c.where()])
            else:
                R.bad("affine/dao-pack/" + nm, "%s is computed with operators %s, frozen form %s" % (nm, got, forms[i]), [c.where()])
        # U must not include S's or C's parent component etc. (positional swap): each arg includes exactly its own parent index among the *direct* parent reads
        ex = df.calls_to(r"ckb_dao_utils::extract_dao_data$")
        if ex and K.src_match(df.operand_sources(ex[0].args[0]), [r"param:parent", r"call:.*HeaderView::dao$"]):
            R.ok("prov/dao-parent", "the accumulation starts from parent.dao()", [ex[0].where()])
        else:
            R.bad("prov/dao-parent", "dao field is not accumulated from parent.dao()", [df.where()])
        # ratio operands: g2 * U / C for the miner share, AR * g2 / C for the rate
        divs = [(st, i_) for i_, blk in enumerate(df.blocks) for st in blk["s"] if st[1].get("k") == "bin" and st[1]["op"] == "Div"]
        seen = {"miner": False, "ar": False}
        for st, i_ in divs:
            a, b_ = df.operand_sources(st[1]["a"]), df.operand_sources(st[1]["b"])
            den_c = K.src_match(b_, [r"idx:#1"]) and not K.src_match(b_, [r"idx:#3|idx:#0|idx:#2"])
            if K.src_match(a, [r"idx:#3", r"call:.*secondary_block_issuance$"]) and not K.src_match(a, [r"idx:#0"]):
                seen["miner"] = den_c
            if K.src_match(a, [r"idx:#0", r"call:.*secondary_block_issuance$"]) and not K.src_match(a, [r"idx:#3"]):
                seen["ar"] = den_c
        for k_, v in seen.items():
            if v:
                R.ok("prov/dao-ratio/" + k_, "%s ratio = (g2 x parent %s) / parent C" % (k_, "U" if k_ == "miner" else "AR"), [df.where()])
            else:
                R.bad("prov/dao-ratio/" + k_, "the %s ratio is no longer (g2 x parent %s) / parent C" % (k_, "U" if k_ == "miner" else "AR"), [df.where()])
        # block number and epoch used for issuance
        for pat in (r"secondary_block_issuance$", r"EpochExt::block_reward$"):
            cc = df.calls_to(pat)
            if cc and K.arith_of(df, cc[0].args[1]) == ["lit:1", "op:add"] and K.src_match(df.operand_sources(cc[0].args[0]), [r"param:current_block_epoch"]):
                R.ok("prov/dao-issuance/" + K.label(pat), "issuance of block parent.number + 1 in the current block's epoch", [cc[0].where()])
            else:
                R.bad("prov/dao-issuance/" + K.label(pat), "issuance is not evaluated for parent.number + 1 in current_block_epoch", [df.where()])
        d2 = F.need(DC + "dao_field")
        ne = d2.calls_to(r"Consensus::next_epoch_ext$")
        if ne and K.src_match(d2.operand_sources(ne[0].args[1]), [r"param:parent"]):
            R.ok("prov/dao-epoch", "dao_field uses the epoch of the block after parent", [ne[0].where()])
        else:
            R.bad("prov/dao-epoch", "dao_field does not derive the epoch from next_epoch_ext(parent)", [d2.where()])
        # secondary reward of the target: the target's own epoch, parent's (C,U)
        sr = F.need(DC + "secondary_block_reward")
        ge = sr.calls_to(r"EpochProvider::get_epoch_ext$")
        if ge and K.src_match(sr.operand_sources(ge[0].args[1]), [r"param:target"]) and not K.src_match(sr.operand_sources(ge[0].args[1]), [r"call:.*get_header$"]):
            R.ok("prov/secondary-epoch", "secondary reward uses the target block's own epoch", [ge[0].where()])
        else:
            R.bad("prov/secondary-epoch", "secondary_block_reward takes the epoch of a block other than the target", [sr.where()])
        exs = sr.calls_to(r"ckb_dao_utils::extract_dao_data$")
        if exs and K.src_match(sr.operand_sources(exs[0].args[0]), [r"call:.*get_header$", r"call:.*parent_hash$"]):
            R.ok("prov/secondary-parent", "secondary reward uses the target parent's (C, U)", [exs[0].where()])
        else:
            R.bad("prov/secondary-parent", "secondary_block_reward no longer reads the target parent's dao", [sr.where()])
        okd = False
        for i_, blk in enumerate(sr.blocks):
            for st in blk["s"]:
                if st[1].get("k") == "bin" and st[1]["op"] == "Div":
                    a, b_ = sr.operand_sources(st[1]["a"]), sr.operand_sources(st[1]["b"])
                    okd = K.src_match(a, [r"idx:#3", r"call:.*secondary_block_issuance$"]) and K.src_match(b_, [r"idx:#1"]) and not K.src_match(b_, [r"idx:#3"])
        if okd:
            R.ok("prov/secondary-ratio", "miner share = g2 x parent U / parent C", [sr.where()])
        else:
            R.bad("prov/secondary-ratio", "secondary_block_reward is no longer g2 x parent U / parent C", [sr.where()])
        si = sr.calls_to(r"secondary_block_issuance$")
        pb = F.need(DC + "primary_block_reward")
        for b, pat, nm in ((sr, r"secondary_block_issuance$", "secondary"), (pb, r"EpochExt::block_reward$", "primary")):
            cc = b.calls_to(pat)
            if cc and K.src_match(b.operand_sources(cc[0].args[1]), [r"param:target", r"call:.*HeaderView::number$"]) and K.arith_of(b, cc[0].args[1]) == []:
                R.ok("prov/base-number/" + nm, "%s issuance is evaluated at target.number()" % nm, [cc[0].where()])
            else:
                R.bad("prov/base-number/" + nm, "%s issuance is not evaluated at target.number()" % nm, [b.where()])
        # withdraw: counted x AR_withdraw / AR_deposit + occupied
        mw = F.need(DC + "calculate_maximum_withdraw")
        okw = False
        for blk in mw.blocks:
            for st in blk["s"]:
                if st[1].get("k") == "bin" and st[1]["op"] == "Div":
                    a, b_ = mw.operand_sources(st[1]["a"]), mw.operand_sources(st[1]["b"])
                    okw = K.src_match(a, [r"param:withdrawing_header_hash", r"call:.*safe_sub$"]) and K.src_match(b_, [r"param:deposit_header_hash"]) and not K.src_match(b_, [r"param:withdrawing_header_hash"]) \
                        and not K.src_match(a, [r"param:deposit_header_hash"])
        if okw:
            R.ok("prov/withdraw-ratio", "withdraw = counted x AR(withdrawing) / AR(deposit)", [mw.where()])
        else:
            R.bad("prov/withdraw-ratio", "maximum withdraw is no longer counted_capacity x AR_withdraw / AR_deposit", [mw.where()])
        K.cmp_table(R, "cmp/withdraw-order", mw, [r"param:deposit_header_hash", r"call:.*HeaderView::number$"], [r"param:withdrawing_header_hash", r"call:.*HeaderView::number$"],
                    {"<": "CONT", "=": "ERR", ">": "ERR"}, K.classify_err(), what="deposit must precede withdrawal")
        sig = ops(K.arith_of(mw, {"p": [0, []]}))
        tfee = F.need(DC + "transaction_fee")
        s2 = [c for b in K.with_nested(tfee) for c in b.calls_to(r"safe_sub$")]
        if s2 and tfee.calls_to(r"transaction_maximum_withdraw$") and tfee.calls_to(r"outputs_capacity$"):
            R.ok("affine/fee", "fee = maximum withdraw of inputs - outputs capacity", [tfee.where()])
        else:
            R.bad("affine/fee", "transaction_fee is no longer maximum_withdraw - outputs_capacity", [tfee.where()])
    R.guard("prov/dao-pack", dao)

    # ------------------------------------------------------------ 5. layout pack/extract
    def layout():
        pk = F.need("ckb_dao_utils::pack_dao_data")
        ex = F.need("ckb_dao_utils::extract_dao_data")

        def ranges(b, pat, param_names):
            out = {}
            for c in b.calls_to(pat):
                # the slice argument comes from an Index(range) call over buf/data: find the Range aggregate feeding it
                srcs = None
                rng = None
                for cc in b.calls:
                    if cc.callee.endswith("index") or cc.callee.endswith("index_mut"):
                        if cc.dest and any("p" in a and a["p"][0] == cc.dest[0] for a in c.args) or b.local_sources(c.args[0]["p"][0] if "p" in c.args[0] else -1) & {"call:" + cc.callee}:
                            pass
                out[c.line] = c
            return out
        # simpler and exact: collect, in source order, (range start literal) of every Range aggregate and the value written/read with it
        def seq(b, io_pat):
            items = []
            rs = []
            for i_, blk in enumerate(b.blocks):
                for st in blk["s"]:
                    rv = st[1]
                    if rv.get("k") == "agg" and str(rv.get("adt", "")).endswith("ops::range::Range"):
                        rs.append((st[2], [o.get("v") for o in rv["ops"]]))
            ios = sorted((c.line, c) for c in b.calls_to(io_pat))
            rs.sort()
            return rs, ios
        prs, pio = seq(pk, r"write_u64$")
        ers, eio = seq(ex, r"read_u64$")
        want_ranges = [["0", "8"], ["8", "16"], ["16", "24"], ["24", "32"]]
        if [r[1] for r in prs] != want_ranges or [r[1] for r in ers] != want_ranges or len(pio) != 4 or len(eio) != 4:
            R.bad("layout/dao/ranges", "pack/extract byte ranges are %s / %s, expected %s" % ([r[1] for r in prs], [r[1] for r in ers], want_ranges), [pk.where(), ex.where()])
            return
        R.ok("layout/dao/ranges", "pack and extract use byte ranges 0..8, 8..16, 16..24, 24..32", [pk.where(), ex.where()])
        # pack: which parameter goes to which range (by line order)
        order = []
        for (ln, c) in pio:
            srcs = pk.operand_sources(c.args[1])
            order.append(sorted(s_.split(":")[1] for s_ in srcs if s_.startswith("param:") and not s_.split(":")[1].isdigit()))
        if order == [["c"], ["ar"], ["s"], ["u"]]:
            R.ok("layout/dao/pack-order", "pack writes C, AR, S, U at offsets 0, 8, 16, 24", [pk.where()])
        else:
            R.bad("layout/dao/pack-order", "pack writes %s at offsets 0,8,16,24, expected c, ar, s, u" % order, [pk.where()])
        # extract: the returned tuple is (ar, c, s, u) = (range 8.., range 0.., 16.., 24..)
        tup = [st[1] for blk in ex.blocks for st in blk["s"] if st[0][0] == 0 and st[1].get("k") == "agg" and st[1].get("ak") == "tuple"]
        if not tup:
            R.bad("layout/dao/extract-order/anchor-lost", "extract's result tuple not found", [ex.where()])
            return
        lines = []
        for o in tup[0]["ops"]:
            # the read_u64 call this component derives from
            srcs_lines = [ln for (ln, c) in eio if c.dest and ("p" in o) and (c.dest[0] == o["p"][0] or ("call:" + c.callee) in ex.operand_sources(o) and any(d[0] == "call" and d[2].line == ln for l_ in [o["p"][0]] for d in _defs_closure(ex, l_)))]
            lines.append(srcs_lines[:1])
        rd_order = [ln for (ln, c) in eio]
        idx = [rd_order.index(l[0]) if l else -1 for l in lines]
        if idx == [1, 0, 2, 3]:
            R.ok("layout/dao/extract-order", "extract returns (AR@8, C@0, S@16, U@24): the inverse of pack", [ex.where()])
        else:
            R.bad("layout/dao/extract-order", "extract's (ar, c, s, u) come from reads #%s (in offset order), expected [1, 0, 2, 3]" % idx, [ex.where()])
    R.guard("layout/dao", layout)

    # ------------------------------------------------------------ 6. verifiers compare exactly
    def verifiers():
        VC = "ckb_verification_contextual"
        E = K.classify_err()
        rv = F.one(VC, r"RewardVerifier::<.*>::verify$")
        K.cmp_table(R, "cmp/reward-amount", rv, [r"call:.*outputs_capacity$"], [r"field:.*BlockReward\.total"], {"<": "ERR", "=": "CONT", ">": "ERR"}, E, what="cellbase capacity must equal the finalised reward")
        K.cmp_table(R, "cmp/reward-lock", rv, [r"call:.*CellOutput::lock$"], [r"call:.*finalize_block_reward$"], {"<": "ERR", "=": "CONT", ">": "ERR"}, E, what="cellbase pays the target's lock")
        fb = F.one(VC, r"VerifyContext::<CS>::finalize_block_reward$")
        if fb.calls_to(r"RewardCalculator::<.*>::block_reward_to_finalize$"):
            R.ok("mustcall/reward-calculator", "the verifier's expected reward comes from RewardCalculator::block_reward_to_finalize(parent)", [fb.where()])
        else:
            R.bad("mustcall/reward-calculator", "finalize_block_reward no longer uses RewardCalculator::block_reward_to_finalize", [fb.where()])
        dv = F.one(VC, r"DaoHeaderVerifier::<.*>::verify$")
        K.cmp_table(R, "cmp/dao-field", dv, [r"call:.*DaoCalculator.*::dao_field$"], [r"call:.*HeaderView::dao$"], {"<": "ERR", "=": "CONT", ">": "ERR"}, E, what="header dao must equal the computed field")
        c = dv.calls_to(r"DaoCalculator.*::dao_field$")
        if c and K.src_match(dv.operand_sources(c[0].args[1]), [r"field:.*DaoHeaderVerifier\.resolved"]) and K.src_match(dv.operand_sources(c[0].args[2]), [r"field:.*DaoHeaderVerifier\.parent"]):
            R.ok("prov/dao-verifier-args", "the dao field is computed over all resolved transactions of the block on its parent", [c[0].where()])
        else:
            R.bad("prov/dao-verifier-args", "DaoHeaderVerifier does not compute the field over (resolved, parent)", [dv.where()])
    R.guard("cmp/verifiers", verifiers)

    # ------------------------------------------------------------ 7. recorded fees come from the verifier
    def fees_recorded():
        io = F.need(VERIFY + "insert_ok_ext")
        cl = [b for b in K.with_nested(io) if b.kind == "Closure"]
        good = False
        for b in cl:
            for blk in b.blocks:
                for st in blk["s"]:
                    rv = st[1]
                    if rv.get("k") == "agg" and rv.get("ak") == "tuple" and len(rv["ops"]) == 2:
                        a, c_ = b.operand_sources(rv["ops"][0]), b.operand_sources(rv["ops"][1])
                        if K.src_match(a, [r"field:.*Completed\.fee"]) and K.src_match(c_, [r"field:.*Completed\.cycles"]) and not K.src_match(a, [r"field:.*Completed\.cycles"]):
                            good = True
        if good:
            R.ok("prov/fees-recorded/map", "(fee, cycles) are taken from Completed.fee / Completed.cycles in that order", [io.where()])
        else:
            R.bad("prov/fees-recorded/map", "insert_ok_ext no longer maps entries to (entry.fee, entry.cycles)", [io.where()])
        wr = {}
        for blk in io.blocks:
            for st in blk["s"]:
                if st[0][1] and st[0][1][-1].split(".")[-1] in ("txs_fees", "cycles") and "BlockExt" in st[0][1][-1]:
                    wr[st[0][1][-1].split(".")[-1]] = io.rvalue_sources(st[1], set())
        if K.src_match(wr.get("txs_fees", set()), [r"idx:#0", r"call:.*unzip$"]) and K.src_match(wr.get("cycles", set()), [r"idx:#1"]) and not K.src_match(wr.get("txs_fees", set()), [r"idx:#1"]):
            R.ok("prov/fees-recorded/fields", "ext.txs_fees <- fees, ext.cycles <- cycles", [io.where()])
        else:
            R.bad("prov/fees-recorded/fields", "ext.txs_fees / ext.cycles are not assigned from the (fees, cycles) unzip in that order", [io.where()])
        rec = F.need(VERIFY + "reconcile_main_chain")
        cs = [c for c in rec.calls_to(VERIFY + r"insert_ok_ext$") if K.src_match(rec.operand_sources(c.args[4]), [r"call:.*ContextualBlockVerifier::<.*>::verify$"])]
        if cs:
            R.ok("prov/fees-recorded/source", "the recorded fees are the contextual verifier's results for that block", [cs[0].where()])
        else:
            R.bad("prov/fees-recorded/source", "insert_ok_ext is not given the contextual verifier's cache entries", [rec.where()])
    R.guard("prov/fees-recorded", fees_recorded)


def _defs_closure(body, local, depth=0, seen=None):
    seen = set() if seen is None else seen
    if local in seen or depth > 8:
        return []
    seen.add(local)
    out = []
    for d in body.defs().get(local, []):
        out.append(d)
        if d[0] == "assign":
            rv = d[3]
            if rv.get("k") in ("use", "cast") and "p" in rv["o"]:
                out += _defs_closure(body, rv["o"]["p"][0], depth + 1, seen)
        else:
            for a in d[2].args:
                if "p" in a:
                    out += _defs_closure(body, a["p"][0], depth + 1, seen)
    return out
