"""C11 - the transaction pool's contents and bookkeeping are mutually consistent (structural necessary conditions)."""
import re

import kinds as K

CRATES = ["ckb_tx_pool"]
EXPLANATION = ("PAIRED/MUSTCALL: add_entry and remove_entry perform all six bookkeeping steps, set_entry and clear keep the counters in step; FIELDCOV: the four weight updaters touch the four namesake "
               "aggregates with the right operator; ORDER/PROV: ancestors' descendant aggregates are updated while the links still exist and over the ancestors of the very entry being removed; "
               "REQERR/CMP: double-spend guard on the input map, the RBF rejection sites, fee < min_replace_fee and replace_count > MAX operators, min_replace_fee covers all evicted transactions plus the increment; "
               "ORDER: in submit_entry the conflict check precedes removal, removal precedes insertion, the size limit follows; CMP: ancestor limit.")
NOT_DECIDED = "that the incrementally maintained aggregates equal a recomputation for every operation sequence (only the update discipline is decided)"

PM = "ckb_tx_pool::component::pool_map::PoolMap::"
RJ = "ckb_types::core::tx_pool::Reject"


def run(F, S, R, tier):
    # ------------------------------------------------------------ 1. add / remove / set / clear
    def paired():
        add = F.need(PM + "add_entry")
        K.mustcall(R, "paired/add", add, [PM + "check_and_record_ancestors$", PM + "record_entry_edges$", PM + "insert_entry$", PM + "record_entry_descendants$",
                                          PM + "track_entry_statics$", PM + "update_stat_for_add_tx$"], S,
                   assume=[(r"Option::<.*>::is_some$", False)], what="adding an entry records ancestors, edges, the entry, descendants, the status counter and the totals")
        K.order_dom(R, "order/add/fallible-first", add, PM + "record_entry_edges$", PM + "insert_entry$", what="the double-spend check (edges) precedes the insertion")
        K.order_dom(R, "order/add/ancestors-first", add, PM + "check_and_record_ancestors$", PM + "record_entry_edges$", what="the ancestor limit is checked before anything is written")
        rm = F.need(PM + "remove_entry")
        cl = [b for b in K.with_nested(rm) if b.calls_to(PM + "remove_entry_edges$")]
        if not cl:
            R.bad("paired/remove/anchor-lost", "remove_entry's closure not found", [rm.where()])
        else:
            K.mustcall(R, "paired/remove", cl[0], [PM + "update_ancestors_index_key$", PM + "update_descendants_index_key$", PM + "remove_entry_edges$", PM + "remove_entry_links$",
                                                   PM + "track_entry_statics$", PM + "update_stat_for_remove_tx$"], S, allow_err_exits=False,
                       what="removing an entry updates both aggregate directions, edges, links, the status counter and the totals")
            K.order_dom(R, "order/remove/aggregates-before-links", cl[0], PM + "update_ancestors_index_key$", PM + "remove_entry_links$", what="aggregates are updated while the links exist")
            K.order_dom(R, "order/remove/desc-aggregates-before-links", cl[0], PM + "update_descendants_index_key$", PM + "remove_entry_links$", what="aggregates are updated while the links exist")
            for c in cl[0].calls_to(PM + "track_entry_statics$"):
                if K.src_match(cl[0].operand_sources(c.args[1]), [r"field:.*PoolEntry\.status"]) and K.src_match(cl[0].operand_sources(c.args[2]), [r"agg:core::option::Option::None"]):
                    R.ok("prov/remove/status", "remove_entry decrements the counter of the entry's own status", [c.where()])
                else:
                    R.bad("prov/remove/status", "remove_entry does not call track_entry_statics(Some(entry.status), None)", [c.where()])
            for c in cl[0].calls_to(PM + "update_stat_for_remove_tx$"):
                if K.src_match(cl[0].operand_sources(c.args[1]), [r"field:.*TxEntry\.size"]) and K.src_match(cl[0].operand_sources(c.args[2]), [r"field:.*TxEntry\.cycles"]):
                    R.ok("prov/remove/totals", "totals shrink by the entry's own size and cycles", [c.where()])
                else:
                    R.bad("prov/remove/totals", "update_stat_for_remove_tx is not given (entry.size, entry.cycles)", [c.where()])
        for c in add.calls_to(PM + "update_stat_for_add_tx$"):
            if K.src_match(add.operand_sources(c.args[1]), [r"field:.*TxEntry\.size"]) and K.src_match(add.operand_sources(c.args[2]), [r"field:.*TxEntry\.cycles"]):
                R.ok("prov/add/totals", "totals grow by the entry's own size and cycles", [c.where()])
            else:
                R.bad("prov/add/totals", "update_stat_for_add_tx is not given (entry.size, entry.cycles)", [c.where()])
        for c in add.calls_to(PM + "track_entry_statics$"):
            if K.src_match(add.operand_sources(c.args[2]), [r"param:status"]) and K.src_match(add.operand_sources(c.args[1]), [r"agg:core::option::Option::None"]):
                R.ok("prov/add/status", "add_entry increments the counter of the inserted status", [c.where()])
            else:
                R.bad("prov/add/status", "add_entry does not call track_entry_statics(None, Some(status))", [c.where()])
        se = F.need(PM + "set_entry")
        K.mustcall(R, "paired/set", se, [PM + "track_entry_statics$"], S, allow_err_exits=False, what="a status change moves the entry between counters")
        for c in se.calls_to(PM + "track_entry_statics$"):
            if K.src_match(se.operand_sources(c.args[1]), [r"vty:core::option::Option<component::pool_map::Status>$"]) and K.src_match(se.operand_sources(c.args[2]), [r"param:status"]):
                R.ok("prov/set/status", "set_entry moves the counter from the old status to the new one", [c.where()])
            else:
                R.bad("prov/set/status", "set_entry does not call track_entry_statics(old_status, Some(status))", [c.where()])
        clr = F.need(PM + "clear")
        assigned = set()
        for blk in clr.blocks:
            for st in blk["s"]:
                for pr in st[0][1]:
                    if "PoolMap." in pr:
                        assigned.add(pr.split(".")[-1])
        want = {"entries", "total_tx_size", "total_tx_cycles", "pending_count", "gap_count", "proposed_count"}
        if want <= assigned and clr.calls_to(r"Edges::clear$") and clr.calls_to(r"TxLinksMap::clear$"):
            R.ok("fieldcov/clear", "clear resets entries, edges, links, the three counters and both totals", [clr.where()])
        else:
            R.bad("fieldcov/clear", "clear resets only %s (+edges/links calls: %s/%s)" % (sorted(assigned), bool(clr.calls_to(r"Edges::clear$")), bool(clr.calls_to(r"TxLinksMap::clear$"))), [clr.where()])
        ec = F.need("ckb_tx_pool::component::edges::Edges::clear")
        n = len(ec.calls_to(r"HashMap::<.*>::clear$"))
        if n >= 3:
            R.ok("fieldcov/edges-clear", "Edges::clear clears inputs, deps and header_deps", [ec.where()])
        else:
            R.bad("fieldcov/edges-clear", "Edges::clear clears %d of its 3 maps" % n, [ec.where()])
        # counters: each status counter has one increment and one decrement site
        ts = F.need(PM + "track_entry_statics")
        for f in ("pending_count", "gap_count", "proposed_count"):
            opsf = []
            for blk in ts.blocks:
                for st in blk["s"]:
                    if st[1].get("k") == "bin" and st[1]["op"].startswith(("Add", "Sub")):
                        a = st[1]["a"]
                        if "p" in a and any(pr.endswith("PoolMap." + f) for pr in a["p"][1]):
                            opsf.append(st[1]["op"][:3])
            if sorted(opsf) == ["Add", "Sub"]:
                R.ok("fieldcov/counters/" + f, "%s has one +1 and one -1 site" % f, [ts.where()])
            else:
                R.bad("fieldcov/counters/" + f, "%s is updated by %s, expected one Add and one Sub" % (f, opsf), [ts.where()])
        for fn, op in (("update_stat_for_add_tx", "checked_add"), ("update_stat_for_remove_tx", "checked_sub")):
            b = F.need(PM + fn)
            cs = b.calls_to(r"::%s$" % op)
            pairs = sorted((K.src_match(b.operand_sources(c.args[0]), [r"field:.*PoolMap\.total_tx_size"]) and K.src_match(b.operand_sources(c.args[1]), [r"param:tx_size"])) or
                           (K.src_match(b.operand_sources(c.args[0]), [r"field:.*PoolMap\.total_tx_cycles"]) and K.src_match(b.operand_sources(c.args[1]), [r"param:cycles"])) for c in cs)
            if len(cs) == 2 and all(pairs):
                R.ok("fieldcov/totals/" + fn, "%s applies %s to (total_tx_size, tx_size) and (total_tx_cycles, cycles)" % (fn, op), [b.where()])
            else:
                R.bad("fieldcov/totals/" + fn, "%s no longer applies %s to both totals with their own operands" % (fn, op), [b.where()])
    R.guard("paired/poolmap", paired)

    # ------------------------------------------------------------ 2. weight updaters
    def weights():
        for fn, side, op in (("add_descendant_weight", "descendants", "saturating_add"), ("sub_descendant_weight", "descendants", "saturating_sub"),
                             ("add_ancestor_weight", "ancestors", "saturating_add"), ("sub_ancestor_weight", "ancestors", "saturating_sub")):
            b = F.need("ckb_tx_pool::component::entry::TxEntry::" + fn)
            got = {}
            for blk in b.blocks:
                t = blk["t"]
            for d_local, ds in b.defs().items():
                pass
            for i_, blk in enumerate(b.blocks):
                t = blk["t"]
                if t.get("k") == "call" and t["dest"][1]:
                    f = t["dest"][1][-1].split(".")[-1]
                    c = K.__dict__["call_matches_any"]
                    got[f] = (t["callee"].split("::")[-1], b.operand_sources(t["args"][0]), b.operand_sources(t["args"][1]) if len(t["args"]) > 1 else set())
                for st in blk["s"]:
                    if st[0][1] and st[0][1][-1].split(".")[-1].startswith(side):
                        f = st[0][1][-1].split(".")[-1]
                        got.setdefault(f, ("assign", b.rvalue_sources(st[1], set()), set()))
            okall = True
            for suffix, src in (("count", r"lit:1$"), ("size", r"field:.*TxEntry\.size"), ("cycles", r"field:.*TxEntry\.cycles"), ("fee", r"field:.*TxEntry\.fee")):
                f = "%s_%s" % (side, suffix)
                g = got.get(f)
                if g is None:
                    okall = False
                    R.bad("fieldcov/weights/%s/%s" % (fn, suffix), "%s does not update %s" % (fn, f), [b.where()])
                    continue
                allsrc = g[1] | g[2]
                opok = (g[0] == op) or K.src_match(allsrc, [r"call:.*::%s$" % op])
                wrong = "saturating_sub" if op == "saturating_add" else "saturating_add"
                if not opok or K.src_match(allsrc, [r"call:.*::%s$" % wrong]) or not K.src_match(allsrc, [src]) or not K.src_match(allsrc, [r"field:.*TxEntry\.%s" % f]):
                    okall = False
                    R.bad("fieldcov/weights/%s/%s" % (fn, suffix), "%s: %s is not `%s.%s(%s)`" % (fn, f, f, op, src), [b.where()])
            if okall:
                R.ok("fieldcov/weights/" + fn, "%s applies %s to %s_{count,size,cycles,fee} with 1 / entry.size / entry.cycles / entry.fee" % (fn, op, side), [b.where()])
        # direction: Remove -> sub, Add -> add, ancestors get descendant weight and vice versa
        for fn, calls in (("update_ancestors_index_key", ("sub_descendant_weight", "add_descendant_weight")), ("update_descendants_index_key", ("sub_ancestor_weight", "add_ancestor_weight"))):
            cands = [b for b in F.bodies_of_crate("ckb_tx_pool") if b.kind == "Closure" and b.calls_to(r"TxEntry::%s$" % calls[0]) and (b.parent or "").endswith("PoolMap::" + fn)]
            if not cands:
                R.bad("sibling/index-key/%s/anchor-lost" % fn, "closure calling %s not found" % calls[0], [])
                continue
            for cb in cands:
                arms = K.enum_arms(cb, "ckb_tx_pool::component::pool_map::EntryOp")
                if not arms:
                    R.bad("sibling/index-key/%s/anchor-lost" % fn, "match on EntryOp not found", [cb.where()])
                    continue
                sw, tbl, other = arms[0]
                good = True
                for var, callee in (("Remove", calls[0]), ("Add", calls[1])):
                    tgt = tbl.get(var, other)
                    stops = [t for v, t in tbl.items() if v != var] + ([other] if var in tbl else [])
                    reach = cb.reachable(tgt, avoid=stops)
                    cs = [c.callee.split("::")[-1] for c in cb.calls if c.bb in reach and "_weight" in c.callee]
                    if cs != [callee]:
                        good = False
                        R.bad("sibling/index-key/%s/%s" % (K.short(cb.parent or cb.path), var), "EntryOp::%s calls %s, expected %s" % (var, cs, callee), [cb.where()])
                if good:
                    R.ok("sibling/index-key/" + K.short(cb.parent or cb.path), "EntryOp::Remove -> %s, EntryOp::Add -> %s" % calls, [cb.where()])
                # the aggregate key is refreshed after the weight change
                keyf = "evict_key" if "descendant" in calls[0] else "score"
                wrote = any(st[0][1] and st[0][1][-1].endswith("PoolEntry." + keyf) for blk in cb.blocks for st in blk["s"]) or any(
                    t.get("k") == "call" and t["dest"][1] and t["dest"][1][-1].endswith("PoolEntry." + keyf) for t in (blk["t"] for blk in cb.blocks))
                if wrote:
                    R.ok("sibling/index-key/%s/key" % K.short(cb.parent or cb.path), "the %s index key is recomputed after the weight change" % keyf, [cb.where()])
                else:
                    R.bad("sibling/index-key/%s/key" % K.short(cb.parent or cb.path), "the %s index key is not recomputed after the weight change" % keyf, [cb.where()])
    R.guard("fieldcov/weights", weights)

    # ------------------------------------------------------------ 3. links still in place, and the right ancestor set
    def links_before_aggregates():
        red = F.need(PM + "remove_entry_and_descendants")
        upd = [c for c in red.calls if K.rx(PM + r"update_\w*ancestors\w*$").search(c.callee)]
        rl = red.calls_to(PM + "remove_entry_links$")
        nxt = [c for c in red.calls if c.callee.endswith("Iterator::next")]
        if not upd or not rl:
            R.bad("order/links-before-aggregates", "remove_entry_and_descendants drops the links of the removed sub-graph without first subtracting it from the surviving ancestors' aggregates", [red.where()])
        else:
            heads = [n for n in nxt if any(red.dominates(n.bb, u.bb) for u in upd)]
            good = heads and all(red.dominates(heads[-1].bb, r_.bb) for r_ in rl) and not any(u.bb in red.reachable(r_.target) for r_ in rl for u in upd if r_.target is not None)
            if good:
                R.ok("order/links-before-aggregates", "all aggregate updates of the removed sub-graph happen in a loop that completes before any link is dropped", [upd[0].where(), rl[0].where()])
            else:
                R.bad("order/links-before-aggregates", "an ancestor-aggregate update can run after links were dropped (it would find no ancestors)", [upd[0].where(), rl[0].where()])
        if upd:
            K.loop_over_all(R, "loop/links-before-aggregates", red, PM + r"update_\w*ancestors\w*$", [r"call:.*calc_descendants$"], what="every removed entry is subtracted from its ancestors")
        K.loop_over_all(R, "loop/remove-links-all", red, PM + "remove_entry_links$", [r"call:.*calc_descendants$"], what="links of every removed entry are dropped")
        rm_calls = [c for b in K.with_nested(red) for c in b.calls_to(PM + "remove_entry$")]
        if rm_calls:
            R.ok("mustcall/remove-all", "every id of the removed sub-graph goes through remove_entry", [rm_calls[0].where()])
        else:
            R.bad("mustcall/remove-all", "remove_entry_and_descendants no longer calls remove_entry for the collected ids", [red.where()])
        # the ancestors whose aggregates shrink are the ancestors of the entry being subtracted (not of some other entry)
        for wfn, rel in (("sub_descendant_weight", "calc_ancestors"), ("add_descendant_weight", "calc_ancestors"), ("sub_ancestor_weight", "calc_descendants"), ("add_ancestor_weight", "calc_descendants")):
            # scope: the two functions that take one entry and walk *its* relatives; pairwise fix-ups (unrelate_entries) walk
            # explicit (ancestor, descendant) pairs and are decided by pair-fixup rules below
            for cb in [b for b in F.bodies_of_crate("ckb_tx_pool") if b.kind == "Closure" and b.calls_to(r"TxEntry::%s$" % wfn) and re.search(r"PoolMap::update_(ancestors|descendants)_index_key$", b.parent or "")]:
                P = F.body(cb.parent, "ckb_tx_pool")
                if P is None:
                    continue
                key = "prov/own-relatives/%s/%s" % (K.short(P.path), wfn)
                rc = P.calls_to(r"TxLinksMap::%s$" % rel)
                if rc and K.src_match(P.operand_sources(rc[0].args[1]), [r"call:.*TxEntry::proposal_short_id$"]) and any(
                        K.src_match(P.operand_sources(rc[0].args[1]), [r"param:%s" % P.local_names().get(i)]) for i in range(1, P.argc + 1) if "TxEntry" in (P.locals[i] if i < len(P.locals) else "")):
                    R.ok(key, "%s walks %s(entry.proposal_short_id()) of the entry whose weight it applies" % (K.short(P.path), rel), [rc[0].where()])
                else:
                    R.bad(key, "%s applies %s over a set that is not %s(entry.proposal_short_id()) of the same entry (caller-supplied or foreign relatives give stale aggregates in joined DAGs)" % (K.short(P.path), wfn, rel), [P.where()])
    R.guard("order/links-before-aggregates", links_before_aggregates)

    # ------------------------------------------------------------ 3b. pairwise fix-ups (defects F8, F9, F10)
    def reach_bodies(root, depth=2):
        out, frontier, seen = [], [root], {root.path}
        for _ in range(depth + 1):
            nxt = []
            for b in frontier:
                for x in K.with_nested(b):
                    out.append(x)
                    for c in x.calls:
                        for cb in S.callee_bodies(c):
                            if cb.path not in seen and "ckb_tx_pool::component::pool_map" in cb.path:
                                seen.add(cb.path)
                                nxt.append(cb)
            frontier = nxt
        return out

    def pair_fixups():
        # F9: an entry removed alone (remove_entry) may sit between pooled ancestors and pooled descendants; the pairs that were related
        # only through it must be subtracted from each other. Necessary shape: one traversal that applies BOTH sub_descendant_weight
        # (to an ancestor) and sub_ancestor_weight (to a descendant); the two single-entry walkers only ever apply one of them.
        rm = F.need(PM + "remove_entry")
        both = [b for b in {K.short(x.root or x.path): x for x in reach_bodies(rm)}.values()]
        roots = {}
        for x in reach_bodies(rm):
            r = x.root or x.path
            roots.setdefault(r, set())
            for c in x.calls:
                m = re.search(r"TxEntry::(sub_descendant_weight|sub_ancestor_weight)$", c.callee)
                if m:
                    roots[r].add(m.group(1))
        R.sites += len(roots)
        hit = [r for r, v in roots.items() if len(v) == 2]
        if hit:
            R.ok("paired/remove-alone/pair-fixup", "remove_entry reaches a traversal (%s) that subtracts ancestors and descendants from each other" % K.short(hit[0]), [rm.where()])
        else:
            R.bad("paired/remove-alone/pair-fixup", "remove_entry removes an entry that can have both pooled ancestors and pooled descendants, but nothing un-relates those pairs: "
                  "the descendants keep counting ancestors they are no longer linked to (stale ancestors_*/descendants_*, score and evict keys)", [rm.where()])
        # F10: an entry added while its children are already pooled (re-add after a reorg): its descendants become descendants of its
        # ancestors. Same necessary shape on the add side.
        red = F.need(PM + "record_entry_descendants")
        roots = {}
        for x in reach_bodies(red):
            r = x.root or x.path
            roots.setdefault(r, set())
            for c in x.calls:
                m = re.search(r"TxEntry::(add_descendant_weight|add_ancestor_weight)$", c.callee)
                if m:
                    roots[r].add(m.group(1))
        R.sites += len(roots)
        hit = [r for r, v in roots.items() if len(v) == 2]
        if hit:
            R.ok("paired/late-parent/pair-fixup", "record_entry_descendants reaches a traversal (%s) that adds the late parent's ancestors and descendants to each other" % K.short(hit[0]), [red.where()])
        else:
            R.bad("paired/late-parent/pair-fixup", "record_entry_descendants links already-pooled children to a newly added parent and adds the parent's weight to them, but the parent's own "
                  "descendants_* and the (ancestor of parent, descendant of parent) pairs are never updated, and the ancestor limit of the children is not re-checked", [red.where()])
        # F8: in the ancestor-limit eviction of check_and_record_ancestors every entry removed by remove_entry_and_descendants must leave `parents`
        ca = F.need(PM + "check_and_record_ancestors")
        rmd = ca.calls_to(PM + "remove_entry_and_descendants$")
        prs = [c for c in ca.calls_to(r"HashSet::<.*>::remove$")]
        R.sites += len(rmd) + len(prs)
        if not rmd:
            R.ok("prov/evict-parents", "check_and_record_ancestors evicts nothing", [ca.where()])
        elif prs and all(K.origin_sites(ca, c.args[1]) & {x.bb for x in rmd} for c in prs):
            R.ok("prov/evict-parents", "every entry removed by the ancestor-limit eviction (the evicted referrer and its descendants) is dropped from the newcomer's parents", [c.where() for c in prs])
        else:
            R.bad("prov/evict-parents", "the ancestor-limit eviction removes an entry together with its descendants but only forgets the evicted id itself: a descendant that is "
                  "also a parent of the newcomer stays in `parents` (panic `inconsistent pool` in _record_ancestors, or a pooled transaction spending an evicted output)", [c.where() for c in (prs or rmd)])
    R.guard("paired/pair-fixups", pair_fixups)

    # ------------------------------------------------------------ 4. conflicts and RBF
    def conflict():
        ii = F.need("ckb_tx_pool::component::edges::Edges::insert_input")
        arms = K.enum_arms(ii, "std::collections::hash::map::Entry")
        if not arms or "Occupied" not in arms[0][1]:
            R.bad("mustfail/double-spend/anchor-lost", "match on the inputs entry not found in Edges::insert_input", [ii.where()])
        else:
            reach = ii.reachable(arms[0][1]["Occupied"], avoid=ii.error_exit_blocks())
            if reach & set(ii.return_blocks()):
                R.bad("mustfail/double-spend", "an out-point already spent by a pooled transaction can be recorded again", [ii.where()])
            else:
                R.ok("mustfail/double-spend", "an occupied out-point is rejected: no two pooled transactions spend the same cell", [ii.where()])
        ree = F.need(PM + "record_entry_edges")
        K.loop_over_all(R, "loop/record-inputs", ree, r"Edges::insert_input$", [r"call:.*input_pts_iter$"], what="every input of the entry is recorded")
        c = ree.calls_to(r"Edges::insert_input$")
        if c:
            nxt = ree.term(c[0].target) if c[0].target is not None else {}
            if nxt.get("k") == "call" and (nxt.get("callee") or "").endswith("Try::branch"):
                R.ok("mustfail/double-spend/propagated", "the double-spend rejection is propagated", [c[0].where()])
            else:
                R.bad("mustfail/double-spend/propagated", "record_entry_edges ignores insert_input's rejection", [c[0].where()])
        rbf = F.need("ckb_tx_pool::pool::TxPool::check_rbf")
        K.reqerr(R, "reqerr/rbf", K.with_nested(rbf), {(RJ, "RBFRejected"): 7}, what="RBF rule rejection")
        E = K.classify_err()
        K.cmp_table(R, "cmp/rbf-fee", rbf, [r"field:.*TxEntry\.fee"], [r"call:.*calculate_min_replace_fee$"], {"<": "ERR", "=": "CONT", ">": "CONT"}, E, what="replacement must pay at least the replaced fees plus the increment")
        K.cmp_table(R, "cmp/rbf-count", rbf, [r"call:.*calc_descendants$", r"call:.*::len$"], [r"const:.*MAX_REPLACEMENT_CANDIDATES"], {"<": "CONT", "=": "CONT", ">": "ERR"}, E,
                    what="at most MAX_REPLACEMENT_CANDIDATES transactions replaced", arith=(["lit:0", "lit:1", "op:add", "op:add"], []))
        mr = rbf.calls_to(r"TxPool::calculate_min_replace_fee$")
        if mr and K.src_match(rbf.operand_sources(mr[0].args[1]), [r"call:.*calc_descendants$", r"call:.*Extend::extend$|call:.*::extend$"]) and K.src_match(rbf.operand_sources(mr[0].args[2]), [r"field:.*TxEntry\.size"]):
            R.ok("prov/rbf-fee-scope", "min_replace_fee is computed over the conflicts AND their descendants (everything process_rbf evicts)", [mr[0].where()])
        else:
            R.bad("prov/rbf-fee-scope", "min_replace_fee does not cover the descendants of the replaced transactions: a replacement can pay less than what it evicts", [rbf.where()])
        mf = F.need("ckb_tx_pool::pool::TxPool::calculate_min_replace_fee")
        srcs = set()
        for d in mf.defs().get(0, []):
            srcs |= mf.rvalue_sources(d[3], set()) if d[0] == "assign" else set()
        allcalls = {c.callee for b in K.with_nested(mf) for c in b.calls}
        flds = {s for b in K.with_nested(mf) for s in b.facts.closure_calls(b.path, "ckb_tx_pool") if s.startswith("field:")}
        if any(x.endswith("FeeRate::fee") for x in allcalls) and sum(1 for b in K.with_nested(mf) for c in b.calls_to(r"safe_add$")) >= 2 and any("TxEntry.fee" in f for f in flds | {s for b in K.with_nested(mf) for blk in b.blocks for st in blk["s"] for s in b.rvalue_sources(st[1], set())}):
            R.ok("prov/rbf-min-fee", "min_replace_fee = sum(replaced fees) + min_rbf_rate.fee(size)", [mf.where()])
        else:
            R.bad("prov/rbf-min-fee", "calculate_min_replace_fee is no longer sum(replaced fees) + min_rbf_rate.fee(size)", [mf.where()])
        fr = mf.calls_to(r"FeeRate::fee$")
        if fr and K.src_match(mf.operand_sources(fr[0].args[0]), [r"field:.*min_rbf_rate"]) and K.src_match(mf.operand_sources(fr[0].args[1]), [r"param:size"]):
            R.ok("prov/rbf-increment", "the increment is config.min_rbf_rate.fee(size of the replacement)", [fr[0].where()])
        else:
            R.bad("prov/rbf-increment", "the RBF increment is not min_rbf_rate.fee(size)", [mf.where()])
        fc = F.need(PM + "find_conflict_tx")
        if K.src_match(set().union(*[b.facts.closure_calls(b.path, "ckb_tx_pool") for b in K.with_nested(fc)] + [set("call:" + c.callee for c in fc.calls)]), [r"call:.*Edges::get_input_ref$", r"call:.*input_pts_iter$"]):
            R.ok("prov/conflict-set", "conflicts = pooled spenders of the new transaction's inputs", [fc.where()])
        else:
            R.bad("prov/conflict-set", "find_conflict_tx no longer looks up every input in the pooled input map", [fc.where()])
    R.guard("reqerr/conflict", conflict)

    # ------------------------------------------------------------ 5. submit_entry critical section
    def submit():
        se = F.one("ckb_tx_pool", r"TxPoolService>::submit_entry$")
        cl = [b for b in K.with_nested(se) if b.calls_to(r"process::_submit_entry$")]
        if not cl:
            R.bad("order/rbf/anchor-lost", "submit_entry write-lock closure not found", [se.where()])
            return
        b = cl[0]
        K.order_dom(R, "order/rbf/remove-before-insert", b, r"TxPoolService>?::process_rbf$", r"process::_submit_entry$", what="replaced transactions are removed before the replacement is inserted")
        K.order_dom(R, "order/rbf/limit-after-insert", b, r"process::_submit_entry$", r"TxPool::limit_size$", what="the size limit is enforced after the insertion")
        pr_ = b.calls_to(r"TxPoolService>?::process_rbf$")
        if pr_ and K.src_match(b.operand_sources(pr_[0].args[3]), [r"call:.*TxPool::check_rbf$"]):
            R.ok("prov/rbf/conflicts", "process_rbf removes exactly the conflicts check_rbf approved", [pr_[0].where()])
        else:
            R.bad("prov/rbf/conflicts", "process_rbf is not given check_rbf's conflict set", [b.where()])
        er = b.calls_to(r"TxPool::enable_rbf$")
        if er:
            K.mustcall(R, "mustcall/rbf/check", b, [r"TxPool::check_rbf$"], S, assume=[(r"TxPool::enable_rbf$", True)], ends={c.bb for c in pr_} or None, what="with RBF on, check_rbf runs before anything is removed")
            K.mustcall(R, "mustcall/rbf/off", b, [r"PoolMap::find_conflict_outpoint$"], S, assume=[(r"TxPool::enable_rbf$", False)], ends={c.bb for c in b.calls_to(r"process::_submit_entry$")},
                       what="with RBF off, a conflicting transaction is rejected")
        prb = F.one("ckb_tx_pool", r"TxPoolService>::process_rbf$")
        rem = [c for x in K.with_nested(prb) for c in x.calls_to(PM + "remove_entry_and_descendants$")]
        rc = prb.calls_to(r"TxPool::record_conflict$")
        if rem and rc:
            R.ok("mustcall/rbf/process", "process_rbf removes each conflict with its descendants and records them as conflicts", [rem[0].where()])
        else:
            R.bad("mustcall/rbf/process", "process_rbf no longer removes conflicts via remove_entry_and_descendants / records them", [prb.where()])
        K.must_fail(R, "x", prb) if False else None
    R.guard("order/rbf", submit)

    # ------------------------------------------------------------ 6. ancestor limit, eviction
    def limits():
        ca = F.need(PM + "check_and_record_ancestors")
        K.reqerr(R, "reqerr/ancestors", [ca], {(RJ, "ExceededMaximumAncestorsCount"): 1}, what="ancestor limit")
        sites = K.find_cmp(ca, [r"call:.*HashSet::<.*>::len$"], [r"field:.*PoolMap\.max_ancestors_count"])
        les = [s for s, sw in sites if (K.SWAP[s.op] if sw else s.op) == "le"]
        gts = [s for s, sw in sites if (K.SWAP[s.op] if sw else s.op) == "gt"]
        if len(les) >= 2 and gts:
            R.ok("cmp/ancestors", "entry recorded when ancestors_count <= max; eviction loop runs while ancestors_count > max", [s.where() for s in les])
        else:
            R.bad("cmp/ancestors", "ancestor-limit comparisons changed (found ops %s)" % [s.op for s, _ in sites], [ca.where()])
        K.mustcall(R, "mustcall/ancestors/record", ca, [PM + "_record_ancestors$"], S, what="every accepted entry gets its ancestors recorded")
        ls = F.need("ckb_tx_pool::pool::TxPool::limit_size")
        K.cmp_table(R, "cmp/limit-size", ls, [r"field:.*PoolMap\.total_tx_size"], [r"field:.*max_tx_pool_size"], {"<": "STOP", "=": "STOP", ">": "EVICT"},
                    K.classify_reach([PM + "remove_entry_and_descendants$"], "EVICT", "STOP"), what="evict while total size > limit")
        ne = [c for x in K.with_nested(ls) for c in x.calls_to(PM + "next_evict_entry$")]
        order = []
        for c in sorted(ne, key=lambda c: c.line):
            order.append(str(c.args[1].get("c") or c.body.operand_sources(c.args[1])))
        if len(ne) == 3:
            R.ok("prov/limit-size/order", "eviction prefers Pending, then Gap, then Proposed", [c.where() for c in ne])
        else:
            R.bad("prov/limit-size/order", "limit_size no longer consults the three statuses for eviction", [ls.where()])
        rex = F.need("ckb_tx_pool::pool::TxPool::remove_expired")
        found = False
        for x in K.with_nested(rex):
            for s, sw in K.find_cmp(x, [r"field:.*TxEntry\.timestamp", r"expiry"], [r"now_ms|call:.*unix_time_as_millis$"]):
                found = True
                tr = K.cmp_truth(s, sw)
                if tr == (True, False, False):
                    R.ok("cmp/expiry", "expired iff expiry + timestamp < now", [s.where()])
                else:
                    R.bad("cmp/expiry", "expiry predicate has truth %s" % (tr,), [s.where()])
        if not found:
            R.bad("cmp/expiry/anchor-lost", "expiry comparison not found", [rex.where()])
    R.guard("cmp/limits", limits)
    import common as _common
    _common.effects(R, F, ['pool'])

    # F30 (fixed) / F31 (known finding): the members of a dep group are dependencies as well. The pool registers its deps edges with the
    # expanded set (ResolvedTransaction::related_dep_out_points); every other place that reasons about "what this transaction depends on" has to use
    # the expanded set too: (F30) the RBF rule "the replacement must not depend on what it replaces" - a group cell on chain can name the output
    # of a pooled transaction; (F31) the parents of a new entry (get_tx_ancenstors), otherwise a transaction that depends on a pooled one through
    # a group member is a child in `edges` but not in `links`, and stays behind when its parent leaves.
    def dep_scope():
        rbf = F.need("ckb_tx_pool::pool::TxPool::check_rbf")
        R.fn(rbf)
        direct = [c for b in K.with_nested(rbf) for c in b.calls if re.search(r"TransactionView::cell_deps_iter$|::cell_deps$", c.callee)]
        expanded = any(re.search(r"ResolvedTransaction\.resolved_cell_deps$|resolved_dep_groups$", x) for b in K.with_nested(rbf) for l in range(len(b.rec.get("locals") or [])) for x in b.local_sources(l) if x.startswith("field:")) \
            or any(re.search(r"related_dep_out_points$", c.callee) for b in K.with_nested(rbf) for c in b.calls)
        R.sites += len(direct)
        if not direct and not expanded:
            R.bad("prov/rbf-dep-scope/anchor-lost", "check_rbf no longer looks at the replacement's cell deps", [rbf.where()])
        elif expanded:
            R.ok("prov/rbf-dep-scope", "check_rbf compares the conflicts' outputs with the direct cell deps and the resolved (expanded) ones", [rbf.where()])
        else:
            R.bad("prov/rbf-dep-scope", "check_rbf walks the direct cell deps only: a dep group on chain whose member is an output of a replaced transaction passes, the replacement "
                  "is pooled with a dependency that resolves nowhere (F30)", [direct[0].where()])
        ed = [b for b in F.bodies_of_crate("ckb_tx_pool") if re.search(r"pool_map::PoolMap::record_entry_edges$", b.path)]
        an = [b for b in F.bodies_of_crate("ckb_tx_pool") if re.search(r"pool_map::PoolMap::get_tx_ancenstors$", b.path)]
        if not ed or not an:
            R.bad("sibling/link-directions/anchor-lost", "record_entry_edges / get_tx_ancenstors not found", [])
            return

        def uses_expanded(b):
            return any(re.search(r"related_dep_out_points$", c.callee) for x in K.with_nested(b) for c in x.calls)
        R.fn(ed[0]); R.fn(an[0])
        if uses_expanded(ed[0]) and not uses_expanded(an[0]):
            R.bad("sibling/link-directions/get_tx_ancenstors", "the deps edges are registered with the expanded dep set (related_dep_out_points) but the parents of a new entry are looked up through "
                  "the direct cell deps only: a dependency through a dep-group member makes the entry a child in `edges` and not in `links` (F31)", [an[0].where()])
        else:
            R.ok("sibling/link-directions/get_tx_ancenstors", "edges and parent lookup use the same dep set", [an[0].where()])
    R.guard("prov/rbf-dep-scope", dep_scope)

    # the per-out-point reader sets of `edges.deps`: a reader is taken out of its set unconditionally, and the record goes only when the set is
    # empty AFTER that removal. (Deciding on the size before the removal - "the last reader takes the record with it" - drops the other reader's
    # record when the same (out-point, reader) pair is deleted twice: a dep group plus a direct dep on one of its members; round-3 seed C11-seed5.)
    def reader_sets():
        b = [x for x in F.bodies_of_crate("ckb_tx_pool") if re.search(r"component::edges::Edges::delete_txid_by_dep$", x.path)]
        if not b:
            R.bad("order/reader-set-removal/anchor-lost", "Edges::delete_txid_by_dep not found", [])
            return
        b = b[0]
        R.fn(b)
        set_rm = [c for c in b.calls if re.search(r"HashSet::<.*>::remove$", c.callee)]
        rec_rm = [c for c in b.calls if re.search(r"OccupiedEntry::<.*>::remove(_entry)?$", c.callee)]
        empt = [c for c in b.calls if re.search(r"HashSet::<.*>::is_empty$", c.callee)]
        R.sites += len(set_rm) + len(rec_rm) + len(empt)
        if not set_rm or not rec_rm:
            R.bad("order/reader-set-removal/anchor-lost", "delete_txid_by_dep no longer removes the id from the set / the record from the map in this form", [b.where()])
        elif all(any(b.dominates(s_.bb, r_.bb) for s_ in set_rm) for r_ in rec_rm) and empt and all(any(b.dominates(s_.bb, e.bb) for s_ in set_rm) and any(b.dominates(e.bb, r_.bb) for r_ in rec_rm) for e in empt):
            R.ok("order/reader-set-removal", "the reader leaves its set first; the record is dropped only when the set is empty after that", [set_rm[0].where()])
        else:
            R.bad("order/reader-set-removal", "delete_txid_by_dep decides whether to drop the record before (or without) removing the reader from the set, or removes the reader only on one side: "
                  "deleting the same (out-point, reader) pair twice drops the other readers' record", [rec_rm[0].where()])
    R.guard("order/reader-set-removal", reader_sets)
