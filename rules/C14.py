"""C14 - caches never change a verdict or an answer (structural necessary conditions)."""
import re

import kinds as K

CRATES = ["ckb_verification_contextual", "ckb_tx_pool", "ckb_store", "ckb_verification"]
EXPLANATION = ("MUSTCALL: on a verification-cache hit the context-dependent checks (maturity + since) still run, in the block verifier and in the pool; the dao-script-size check is outside the hit/miss split; "
               "PROV: every lookup/insert of the verification cache is keyed by the transaction's witness hash and stores the Completed result of a full verification; "
               "store read caches are read-through only: each LRU is filled from the row just read from its own column under the lookup key, hit and fill use the same LRU; "
               "WHOCALLS: nothing outside the ChainStore accessors touches a StoreCache field.")
NOT_DECIDED = "equality of two whole runs with and without caches (needs execution); stale rows of deleted invalid side blocks in the header cache are an observation, not armed"

VCACHE = K.rx(r"LruCache::<.*>::(peek|put|get|get_mut|contains)$")

STORE_TABLE = {
    "get_block_header": ("headers", "COLUMN_BLOCK_HEADER"),
    "get_block_txs_hashes": ("block_tx_hashes", "COLUMN_BLOCK_BODY"),
    "get_block_proposal_txs_ids": ("block_proposals", "COLUMN_BLOCK_PROPOSAL_IDS"),
    "get_block_uncles": ("block_uncles", "COLUMN_BLOCK_UNCLE"),
    "get_block_extension": ("block_extensions", "COLUMN_BLOCK_EXTENSION"),
    "get_cell_data": ("cell_data", "COLUMN_CELL_DATA"),
    "get_cell_data_hash": ("cell_data_hash", "COLUMN_CELL_DATA_HASH"),
}


def is_vcache_call(c):
    return VCACHE.search(c.callee) and c.atys and ("ckb_verification::cache::Completed" in c.atys[0] or "TxVerificationCache" in c.atys[0])


def run(F, S, R, tier):
    # ---------------------------------------------------------------- 1. hit path still runs the context checks
    def hit_path():
        btv = F.one("ckb_verification_contextual", r"BlockTxsVerifier::<.*>::verify$")
        cl = [b for b in K.with_nested(btv) if b.kind == "Closure" and b.calls_to(r"ContextualTransactionVerifier::<.*>::verify$")]
        if not cl:
            R.bad("mustcall/hit-path/block/anchor-lost", "per-transaction closure not found", [btv.where()])
        else:
            c = cl[0]
            arms = K.enum_arms(c, "core::option::Option", [r"call:.*HashMap::<.*>::get$"])
            if not arms or "Some" not in arms[0][1]:
                R.bad("mustcall/hit-path/block/anchor-lost", "hit/miss match not found", [c.where()])
            else:
                K.mustcall(R, "mustcall/hit-path/block", c, [r"TimeRelativeTransactionVerifier::<.*>::verify$"], S, start=arms[0][1]["Some"], allow_err_exits=False,
                           what="a cached script verdict does not skip maturity/since in block verification")
            ds = [x for b in K.with_nested(c) for x in b.calls_to(r"DaoScriptSizeVerifier::<.*>::verify$")]
            at = [x for x in c.calls_to(r"Result::<.*>::and_then$")]
            if ds and at:
                R.ok("mustcall/dao-size-outside-split", "the dao script-size check is chained after both the hit and the miss arm", [ds[0].where()])
            else:
                R.bad("mustcall/dao-size-outside-split", "DaoScriptSizeVerifier is no longer chained after the hit/miss split", [c.where()])
            key = c.calls_to(r"HashMap::<.*>::get$")
            if key and K.src_match(c.operand_sources(key[0].args[1]), [r"call:.*TransactionView::witness_hash$"]):
                R.ok("prov/key/block-lookup", "the block verifier looks the fetched cache up by witness hash", [key[0].where()])
            else:
                R.bad("prov/key/block-lookup", "the block verifier's cache lookup is not keyed by the witness hash: a transaction with different witnesses would reuse a cached script verdict", [c.where()])
            # what is written back is (witness hash, completed-of-this-tx)
            tups = [st[1] for blk in c.blocks for st in blk["s"] if st[1].get("k") == "agg" and st[1].get("ak") == "tuple" and len(st[1].get("ops", [])) == 2]
            mapc = [b for b in K.with_nested(c) if b is not c]
            good = False
            for b in mapc:
                for blk in b.blocks:
                    for st in blk["s"]:
                        rv = st[1]
                        if rv.get("k") == "agg" and rv.get("ak") == "tuple" and len(rv.get("ops", [])) == 2:
                            a0 = b.operand_sources(rv["ops"][0])
                            if K.src_match(a0, [r"call:.*TransactionView::witness_hash$"]):
                                good = True
            if good:
                R.ok("prov/key/block-writeback", "results are written back under the witness hash", [c.where()])
            else:
                R.bad("prov/key/block-writeback", "verification results are not written back under the witness hash", [c.where()])
        vr = F.need("ckb_tx_pool::util::verify_rtx")
        co = [b for b in K.with_nested(vr) if b.calls_to(r"TimeRelativeTransactionVerifier::<.*>::verify$") or b.calls_to(r"ContextualTransactionVerifier::<.*>::verify_with_pause$")]
        if not co:
            R.bad("mustcall/hit-path/pool/anchor-lost", "verify_rtx coroutine not found", [vr.where()])
        else:
            b = co[0]
            arms = [a for a in K.enum_arms(b, "core::option::Option") if "Some" in a[1]]
            hit = None
            for a in arms:
                dl = b.blocks[a[0]]["t"]["d"]["p"][0]
                for d in b.defs().get(dl, []):
                    if d[0] == "assign" and d[3].get("k") == "discr" and K.src_match(b.operand_sources({"p": d[3]["p"]}), [r"cache_entry"]):
                        hit = a
            if hit is None:
                R.bad("mustcall/hit-path/pool/anchor-lost", "match on cache_entry not found in verify_rtx", [b.where()])
            else:
                K.mustcall(R, "mustcall/hit-path/pool", b, [r"TimeRelativeTransactionVerifier::<.*>::verify$"], S, start=hit[1]["Some"], allow_err_exits=False,
                           what="a cached script verdict does not skip maturity/since in the pool, whatever the transaction looks like")
                miss = hit[1].get("None", hit[2])
                K.mustcall(R, "mustcall/miss-path/pool", b, [[r"ContextualTransactionVerifier::<.*>::verify$", r"ContextualTransactionVerifier::<.*>::verify_with_pause$"]], S, start=miss, allow_err_exits=False,
                           what="without a cached verdict the full contextual verifier runs")
    R.guard("mustcall/hit-path", hit_path)

    # ---------------------------------------------------------------- 2. verification cache keys
    def keys():
        n = 0
        for crate in ("ckb_verification_contextual", "ckb_tx_pool", "ckb_chain", "ckb_shared", "ckb_rpc", "ckb_sync"):
            for b in F.bodies_of_crate(crate):
                if "tests" in b.path or (b.file or "").endswith("tests.rs"):
                    continue
                for c in b.calls:
                    if not is_vcache_call(c):
                        continue
                    n += 1
                    R.fn(b)
                    srcs = b.operand_sources(c.args[1]) if len(c.args) > 1 else set()
                    key = "prov/key/%s" % K.short(b.root or b.path)
                    if K.src_match(srcs, [r"call:.*TransactionView::witness_hash$"]):
                        R.ok(key, "%s keys the verification cache by TransactionView::witness_hash()" % K.short(b.path), [c.where()])
                    elif K.src_match(srcs, [r"^param:\d+$|^upvar:"]) and "update_cache" in (b.root or b.path):
                        # update_cache(ret): the (key, value) pairs were built by the verifier closure (checked by prov/key/block-writeback)
                        R.ok(key, "%s inserts the (witness hash, result) pairs built by the verifier" % K.short(b.path), [c.where()])
                    else:
                        R.bad(key, "%s accesses the verification cache with a key that is not a witness hash (%s): identical-content-including-witnesses is the reuse condition" % (
                            b.path, sorted(s_ for s_ in srcs if s_.startswith("call:"))[:3]), [c.where()])
        R.sites += n
        if n < 4:
            R.bad("prov/key/anchor-lost", "expected >=4 verification-cache accesses, found %d" % n, [])
        # pool: the value cached is the result of a full verification of this transaction, stored only on a miss
        pt = F.one("ckb_tx_pool", r"TxPoolService>::_process_tx$")
        co = [b for b in K.with_nested(pt) if b.calls_to(r"ckb_tx_pool::util::verify_rtx$")]
        if co:
            b = co[0]
            wh = b.calls_to(r"TransactionView::witness_hash$")
            put_cl = [x for x in K.with_nested(b) if any(is_vcache_call(c) and c.callee.endswith("::put") for c in x.calls)]
            if wh and put_cl:
                pc = [c for c in put_cl[0].calls if is_vcache_call(c) and c.callee.endswith("::put")][0]
                ks, vs = put_cl[0].operand_sources(pc.args[1]), put_cl[0].operand_sources(pc.args[2])
                if K.src_match(ks, [r"call:.*TransactionView::witness_hash$|vty:ckb_gen_types::generated::blockchain::Byte32$"]) and K.src_match(vs, [r"vty:ckb_verification::cache::Completed$"]):
                    R.ok("prov/pool-put", "the pool caches (witness hash -> verified result of this transaction)", [pc.where()])
                else:
                    R.bad("prov/pool-put", "the pool's cache insert is not (wtx_hash, verified)", [pc.where()])
            else:
                R.bad("prov/pool-put/anchor-lost", "pool cache insert not found", [b.where()])
            fc = F.one("ckb_tx_pool", r"TxPoolService>::fetch_tx_verify_cache$")
            cs = [c for x in K.with_nested(fc) for c in x.calls if is_vcache_call(c)]
            if cs and K.src_match(cs[0].body.operand_sources(cs[0].args[1]), [r"call:.*TransactionView::witness_hash$"]):
                R.ok("prov/pool-peek", "the pool looks the cache up by witness hash", [cs[0].where()])
            else:
                R.bad("prov/pool-peek", "fetch_tx_verify_cache does not look up by witness hash", [fc.where()])
    R.guard("prov/key", keys)

    # ---------------------------------------------------------------- 3. store caches are read-through
    def read_through():
        for fn, (lru, col) in STORE_TABLE.items():
            b = F.need("ckb_store::store::ChainStore::" + fn)
            bodies = K.with_nested(b)
            gets = [(x, c) for x in bodies for c in x.calls if K.rx(r"LruCache::<.*>::get$").search(c.callee)]
            puts = [(x, c) for x in bodies for c in x.calls if K.rx(r"LruCache::<.*>::put$").search(c.callee)]
            reads = [(x, c) for x in bodies for c in x.calls_to(r"ChainStore::(get|get_iter)$")]
            key = "prov/read-through/" + fn
            if not gets or not puts or not reads:
                R.bad(key + "/anchor-lost", "%s: cache get/put or column read not found" % fn, [b.where()])
                continue
            R.sites += len(gets) + len(puts) + len(reads)
            ok = True
            for x, c in gets + puts:
                if not K.src_match(x.operand_sources(c.args[0]), [r"field:.*StoreCache\.%s$" % lru]):
                    ok = False
                    R.bad(key + "/lru", "%s uses another LRU than StoreCache.%s" % (fn, lru), [c.where()])
            cols = {K.const_of_operand(x, c.args[1]) for x, c in reads}
            cols = {k.split("::")[-1] for k in cols if k}
            if cols != {col}:
                ok = False
                R.bad(key + "/column", "%s reads %s, its cache belongs to %s" % (fn, sorted(cols), col), [b.where()])
            for x, c in puts:
                ks = x.operand_sources(c.args[1])
                vs = x.operand_sources(c.args[2])
                if not K.src_match(ks, [r"^param:2$|call:.*to_cell_key$|vty:&ckb_gen_types::generated::blockchain::Byte32$|vty:alloc::vec::Vec<u8>$"]):
                    ok = False
                    R.bad(key + "/key", "%s fills the cache under a key that is not the lookup key" % fn, [c.where()])
                if not (K.src_match(vs, [r"call:.*ChainStore::(get|get_iter)$"]) or K.src_match(vs, [r"^param:\d+$|^upvar:|^vty:"])):
                    ok = False
                    R.bad(key + "/value", "%s fills the cache with a value that is not the row just read" % fn, [c.where()])
            if ok:
                R.ok(key, "%s: StoreCache.%s is consulted and filled read-through from %s under the lookup key" % (fn, lru, col), [b.where()])
    R.guard("prov/read-through", read_through)

    # ---------------------------------------------------------------- 4. nobody else touches the cache fields
    def who():
        n = 0
        for crate in F.crates():
            if crate in ("ckb_test", "ckb_benches"):
                continue
            for b in F.bodies_of_crate(crate):
                if b.generated:
                    continue
                hits = []
                for blk in b.blocks:
                    for st in blk["s"]:
                        rv = st[1]
                        pls = [st[0]] + ([rv["p"]] if rv.get("p") else []) + [o["p"] for o in ([rv.get("o")] if rv.get("o") else []) + rv.get("ops", []) if o and "p" in o]
                        for pl in pls:
                            for pr in pl[1]:
                                if ".ckb_store::cache::StoreCache." in pr:
                                    hits.append(pr.split(".")[-1])
                if not hits:
                    continue
                n += 1
                root = b.root or b.path
                if K.rx(r"^ckb_store::store::ChainStore::|^ckb_store::cache::|^ckb_store::<cache::StoreCache").search(root):
                    continue
                R.bad("whocalls/cache-fields/%s" % K.short(root), "%s accesses StoreCache.%s directly: store caches must only be filled read-through by the ChainStore accessors" % (b.path, sorted(set(hits))), [b.where()])
        R.sites += n
        if n < 7:
            R.bad("whocalls/cache-fields/anchor-lost", "expected >=7 bodies touching StoreCache fields, found %d" % n, [])
        else:
            R.ok("whocalls/cache-fields", "%d bodies touch StoreCache fields, all of them ChainStore accessors or the cache constructor" % n, [])
        K.whocalls(R, "whocalls/system-cell", F, r"OnceCell::<.*>::set$|OnceLock::<.*>::set$", {r"setup_system_cell_cache": "the only initialiser of SYSTEM_CELL", r"^(?!ckb_types::core::cell)": "other OnceCells"}, crates=["ckb_types"], min_sites=1,
                   what="system cell cache initialiser")
    R.guard("whocalls/cache-fields", who)

    # ---------------------------------------------------------------- 5. F27 (fixed): a deleted block must leave the block-keyed caches
    def invalidate():
        """The read caches are shared by every store view and are not transactional. StoreTransaction::delete_block (invalid block, expired
        orphan) used to leave the header / uncles / proposals / tx-hashes / extension entries behind: get_block(hash) answered Some(header, EMPTY
        body) and block_exists true for a block that is gone (a queued second copy of an invalid block was then 'verified' as an empty block and
        the verify thread died). Decided: (a) StoreCache has one function that pops the hash from EVERY LRU keyed by a block hash (Byte32), a new
        block-keyed cache must be added there; (b) delete_block evicts; (c) commit evicts again what the transaction deleted (a reader may have
        refilled the cache between the deletion and the commit). The cell-data caches are keyed by out-point and hold immutable content; whether
        a cell is live is decided by get_cell, which is not cached (reviewed exception)."""
        adt = F.adt("ckb_store::cache::StoreCache")
        if not adt:
            R.bad("invalidate/anchor-lost", "StoreCache not found", [])
            return
        block_keyed = [f["n"] for f in adt["variants"][0]["f"] if re.search(r"LruCache<ckb_gen_types::generated::blockchain::Byte32,", str(f["ty"]))]
        ev = [b for b in F.bodies_of_crate("ckb_store") if re.search(r"cache::StoreCache::evict_block$", b.path)]
        R.sites += len(block_keyed)
        if not ev:
            R.bad("invalidate/evict-all/anchor-lost", "StoreCache::evict_block not found", [])
            return
        e = ev[0]
        R.fn(e)
        popped = set()
        for c in e.calls_to(r"LruCache::<.*>::pop$"):
            for x in e.operand_sources(c.args[0]):
                m = re.search(r"StoreCache\.(\w+)$", x)
                if m:
                    popped.add(m.group(1))
        missing = sorted(set(block_keyed) - popped)
        if len(block_keyed) < 5:
            R.bad("invalidate/evict-all/anchor-lost", "expected >=5 block-keyed LRUs in StoreCache, found %s" % block_keyed, [])
        elif missing:
            R.bad("invalidate/evict-all", "StoreCache::evict_block does not pop the block-keyed cache(s) %s: a deleted block keeps being answered from there" % missing, [e.where()])
        else:
            R.ok("invalidate/evict-all", "evict_block pops all %d block-keyed LRUs (%s)" % (len(block_keyed), ", ".join(sorted(block_keyed))), [e.where()])
        db = F.need("ckb_store::transaction::StoreTransaction::delete_block")
        K.mustcall(R, "invalidate/delete-block", db, [r"cache::StoreCache::evict_block$"], S, what="a deleted block leaves the store caches (F27)")
        cm = F.need("ckb_store::transaction::StoreTransaction::commit")
        inner = cm.calls_to(r"RocksDBTransaction::commit$")
        evs = [c for b in [cm] + list(cm.nested()) for c in b.calls_to(r"cache::StoreCache::evict_block$")]
        R.sites += len(inner) + len(evs)
        if inner and evs and all(c.body is not cm or cm.dominates(inner[0].bb, c.bb) for c in evs):
            R.ok("invalidate/commit", "the blocks a transaction deleted are evicted again once the deletion is committed", [evs[0].where()])
        else:
            R.bad("invalidate/commit", "StoreTransaction::commit no longer evicts the deleted blocks after the commit: a reader that refilled the cache between delete_block and commit keeps the block alive", [cm.where()])
    R.guard("invalidate", invalidate)

    # ---------------------------------------------------------------- 6. the set of store caches itself
    def cache_fields():
        """Every StoreCache field was reviewed: what it is keyed by, which column it mirrors, why a stale entry cannot change an answer (immutable
        content under a content hash, evicted on delete). A NEW cache (round-3 seed C19-seed5: chain-root MMR nodes by position, which a reorg
        rewrites) has none of that: it is reported until it is reviewed and added here together with its read-through / invalidation rows."""
        adt = F.adt("ckb_store::cache::StoreCache")
        if not adt:
            R.bad("fieldcov/store-cache-fields/anchor-lost", "StoreCache not found", [])
            return
        have = {f["n"]: str(f["ty"]) for f in adt["variants"][0]["f"]}
        want = {"headers", "cell_data", "cell_data_hash", "block_proposals", "block_tx_hashes", "block_uncles", "block_extensions"}
        R.sites += len(have)
        new = sorted(set(have) - want)
        neg = sorted(n for n, ty in have.items() if n in ("headers", "block_proposals", "block_tx_hashes", "block_uncles") and re.search(r"LruCache<[^,]+, core::option::Option<", ty))
        if new:
            R.bad("fieldcov/store-cache-fields", "StoreCache has new cache(s) %s: nothing is known about how their entries are invalidated (a cached row that can be rewritten or deleted changes answers)" % new, ["store/src/cache.rs"])
        elif neg:
            R.bad("fieldcov/store-cache-fields", "StoreCache.%s now caches misses (Option values): a remembered miss must be forgotten when the row is COMMITTED, not when it is written" % neg, ["store/src/cache.rs"])
        else:
            R.ok("fieldcov/store-cache-fields", "StoreCache has exactly the %d reviewed caches" % len(want), ["store/src/cache.rs"])
    R.guard("fieldcov/store-cache-fields", cache_fields)

    # the cycles of a block and the fees / cycles recorded in its ext cover EVERY non-cellbase transaction, whether its result came from the cache
    # or was computed (round-2 seed C14-seed4 filtered the cache-served entries out before the sum): between the per-transaction results and the
    # sum there is no narrowing step but the cellbase `skip(1)`
    def block_sum():
        v = [b for b in F.bodies_of_crate("ckb_verification_contextual") if re.search(r"BlockTxsVerifier::<.*>::verify$", b.path)]
        if not v:
            R.bad("prov/block-sum/anchor-lost", "BlockTxsVerifier::verify not found", [])
            return
        v = v[0]
        R.fn(v)
        sums = [c for c in v.calls if re.search(r"Iterator::sum$", c.callee)]
        narrow = [c for x in [v] for c in x.calls if re.search(r"Iterator::(filter|filter_map|take|take_while|skip_while|step_by)$|::(retain|truncate|dedup\w*)$", c.callee)]
        R.sites += len(sums) + len(narrow)
        if not sums:
            R.bad("prov/block-sum/anchor-lost", "the cycle sum not found in BlockTxsVerifier::verify", [v.where()])
        elif narrow:
            R.bad("prov/block-sum", "BlockTxsVerifier::verify narrows the per-transaction results (%s) before summing / recording them: cache-served transactions must count like computed ones" % narrow[0].callee.split("::")[-1], [narrow[0].where()])
        else:
            R.ok("prov/block-sum", "the block's cycle sum and recorded entries cover every non-cellbase transaction", [sums[0].where()])
    R.guard("prov/block-sum", block_sum)
