"""C05 - script verdict and cycle count do not depend on chunking (structural necessary conditions)."""
import json
import os
import re

import kinds as K
import tables as T

CRATES = ["ckb_script"]
EXPLANATION = ("FIELDCOV: Scheduler::suspend writes every field of FullSuspendedState from its namesake scheduler field and Scheduler::resume restores every scheduler field from the captured state "
               "(frozen table of fields that are rebuilt instead), so no part of the multi-VM state is lost at a chunk boundary; TABLE: the five verification entry points, the three group runners and the "
               "scheduler's run / iterate_outer / iterate_inner / consume_cycles / load_vm_program / suspend_vm / resume_vm are compared, decision by decision and argument form by argument form, with a frozen reviewed table "
               "(rules/C05.tables.json): budget handed to each group = limit - consumed, group cursor nth(current) / skip(current+1), TransactionState::new(state, index, cycles of finished groups, budget), "
               "checked accumulation, Suspended or max < cycles in `complete` is ExceededMaximumCycles, CyclesExceeded|Pause are the only suspending errors, exit code 0 is the only success, "
               "tracked program pages keyed by (data piece, offset) of the location; SIBLING: the three group runners special-case the type-id script under the same two tests.")
NOT_DECIDED = "that ckb-vm execution itself is invariant under split points, pause timing and budgets (needs execution of the VM); scheduling of pipe IO across chunk boundaries"

TABLES = os.path.join(os.path.dirname(os.path.abspath(__file__)), "C05.tables.json")
FLOOR = 26
SCHED = "ckb_script::scheduler::Scheduler"
FSS = "ckb_script::types::FullSuspendedState"

# FullSuspendedState field -> scheduler field(s) it must be written from in suspend()
CAPTURE = {"total_cycles": ["total_cycles"], "iteration_cycles": ["iteration_cycles"], "next_vm_id": ["next_vm_id"], "next_fd_slot": ["next_fd_slot"], "vms": ["states", "suspended"],
           "fds": ["fds"], "inherited_fd": ["inherited_fd"], "terminated_vms": ["terminated_vms"], "instantiated_ids": ["instantiated"]}
# Scheduler field -> captured field it must be restored from in resume(); None = deliberately rebuilt (reason)
RESTORE = {"total_cycles": "total_cycles", "next_vm_id": "next_vm_id", "next_fd_slot": "next_fd_slot", "states": "vms", "fds": "fds",
           "inherited_fd": "inherited_fd", "suspended": "vms", "terminated_vms": "terminated_vms",
           "iteration_cycles": None,   # assigned after ensure_vms_instantiated from the captured value (rule prov/pending-cycles/restore); the struct-literal value is overwritten
           "sg_data": None,            # rebuilt from the transaction by the caller
           "syscall_generator": None,  # code, not state
           "syscall_context": None,    # caller-provided
           "instantiated": None,       # re-instantiated from instantiated_ids right after construction
           "message_box": None,        # asserted empty in suspend()
           "root_vm_args": None}       # only read before the root VM boots


def fieldcov(F, S, R):
    sus = F.one("ckb_script", r"^ckb_script::scheduler::Scheduler::<DL, V, M>::suspend$")
    res = F.one("ckb_script", r"^ckb_script::scheduler::Scheduler::<DL, V, M>::resume$")
    R.fn(sus)
    R.fn(res)
    fss = F.adt(FSS)
    sch = F.adt(SCHED)
    if not fss or not sch:
        R.bad("fieldcov/anchor-lost", "FullSuspendedState / Scheduler type not found", [])
        return
    ff = [f["n"] for v in fss["variants"] for f in v["f"]]
    sf = [f["n"] for v in sch["variants"] for f in v["f"]]
    for f in ff:
        if f not in CAPTURE:
            R.bad("fieldcov/capture/%s" % f, "FullSuspendedState has a field `%s` the capture table does not know: review suspend()/resume()" % f, [sus.where()])
    for f in sf:
        if f not in RESTORE:
            R.bad("fieldcov/restore/%s" % f, "Scheduler has a field `%s` the restore table does not know: is it captured by suspend() and restored by resume()?" % f, [res.where()])
    aggs = K.agg_sites(sus, FSS)
    if len(aggs) != 1:
        R.bad("fieldcov/capture/anchor-lost", "suspend() constructs FullSuspendedState %d times" % len(aggs), [sus.where()])
    else:
        bb, rv, ln = aggs[0]
        for f, srcf in CAPTURE.items():
            R.sites += 1
            srcs = K.agg_field_sources(sus, rv, f)
            key = "fieldcov/capture/%s" % f
            if srcs is None:
                R.bad(key, "suspend() does not set FullSuspendedState.%s" % f, ["%s:%s" % (sus.file, ln)])
                continue
            miss = [x for x in srcf if not any(re.search(r"^field:.*Scheduler\.%s$" % x, s) for s in srcs)]
            if miss:
                R.bad(key, "FullSuspendedState.%s is not captured from Scheduler.%s: that part of the state is lost at a chunk boundary" % (f, miss), ["%s:%s" % (sus.file, ln)])
            else:
                R.ok(key, "FullSuspendedState.%s <- Scheduler.%s" % (f, "+".join(srcf)), ["%s:%s" % (sus.file, ln)])
    aggs = K.agg_sites(res, SCHED)
    if len(aggs) != 1:
        R.bad("fieldcov/restore/anchor-lost", "resume() constructs Scheduler %d times" % len(aggs), [res.where()])
    else:
        bb, rv, ln = aggs[0]
        for f, cap in RESTORE.items():
            if cap is None:
                continue
            R.sites += 1
            srcs = K.agg_field_sources(res, rv, f)
            key = "fieldcov/restore/%s" % f
            if srcs is None or not any(re.search(r"^field:.*FullSuspendedState\.%s$" % cap, s) for s in srcs):
                R.bad(key, "Scheduler.%s is not restored from the captured `%s`: a resumed run continues from different state than the uninterrupted one" % (f, cap), ["%s:%s" % (res.file, ln)])
            elif any(K.NARROWING.search(s) for s in srcs):
                R.bad(key, "Scheduler.%s is restored through a narrowing adaptor" % f, ["%s:%s" % (res.file, ln)])
            else:
                R.ok(key, "Scheduler.%s <- captured %s" % (f, cap), ["%s:%s" % (res.file, ln)])
    ens = res.calls_to(r"::ensure_vms_instantiated$")
    if ens and K.src_match(res.operand_sources(ens[0].args[1]), [r"field:.*FullSuspendedState\.instantiated_ids$"]):
        R.ok("fieldcov/restore/instantiated", "the VMs that were instantiated at suspension are instantiated again", [ens[0].where()])
    else:
        R.bad("fieldcov/restore/instantiated", "resume() no longer re-instantiates the captured instantiated_ids", [res.where()])
    # every FullSuspendedState field is read by resume
    used = set()
    for b in K.with_nested(res):
        for blk in b.blocks:
            for st in blk["s"]:
                for m in re.finditer(r"FullSuspendedState\.(\w+)", json.dumps(st[1])):
                    used.add(m.group(1))
            for m in re.finditer(r"FullSuspendedState\.(\w+)", json.dumps(blk["t"])):
                used.add(m.group(1))
    for f in ff:
        if f == "iteration_cycles":
            continue    # see RESTORE
        R.sites += 1
        if f in used:
            R.ok("fieldcov/read/%s" % f, "resume() reads the captured %s" % f, [res.where()])
        else:
            R.bad("fieldcov/read/%s" % f, "resume() never reads the captured `%s`" % f, [res.where()])


def sibling_type_id(F, S, R):
    with open(TABLES) as fh:
        specs = {s["id"]: s for s in json.load(fh)}
    seen = {}
    for sid in ("verify_script_group", "verify_group_with_chunk", "verify_group_with_signal"):
        b = T.locate(F, specs[sid])
        R.fn(b)
        ds = [h for h, _ in K.decision_sites(b, ignore=T.IGNORE) if h[0] == "eq"]
        seen[sid] = sorted((h[0], h[1], h[2]) for h in ds)
        R.sites += len(ds)
    vals = list(seen.values())
    if all(v == vals[0] for v in vals) and len(vals[0]) == 2:
        R.ok("sibling/type-id", "the three group runners recognise the type-id system script by the same two tests (code hash, hash type)", [])
    else:
        R.bad("sibling/type-id", "the group runners no longer recognise the type-id script identically: %s" % {k: [list(x[1]) for x in v] for k, v in seen.items()}, [])


def state_cycles(F, S, R):
    """TransactionState.current_cycles handed to the next chunk is the accumulator of the groups' *total* cycles
    (ChunkState::Completed.0), not the per-call consumption counter (Completed.1) that only bounds this call's budget."""
    for fn in ("resumable_verify", "resume_from_state"):
        b = F.one("ckb_script", r"^ckb_script::verify::TransactionScriptsVerifier::<DL, V, M>::%s$" % fn)
        R.fn(b)
        news = b.calls_to(r"types::TransactionState::new$")
        adds = b.calls_to(r"verify::wrapping_cycles_add$")
        R.sites += len(news) + len(adds)
        if not news or not adds:
            R.bad("prov/state-cycles/%s/anchor-lost" % fn, "TransactionState::new / wrapping_cycles_add not found in %s" % fn, [b.where()])
            continue
        for c in news:
            if "p" not in c.args[2]:
                R.bad("prov/state-cycles/%s" % fn, "the captured cycle count is a constant", [c.where()])
                continue
            acc = T.root_local(b, c.args[2])
            ups = [a for a in adds if "p" in a.args[0] and T.root_local(b, a.args[0]) == acc]
            fed = [K.form(b, a.args[1]) for a in ups]
            if any("fld:Completed.0" in f for f in fed):
                R.ok("prov/state-cycles/%s" % fn, "the captured cycle count accumulates the finished groups' total cycles", [c.where()])
            else:
                R.bad("prov/state-cycles/%s" % fn, "the cycle count captured for the next chunk never accumulates a group's total cycles (ChunkState::Completed.0): chunked totals differ from the one-go total" , [c.where()])
        # the budget counter bounds this call only: it is fed by Completed.1
        subs = b.calls_to(r"::checked_sub$")
        for c in subs:
            if "p" not in c.args[1]:
                continue
            acc = T.root_local(b, c.args[1])
            ups = [a for a in adds if "p" in a.args[0] and T.root_local(b, a.args[0]) == acc]
            fed = [K.form(b, a.args[1]) for a in ups]
            if ups and all("fld:Completed.1" in f for f in fed):
                R.ok("prov/budget-counter/%s" % fn, "the remaining budget is limit minus the cycles consumed in this call", [c.where()])
            else:
                R.bad("prov/budget-counter/%s" % fn, "the remaining budget is no longer limit minus the cycles consumed in this call (Completed.1)", [c.where()])


def pending_io_and_cycles(F, S, R):
    """F7 (fixed 4bbff63). (a) iterate_outer must run process_io before it reports an exhausted budget: the iteration in which a VM
    yields on a pipe syscall may overshoot the chunk limit after the VM's blocked state was recorded; returning first suspends a matched
    reader/writer pair both blocked and the resumed run reports a bogus deadlock. (b) suspend() captures the pending iteration cycles
    before suspend_vm charges for suspension; (c) resume() ends with the captured value, not zero."""
    io = F.one("ckb_script", r"^ckb_script::scheduler::Scheduler::<DL, V, M>::iterate_outer$")
    R.fn(io)
    pio = io.calls_to(r"Scheduler::<.*>::process_io$")
    sub = io.calls_to(r"::checked_sub$")
    oks = [c for c in io.calls if re.search(r"Option::<.*>::ok_or(_else)?$", c.callee)]
    R.sites += len(pio) + len(sub) + len(oks)
    if not pio or not sub:
        R.bad("order/io-before-limit-error/anchor-lost", "process_io / the budget subtraction not found in iterate_outer", [io.where()])
    else:
        budget = [c for c in oks if K.origin_sites(io, c.args[0]) & {x.bb for x in sub}]
        if not budget:
            R.bad("order/io-before-limit-error/anchor-lost", "the exhausted-budget error (checked_sub(..).ok_or(..)) not found in iterate_outer", [io.where()])
        elif all(any(io.dominates(p.bb, c.bb) for p in pio) for c in budget):
            R.ok("order/io-before-limit-error", "pending pipe IO is processed before an exhausted chunk budget is reported", [c.where() for c in budget])
        else:
            R.bad("order/io-before-limit-error", "iterate_outer reports the exhausted budget before process_io: a VM that yielded on a pipe syscall while overshooting the limit is "
                  "suspended with its matched peer still blocked, and the resumed run deadlocks or totals differently", [c.where() for c in budget])
    sus = F.one("ckb_script", r"^ckb_script::scheduler::Scheduler::<DL, V, M>::suspend$")
    R.fn(sus)
    aggs = K.agg_sites(sus, FSS)
    sv = sus.calls_to(r"Scheduler::<.*>::suspend_vm$")
    if aggs and sv:
        bb, rv, ln = aggs[0]
        i = (rv.get("fields") or []).index("iteration_cycles") if "iteration_cycles" in (rv.get("fields") or []) else None
        op = rv["ops"][i] if i is not None else None
        reads = []
        if op is not None and "p" in op:
            l = T.root_local(sus, op)
            for d in sus.defs().get(l, []):
                if d[0] == "assign" and "Scheduler.iteration_cycles" in json.dumps(d[3]):
                    reads.append(d[1])
        R.sites += 1
        if reads and all(sus.dominates(r_, c.bb) for r_ in reads for c in sv):
            R.ok("prov/pending-cycles/capture", "the pending iteration cycles are captured before suspend_vm charges for suspending the VMs", ["%s:%s" % (sus.file, ln)])
        else:
            R.bad("prov/pending-cycles/capture", "FullSuspendedState.iteration_cycles is read after the suspend_vm loop: it includes the (consensus-free) suspension charges instead of the cycles pending from process_io",
                  ["%s:%s" % (sus.file, ln)])
    else:
        R.bad("prov/pending-cycles/capture/anchor-lost", "FullSuspendedState construction / suspend_vm calls not found in suspend()", [sus.where()])
    res = F.one("ckb_script", r"^ckb_script::scheduler::Scheduler::<DL, V, M>::resume$")
    R.fn(res)
    ws = K.field_writes(res, "Scheduler.iteration_cycles")
    ens = res.calls_to(r"::ensure_vms_instantiated$")
    late = [w for w in ws if ens and res.dominates(ens[0].bb, w[0])]
    R.sites += len(ws)
    if not ens:
        R.bad("prov/pending-cycles/restore/anchor-lost", "ensure_vms_instantiated not found in resume()", [res.where()])
    elif late and all(any(re.search(r"field:.*FullSuspendedState\.iteration_cycles$", x) for x in w[1]) for w in late):
        R.ok("prov/pending-cycles/restore", "after re-instantiating the VMs resume() sets the iteration counter to the captured pending cycles (re-instantiation itself stays free)", [res.where(late[0][0])])
    else:
        R.bad("prov/pending-cycles/restore", "resume() does not end with the captured pending iteration cycles (zeroed or keeps the re-instantiation charges): cycles charged by process_io in the "
              "last iteration of a chunk are lost or suspension is charged", [res.where(late[0][0]) if late else res.where()])


def resumed_budgets(F, S, R):
    """F22 / F23 (fixed) and F24 (known finding). The limit handed to Scheduler::run / chunk_run is relative to THAT call. Whoever resumes a
    script group that already consumed cycles must hand it what is left of the transaction's limit:
    (F22) complete(): max_cycles - cycles of finished groups - total_cycles kept in the suspended state;
    (F23) chunk_run_with_signal, Resume arm: max_cycles - scheduler.consumed_cycles();
    (F24) load_data_as_code must register with the snapshot context only the bytes that came from the cell (content_size), not the zero padding up
          to memory_size: after suspend/resume the padding pages are reloaded from the cell (different memory, or MemPageUnalignedAccess -> panic)."""
    cp = F.one("ckb_script", r"^ckb_script::verify::TransactionScriptsVerifier::<DL, V, M>::complete$")
    R.fn(cp)
    bodies = [cp] + list(cp.nested())
    vg = [c for c in cp.calls_to(r"::verify_group_with_chunk$") if K.src_match(cp.operand_sources(c.args[3]), [r"field:.*TransactionState\.state$|field:.*\.state$"]) and not K.src_match(cp.operand_sources(c.args[3]), [r"agg:core::option::Option::None"])]
    R.sites += len(vg)
    if not vg:
        R.bad("prov/complete-budget/anchor-lost", "the call that resumes the suspended group (verify_group_with_chunk(.., &snap.state)) not found in complete()", [cp.where()])
    else:
        srcs = set(cp.operand_sources(vg[0].args[2]))
        # the value read from FullSuspendedState.total_cycles (directly, or inside a closure handed to map_or / map / and_then whose result is
        # among the sources of the budget) must flow into the budget
        feeds = any(re.search(r"FullSuspendedState\.total_cycles$", x) for x in srcs)
        for c2 in cp.calls:
            if ("call:" + c2.callee) not in srcs and not (c2.res and ("call:" + c2.res) in srcs):
                continue
            for cl in S.closure_args(c2):
                if any(re.search(r"FullSuspendedState\.total_cycles$", x) for x in _all_field_reads(cl)):
                    feeds = True
        subs = [c for b in bodies for c in b.calls if c.callee.endswith("checked_sub") or c.callee.endswith("saturating_sub")]
        if feeds and len(subs) >= 2 and K.src_match(srcs, [r"call:.*checked_sub$|call:.*and_then"]):
            R.ok("prov/complete-budget", "the suspended group is resumed with max_cycles minus the finished groups' cycles minus the cycles it consumed before the suspension", [vg[0].where()])
        else:
            R.bad("prov/complete-budget", "complete() resumes the suspended group without deducting the cycles it consumed before the suspension (FullSuspendedState.total_cycles): "
                  "a budget smaller than the uninterrupted cost succeeds (F22)", [vg[0].where()])
    # F23
    sg = [b for b in F.bodies_of_crate("ckb_script") if re.search(r"TransactionScriptsVerifier::<DL, V, M>::chunk_run_with_signal", b.path)]
    runs = []
    for b in sg:
        for c in b.calls_to(r"scheduler::Scheduler::<.*>::run$"):
            runs.append((b, c))
    R.sites += len(runs)
    if len(runs) < 1:
        R.bad("prov/signal-budget/anchor-lost", "Scheduler::run (called once per Resume command, in a loop) not found in chunk_run_with_signal", [sg[0].where()] if sg else [])
    else:
        ok_n = 0
        for b, c in runs:
            R.fn(b)
            srcs = set(b.operand_sources(c.args[1]))
            if K.src_match(srcs, [r"call:.*Scheduler::<.*>::consumed_cycles$"]) or [1 for x in b.calls_to(r"Scheduler::<.*>::consumed_cycles$") if b.dominates(x.bb, c.bb) and [y for y in b.calls_to(r"::checked_sub$") if b.dominates(y.bb, c.bb)]]:
                ok_n += 1
        if ok_n == len(runs):
            R.ok("prov/signal-budget", "every Scheduler::run (one per Resume command) is given max_cycles minus what the scheduler already consumed", [c.where() for _, c in runs])
        else:
            R.bad("prov/signal-budget", "a resumed Scheduler::run in chunk_run_with_signal is handed the full max_cycles again: a transaction paused k times may spend (k+1) x max_cycles (F23)", [c.where() for _, c in runs])
    # F24
    lc = F.one("ckb_script", r"syscalls::load_cell_data::LoadCellData::<DL>::load_data_as_code$")
    R.fn(lc)
    tp = [c for b in [lc] + list(lc.nested()) for c in b.calls if re.search(r"::track_pages$", c.callee)]
    R.sites += len(tp)
    if not tp:
        R.bad("prov/track-pages-content/anchor-lost", "track_pages not found in load_data_as_code", [lc.where()])
    else:
        c = tp[0]
        names = {str(x) for x in c.body.operand_sources(c.args[3])}
        if any(x.endswith("memory_size") for x in names) and not any(x.endswith("content_size") for x in names):
            R.bad("prov/track-pages-content", "load_data_as_code registers memory_size bytes as cell content with the snapshot context although only content_size bytes came from the cell; "
                  "the zero padding is reloaded from the cell after a suspend/resume (F24)", [c.where()])
        else:
            R.ok("prov/track-pages-content", "only the bytes taken from the cell are registered as cell content", [c.where()])


def _all_field_reads(b):
    out = set()
    for l in range(len(b.rec.get("locals") or [])):
        try:
            out |= {x[6:] for x in b.local_sources(l) if x.startswith("field:")}
        except Exception:
            pass
    return out


def run(F, S, R, tier):
    R.guard("prov/state-cycles", lambda: state_cycles(F, S, R))
    R.guard("prov/resumed-budgets", lambda: resumed_budgets(F, S, R))
    R.guard("order/io-before-limit-error", lambda: pending_io_and_cycles(F, S, R))
    R.guard("fieldcov", lambda: fieldcov(F, S, R))
    n = T.run_tables(R, "table", F, TABLES)
    if n < FLOOR:
        R.bad("table/floor", "only %d tables loaded (floor %d)" % (n, FLOOR), [])
    R.guard("sibling/type-id", lambda: sibling_type_id(F, S, R))
