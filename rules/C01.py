"""C01 - tip is the head of the heaviest valid chain (structural necessary conditions)."""
import kinds as K
from common import VERIFY

CRATES = ["ckb_chain", "ckb_shared", "ckb_store"]
EXPLANATION = ("CMP: the reorg decision is a strict `>` between (parent total difficulty + block difficulty) and the snapshot's total difficulty, and that same value is what is stored and published; "
               "REQERR/CMP: blocks on an invalid parent are refused before any transaction is opened; MUSTCALL: a failed verification always deletes the block, marks it and answers the submitter, "
               "every path clears the pending mark; the orphan broker routes every block to exactly one of {verify, invalid, orphan pool} and always re-scans the leaders; "
               "ORDER: the pending mark is set before the block is handed to the verify thread, a block is only routed after it was stored; CMP: orphan retention horizon.")
NOT_DECIDED = "that these conditions suffice for 'maximal among all fully valid chains' over every block tree, arrival permutation and three-thread interleaving (a reachability property of the running system)"

OB = "ckb_chain::orphan_broker::OrphanBroker::"
ST = "ckb_store::transaction::StoreTransaction::"


def run(F, S, R, tier):
    vb = F.need(VERIFY + "verify_block")
    A_WORK = [r"field:.*BlockExt\.total_difficulty", r"call:.*HeaderView::difficulty$", r"call:.*Add.*::add$"]
    B_TIP = [r"call:ckb_snapshot::Snapshot::total_difficulty$"]

    # 1. the reorg decision
    R.guard("cmp/reorg", lambda: K.cmp_table(
        R, "cmp/reorg", vb, A_WORK, B_TIP, {"<": "STAY", "=": "STAY", ">": "REORG"},
        K.classify_reach([ST + "insert_tip_header$"], "REORG", "STAY"), what="tip moves only to a strictly heavier chain", min_sites=1, arith=(["op:add"], [])))
    R.guard("cmp/reorg-publish", lambda: K.cmp_table(
        R, "cmp/reorg-publish", vb, A_WORK, B_TIP, {"<": "KEEP", "=": "KEEP", ">": "NEWTIP"},
        K.classify_reach([r"Shared::new_snapshot$"], "NEWTIP", "KEEP"), what="a new tip snapshot is published only for a strictly heavier chain", min_sites=1, arith=(["op:add"], [])))
    R.guard("cmp/reorg-side", lambda: K.cmp_table(
        R, "cmp/reorg-side", vb, A_WORK, B_TIP, {"<": "SIDE", "=": "SIDE", ">": "MAIN"},
        K.classify_reach([ST + "insert_block_ext$"], "SIDE", "MAIN"), what="a not-heavier block is stored as an unverified side block (ext without verdict)", min_sites=1, arith=(["op:add"], [])))

    # 2. the value compared is the value stored and published
    def work():
        aggs = K.agg_sites(vb, "ckb_types::core::extras::BlockExt")
        R.sites += len(aggs)
        if not aggs:
            R.bad("prov/work/anchor-lost", "verify_block no longer builds a BlockExt", [vb.where()])
            return
        for bb, rv, ln in aggs:
            srcs = K.agg_field_sources(vb, rv, "total_difficulty") or set()
            if K.src_match(srcs, A_WORK):
                R.ok("prov/work/ext", "BlockExt.total_difficulty = parent total difficulty + own difficulty", ["%s:%d" % (vb.file, ln)])
            else:
                R.bad("prov/work/ext", "BlockExt.total_difficulty stored for the new block is not parent_ext.total_difficulty + header.difficulty()", ["%s:%d" % (vb.file, ln)])
            v = K.agg_field_sources(vb, rv, "verified") or set()
            if not K.src_match(v, [r"agg:core::option::Option::None"]):
                R.bad("prov/work/unverified", "a freshly received block's ext must start with verified = None", ["%s:%d" % (vb.file, ln)])
            else:
                R.ok("prov/work/unverified", "new ext starts unverified", ["%s:%d" % (vb.file, ln)])
        ns = vb.calls_to(r"Shared::new_snapshot$")
        R.sites += len(ns)
        if not ns:
            R.bad("prov/work/snapshot/anchor-lost", "no Shared::new_snapshot call in verify_block", [vb.where()])
        for c in ns:
            if K.src_match(vb.operand_sources(c.args[2]), A_WORK):
                R.ok("prov/work/snapshot", "the published snapshot's total difficulty is the compared value", [c.where()])
            else:
                R.bad("prov/work/snapshot", "the total difficulty handed to new_snapshot is not the value compared in the reorg decision", [c.where()])
            if K.src_match(vb.operand_sources(c.args[1]), [r"call:.*BlockView::header$"]) and K.src_match(vb.operand_sources(c.args[1]), [r"param:block"]):
                R.ok("prov/work/snapshot-tip", "the published tip header is the imported block's header", [c.where()])
            else:
                R.bad("prov/work/snapshot-tip", "the tip header handed to new_snapshot is not the imported block's header", [c.where()])
        # parent ext comes from the block's own parent hash
        ge = [c for c in vb.calls_to(r"ChainStore::get_block_ext$") if K.src_match(vb.operand_sources(c.args[1]), [r"call:.*BlockView::parent_hash$"])]
        if ge:
            R.ok("prov/work/parent", "parent work is read from the ext of block.parent_hash()", [ge[0].where()])
        else:
            R.bad("prov/work/parent", "parent ext is not looked up by block.parent_hash()", [vb.where()])
    R.guard("prov/work", work)

    # 3. invalid parents are refused before a transaction is opened
    def invalid_parent():
        begin = vb.calls_to(r"ChainDB::begin_transaction$")
        for key, A, B in (("reqerr/invalid-parent/ext", [r"field:.*BlockExt\.verified"], [r"agg:core::option::Option::Some"]),
                          ("reqerr/invalid-parent/status", [r"call:.*Shared::get_block_status$"], [r"const:.*BlockStatus::BLOCK_INVALID"])):
            ok = K.cmp_table(R, key, vb, A, B, {"<": "CONT", "=": "ERR", ">": "CONT"}, K.classify_err(), what="block on a failed parent is refused", min_sites=1)
            if ok:
                for site, sw in K.find_cmp(vb, A, B):
                    if begin and not all(vb.dominates(site.bb, c.bb) for c in begin):
                        R.bad(key + "/before-txn", "the invalid-parent test does not dominate begin_transaction", [site.where()])
        K.reqerr(R, "reqerr/invalid-parent", [vb], {("ckb_verification::error::InvalidParentError", "InvalidParentError"): 1}, what="InvalidParentError rejection")
    R.guard("reqerr/invalid-parent", invalid_parent)

    # 4. failure clean-up in the verify thread
    def cleanup():
        cu = F.need(VERIFY + "consume_unverified_blocks")
        R.fn(cu)
        arms = K.enum_arms(cu, "core::result::Result", [r"call:.*verify_block$"])
        if not arms or "Err" not in arms[0][1]:
            R.bad("mustcall/fail-cleanup/anchor-lost", "no match on the verify_block result in consume_unverified_blocks", [cu.where()])
            return
        err_start = arms[0][1]["Err"]
        K.mustcall(R, "mustcall/fail-cleanup", cu, [VERIFY + "delete_unverified_block$", [r"Shared::insert_block_status$", r"Shared::remove_block_status$"],
                                                    r"Shared::set_unverified_tip$"],
                   S, start=err_start, allow_err_exits=False, what="failed verification: block deleted, status decided, unverified tip reset")
        K.mustcall(R, "mustcall/fail-cleanup/mark-invalid", cu, [r"Shared::insert_block_status$"], S, start=err_start, allow_err_exits=False,
                   assume=[(r"ckb_error::is_internal_db_error$", False)], what="a consensus failure marks the block BLOCK_INVALID")
        for c in cu.calls_to(r"Shared::insert_block_status$"):
            if not K.src_match(cu.operand_sources(c.args[2]), [r"const:.*BlockStatus::BLOCK_INVALID"]):
                R.bad("mustcall/fail-cleanup/mark-invalid/status", "failed block is marked with a status other than BLOCK_INVALID", [c.where()])
        K.mustcall(R, "mustcall/always", cu, [r"dashmap::set::DashSet::<.*>::remove$"], S, allow_err_exits=False, what="the pending-verify mark is always cleared")
        # callback: invoked whenever present, with the verification result, after the pending mark is cleared
        cb = K.enum_arms(cu, "core::option::Option", [r"field:.*UnverifiedBlock\.verify_callback"])
        calls = [c for c in cu.calls if c.callee.endswith("FnOnce::call_once")]
        if not cb or not calls:
            R.bad("mustcall/callback/anchor-lost", "callback invocation not found", [cu.where()])
        else:
            some = cb[0][1].get("Some")
            hit = {c.bb for c in calls}
            reach, prev = K.reach_with(cu, some, avoid=hit)
            if reach & set(cu.return_blocks()):
                R.bad("mustcall/callback", "a present verify_callback is not invoked on some path", K.path_lines(cu, prev, sorted(reach & set(cu.return_blocks()))[0]))
            elif not all(K.src_match(cu.operand_sources(c.args[1]), [r"call:.*verify_block$"]) for c in calls):
                R.bad("mustcall/callback", "the callback is not given the verification result", [calls[0].where()])
            else:
                R.ok("mustcall/callback", "the submitter's callback always receives the verify_block result", [calls[0].where()])
        # success arm forgets the transient status so that get_block_status falls through to the store
        ok_start = arms[0][1].get("Ok")
        if ok_start is not None:
            K.mustcall(R, "mustcall/ok-arm", cu, [r"Shared::remove_block_status$"], S, start=ok_start, allow_err_exits=False, what="verified block: transient status dropped")
    R.guard("mustcall/fail-cleanup", cleanup)

    def delete_unverified():
        du = F.need("ckb_chain::delete_unverified_block")
        K.order_dom(R, "order/delete-unverified", du, ST + "delete_block$", ST + "commit$", what="invalid block deletion is committed in its own transaction")
    R.guard("order/delete-unverified", delete_unverified)

    # 5. orphan broker routing
    def broker():
        pl = F.need(OB + "process_lonely_block")
        three = [OB + "process_descendant$", OB + "process_invalid_block$", r"OrphanBlockPool::insert$"]
        K.mustcall(R, "mustcall/broker/route", pl, [three, OB + "search_orphan_leaders$"], S, allow_err_exits=False, what="every stored block is routed and leaders are re-scanned")
        # exactly one: no path passes two of them
        blocks = {i: [c.bb for c in pl.calls_to(p)] for i, p in enumerate(three)}
        multi = False
        for i in blocks:
            for b in blocks[i]:
                t = pl.blocks[b]["t"].get("t")
                if t is None:
                    continue
                reach = pl.reachable(t)
                for j in blocks:
                    if any(x in reach for x in blocks[j]):
                        multi = True
                        R.bad("mustcall/broker/exactly-one", "a block can be routed twice in process_lonely_block", [pl.where(b)])
        if not multi:
            R.ok("mustcall/broker/exactly-one", "the three routes of process_lonely_block are mutually exclusive", [pl.where()])
        # routing conditions
        K.mustcall(R, "mustcall/broker/pending-parent", pl, [OB + "process_descendant$"], S, allow_err_exits=False,
                   assume=[(r"DashSet::<.*>::contains$", True)], what="parent pending verification => verify this block next")
        K.mustcall(R, "mustcall/broker/stored-parent", pl, [OB + "process_descendant$"], S, allow_err_exits=False,
                   assume=[(r"DashSet::<.*>::contains$", False), (r"BlockStatus>?::contains$", True)], what="parent stored => verify this block next")
        K.mustcall(R, "mustcall/broker/invalid-parent", pl, [OB + "process_invalid_block$"], S, allow_err_exits=False,
                   assume=[(r"DashSet::<.*>::contains$", False), (r"BlockStatus>?::contains$", False), (r"BlockStatus as core::cmp::PartialEq>::eq$", True)],
                   what="parent invalid => block refused")
        K.mustcall(R, "mustcall/broker/orphan", pl, [r"OrphanBlockPool::insert$"], S, allow_err_exits=False,
                   assume=[(r"DashSet::<.*>::contains$", False), (r"BlockStatus>?::contains$", False), (r"BlockStatus as core::cmp::PartialEq>::eq$", False)],
                   what="unknown parent => block held in the orphan pool")
        for c in pl.calls_to(r"BlockStatus>?::contains$"):
            if not K.src_match(pl.operand_sources(c.args[1]), [r"const:.*BlockStatus::BLOCK_STORED"]):
                R.bad("mustcall/broker/stored-parent/flag", "parent status is tested against a flag other than BLOCK_STORED", [c.where()])
        pi = F.need(OB + "process_invalid_block")
        K.mustcall(R, "mustcall/broker/invalid", pi, [OB + "delete_block$", r"Shared::insert_block_status$", r"LonelyBlockHash::execute_callback$"], S, allow_err_exits=False,
                   what="refused block: deleted, marked invalid, submitter answered")
        for c in pi.calls_to(r"Shared::insert_block_status$"):
            if not K.src_match(pi.operand_sources(c.args[2]), [r"const:.*BlockStatus::BLOCK_INVALID"]):
                R.bad("mustcall/broker/invalid/status", "refused block is not marked BLOCK_INVALID", [c.where()])
        errs = K.count_variant([pi], "core::result::Result", "Err")
        if not errs:
            R.bad("mustcall/broker/invalid/err", "process_invalid_block no longer reports an Err to the submitter", [pi.where()])
        sl = F.need(OB + "search_orphan_leader")
        K.order_dom(R, "order/broker/release-invalid", sl, r"OrphanBlockPool::remove_blocks_by_parent$", OB + "process_invalid_block$", what="descendants of an invalid leader are released from the pool and refused")
        K.order_dom(R, "order/broker/release-accept", sl, r"OrphanBlockPool::remove_blocks_by_parent$", OB + "accept_descendants$", what="descendants of a stored leader are released and verified")
        K.mustcall(R, "mustcall/broker/leader-invalid", sl, [r"OrphanBlockPool::remove_blocks_by_parent$"], S, allow_err_exits=False,
                   assume=[(r"BlockStatus as core::cmp::PartialEq>::eq$", True)], what="invalid leader => descendants released")
        K.mustcall(R, "mustcall/broker/leader-stored", sl, [OB + "accept_descendants$"], S, allow_err_exits=False,
                   assume=[(r"BlockStatus as core::cmp::PartialEq>::eq$", False), (r"BlockStatus>?::contains$", True), (r"Vec::<.*>::is_empty$", False)],
                   what="stored leader with descendants => descendants verified")
        K.mustcall(R, "mustcall/broker/leader-pending", sl, [OB + "accept_descendants$"], S, allow_err_exits=False,
                   assume=[(r"BlockStatus as core::cmp::PartialEq>::eq$", False), (r"DashSet::<.*>::contains$", True), (r"Vec::<.*>::is_empty$", False)],
                   what="leader pending verification => descendants follow it")
        K.loop_over_all(R, "loop/broker/invalid-descendants", sl, OB + "process_invalid_block$", [r"call:.*OrphanBlockPool::remove_blocks_by_parent$"],
                        what="every descendant released under an invalid leader is refused")
        sls = F.need(OB + "search_orphan_leaders")
        K.order_dom(R, "order/broker/all-leaders", sls, r"OrphanBlockPool::clone_leaders$", OB + "search_orphan_leader$", what="every current leader is examined")
        K.loop_over_all(R, "loop/broker/all-leaders", sls, OB + "search_orphan_leader$", [r"call:.*OrphanBlockPool::clone_leaders$"], what="every leader is examined")
        ad = F.need(OB + "accept_descendants")
        K.loop_over_all(R, "loop/broker/accept-all", ad, OB + "process_descendant$", [r"param:descendants"], what="every released descendant is processed")
        K.mustcall(R, "mustcall/broker/accept-all", ad, [OB + "process_descendant$"], S, allow_err_exits=False, assume=[], what="released descendants are all processed") if False else None
        if not ad.calls_to(OB + "process_descendant$"):
            R.bad("mustcall/broker/accept-all", "accept_descendants no longer processes the released blocks", [ad.where()])
        else:
            R.ok("mustcall/broker/accept-all", "accept_descendants hands every released block to process_descendant", [ad.where()])
    R.guard("mustcall/broker", broker)

    # 6. pending mark before hand-off; storage before routing
    def pending():
        pd = F.need(OB + "process_descendant")
        K.order_dom(R, "order/pending-before-send", pd, r"dashmap::set::DashSet::<.*>::insert$", OB + "send_unverified_block$", what="is_pending_verify.insert precedes the channel send")
        su = F.need(OB + "send_unverified_block")
        if not su.calls_to(r"Sender::<.*>::send$"):
            R.bad("order/pending-before-send/send", "send_unverified_block no longer sends on the preload channel", [su.where()])
        cs = F.need("ckb_chain::chain_service::ChainService::asynchronous_process_block")
        K.order_dom(R, "order/store-before-route", cs, r"ChainService::insert_block$", OB + "process_lonely_block$", what="a block is routed only after it was stored")
        ib = F.need("ckb_chain::chain_service::ChainService::insert_block")
        K.order_dom(R, "order/store-commit", ib, ST + "insert_block$", ST + "commit$", what="block storage is committed")
        # F26 (fixed): a hash that is already stored (asked from the header COLUMN, not from the cache) keeps the block it was stored with;
        # every other success path stores and commits
        K.mustcall(R, "mustcall/store-commit", ib, [ST + "insert_block$", ST + "commit$"], S, assume=[(r"ChainDB::is_block_stored$", False)],
                   what="insert_block stores and commits on every success path for a block that is not stored yet")
        guard = ib.calls_to(r"ChainDB::is_block_stored$")
        wr = ib.calls_to(ST + "insert_block$")
        R.sites += len(guard) + len(wr)
        if not guard:
            R.bad("order/no-rewrite-of-stored-block", "ChainService::insert_block rewrites the columns of a hash that is already stored: a same-hash copy with other uncle proposals replaces "
                  "what was (or is being) verified (F26)", [ib.where()])
        else:
            cached = [cb.path for c in guard for cb in S.callee_bodies(c) for x in K.with_nested(cb) for blk in x.blocks for st in blk["s"] if "StoreCache" in str(st)]
            drop = K.assumed_edges(ib, [(r"ChainDB::is_block_stored$", True)])
            reach, _ = K.reach_with(ib, 0, avoid=set(), drop_edges=drop)
            if cached:
                R.bad("order/no-rewrite-of-stored-block", "the already-stored test answers from the store cache (%s): a deleted block that is delivered again would be skipped" % cached[0], [guard[0].where()])
            elif any(w.bb in reach for w in wr):
                R.bad("order/no-rewrite-of-stored-block", "insert_block is still reached when the hash is already stored", [wr[0].where()])
            else:
                R.ok("order/no-rewrite-of-stored-block", "a stored hash is never written again; the test reads the header column itself, not the cache", [guard[0].where()])
    R.guard("order/pending-before-send", pending)

    # 7. retention horizon
    def retention():
        nc = F.need("ckb_chain::utils::orphan_block_pool::InnerPool::need_clean")
        bodies = K.with_nested(nc)
        found = False
        for b in bodies:
            for site, sw in K.find_cmp(b, [r"call:.*LonelyBlockHash::epoch_number$", r"const:.*EXPIRED_EPOCH"], [r"tip_epoch"]):
                found = True
                R.sites += 1
                tr = K.cmp_truth(site, sw)
                par = K.value_parity(b, site.result)
                table = {"<": tr[0] == par, "=": tr[1] == par, ">": tr[2] == par} if par is not None else None
                if table == {"<": True, "=": False, ">": False}:
                    R.ok("cmp/retention", "orphans expire only when epoch + EXPIRED_EPOCH < tip epoch", [site.where()])
                else:
                    R.bad("cmp/retention", "orphan expiry predicate is %s, expected epoch + EXPIRED_EPOCH < tip_epoch" % table, [site.where()])
        if not found:
            R.bad("cmp/retention/anchor-lost", "retention comparison not found in need_clean", [nc.where()])
        c = F.consts("ckb_chain").get("ckb_chain::utils::orphan_block_pool::EXPIRED_EPOCH")
        if c is None or c.get("val") is None or int(c["val"]) < 2:
            R.bad("cmp/retention/horizon", "EXPIRED_EPOCH is %s: the retention horizon must be several epochs" % (c and c.get("val")), [])
        else:
            R.ok("cmp/retention/horizon", "EXPIRED_EPOCH = %s epochs" % c["val"], [])
        ce = F.need(OB + "clean_expired_orphans")
        if K.src_match(set().union(*[ce.operand_sources(a) for c2 in ce.calls_to(r"OrphanBlockPool::clean_expired_blocks$") for a in c2.args[1:]] or [set()]), [r"call:.*ChainStore::get_tip_header$"]):
            R.ok("cmp/retention/tip", "expiry is measured against the stored tip's epoch", [ce.where()])
        else:
            R.bad("cmp/retention/tip", "clean_expired_orphans does not measure expiry against the tip header's epoch", [ce.where()])
    R.guard("cmp/retention", retention)

    # 8. fork bookkeeping: dirty_exts[i] must stay aligned with attached_blocks[verified_len + i] (reconcile zips them)
    def fork_alignment():
        n = 0
        for b in F.bodies_of_crate("ckb_chain"):
            for c in b.calls_to(r"VecDeque::<.*>::push_(front|back)$"):
                srcs = b.operand_sources(c.args[0])
                fld = None
                for f in ("dirty_exts", "attached_blocks", "detached_blocks"):
                    if any(s_.endswith("ForkChanges." + f) for s_ in srcs):
                        fld = f
                if fld is None:
                    continue
                n += 1
                R.fn(b)
                end = "front" if c.callee.endswith("push_front") else "back"
                fn = b.path.split("::")[-1]
                if fld in ("dirty_exts", "attached_blocks"):
                    want = "front"      # both are filled walking from the new tip down to the fork point
                else:
                    want = {"alignment_fork": "back", "make_fork_for_truncate": "back", "find_fork_until_latest_common": "front"}.get(fn)
                if want is None:
                    R.bad("paired/fork-ends/" + fn, "unlisted writer of ForkChanges.%s: %s (%s)" % (fld, b.path, c.where()), [c.where()])
                elif end != want:
                    R.bad("paired/fork-ends/%s/%s" % (fn, fld), "%s pushes ForkChanges.%s at the %s, the walk direction requires push_%s (exts and blocks are zipped positionally in reconcile_main_chain)" % (fn, fld, end, want), [c.where()])
                else:
                    R.ok("paired/fork-ends/%s/%s" % (fn, fld), "%s fills ForkChanges.%s with push_%s" % (fn, fld, end), [c.where()])
        R.sites += n
        if n < 9:
            R.bad("paired/fork-ends/anchor-lost", "expected >=9 pushes onto ForkChanges deques in ckb-chain, found %d" % n, [])
        # the ext and the block pushed in one step belong to the same hash
        for fn in ("alignment_fork", "find_fork_until_latest_common"):
            b = F.need(VERIFY + fn)
            ge = [c for c in b.calls_to(r"ChainStore::get_block_ext$")]
            gb = [c for c in b.calls_to(r"ChainStore::get_block$") if K.src_match(b.operand_sources(c.args[1]), [r"field:.*GlobalIndex\.hash"])]
            if ge and gb and all(K.src_match(b.operand_sources(c.args[1]), [r"field:.*GlobalIndex\.hash"]) for c in ge):
                R.ok("prov/fork-same-hash/" + fn, "%s reads the dirty ext and the attached block by the same index.hash" % fn, [ge[0].where(), gb[0].where()])
            else:
                R.bad("prov/fork-same-hash/" + fn, "%s: the dirty ext and the attached block are not both read by index.hash" % fn, [b.where()])
    R.guard("paired/fork-ends", fork_alignment)

    # 9. EFFECTSITES: who may decide that a block hash is invalid / forget a status / delete a stored block, and how many places do so.
    # A block hash marked BLOCK_INVALID is refused together with all its descendants until restart: every such site was reviewed to be
    # reached only for a block that failed verification or whose parent is invalid. An additional site has no lost fact to alarm on.
    INVALID = r"const:ckb_shared::block_status::BlockStatus::BLOCK_INVALID$"
    R.guard("effects/mark-invalid", lambda: K.effect_sites(R, "effects/mark-invalid", F, r"ckb_shared::shared::Shared::insert_block_status$", {
        r"^ckb_chain::chain_service::ChainService::asynchronous_process_block$": (2, "expired-window refusal is not one of them: block number check and failed non-contextual verification"),
        r"^ckb_chain::verify::ConsumeUnverifiedBlockProcessor::consume_unverified_blocks$": (1, "the block whose verification returned an error (not an internal db error)"),
        r"^ckb_chain::orphan_broker::OrphanBroker::process_invalid_block$": (1, "a block whose parent is invalid"),
        r"^ckb_sync::synchronizer::headers_process::HeaderAcceptor::<.*>::accept$": (3, "header on an invalid parent / failing the header verifier / non-contextual header check"),
        r"^ckb_sync::relayer::compact_block_process::contextual_check": (1, "compact block header on an invalid parent"),
    }, arg=(2, INVALID), what="who marks a block hash invalid"))
    R.guard("effects/forget-status", lambda: K.effect_sites(R, "effects/forget-status", F, r"ckb_shared::shared::Shared::remove_block_status$", {
        r"^ckb_chain::verify::ConsumeUnverifiedBlockProcessor::consume_unverified_blocks$": (2, "after a successful verification (status now comes from the stored ext) and after an internal db error"),
        r"^ckb_chain::orphan_broker::OrphanBroker::clean_expired_orphans$": (1, "an expired orphan is deleted and may be downloaded again"),
        r"^ckb_sync::": (9, "sync-side header bookkeeping"),
        r"^ckb_rpc::": (9, "test / debug rpc"),
    }, what="who forgets a block status"))
    R.guard("effects/delete-stored-block", lambda: K.effect_sites(R, "effects/delete-stored-block", F, r"ckb_chain::delete_unverified_block$", {
        r"^ckb_chain::verify::ConsumeUnverifiedBlockProcessor::consume_unverified_blocks$": (1, "the block that failed verification"),
        r"^ckb_chain::orphan_broker::OrphanBroker::process_invalid_block$": (1, "a block whose parent is invalid"),
        r"^ckb_chain::orphan_broker::OrphanBroker::clean_expired_orphans$": (1, "an orphan older than the retention horizon"),
    }, what="who deletes a stored, unverified block"))

    # 10. F25 (fixed): the status map is keyed by the block hash; the hash commits to the header, the header commits to the body through three
    # roots. A failed non-contextual check says something about the HASH only if the delivered body is the committed one, and a hash whose block
    # is stored and verified is never downgraded: otherwise one crafted same-hash twin makes the node refuse the honest block and its descendants.
    def commitment_guard():
        ap = F.need("ckb_chain::chain_service::ChainService::asynchronous_process_block")
        ncv = ap.calls_to(r"ChainService::non_contextual_verify$")
        marks = [c for c in ap.calls_to(r"Shared::insert_block_status$") if K.src_match(ap.operand_sources(c.args[2]), [INVALID])]
        after = [c for c in marks if ncv and c.bb in ap.reachable(ncv[0].bb)]
        R.sites += len(marks) + len(ncv)
        if not ncv or not after:
            R.bad("order/invalid-needs-commitment/anchor-lost", "non_contextual_verify / the BLOCK_INVALID mark after it not found in asynchronous_process_block", [ap.where()])
            return

        def cmp_pairs(bodies):
            got = set()
            for x in bodies:
                for c in x.calls:
                    if c.callee in K.CMP_CALLS or re.search(r"PartialEq::(eq|ne)$", c.callee):
                        sa, sb = x.operand_sources(c.args[0]), x.operand_sources(c.args[1])
                        for nm, plain, calc in (("transactions_root", r"call:.*BlockView::transactions_root$", r"call:.*calc_transactions_root$"),
                                                ("proposals_hash", r"call:.*BlockView::proposals_hash$", r"call:.*calc_proposals_hash$"),
                                                ("extra_hash", r"call:.*BlockView::extra_hash$", r"call:.*calc_extra_hash$")):
                            if (K.src_match(sa, [plain]) and K.src_match(sb, [calc])) or (K.src_match(sb, [plain]) and K.src_match(sa, [calc])):
                                got.add(nm)
            return got
        guards = []
        for c in ap.calls:
            if not any(ap.dominates(c.bb, m.bb) and c.bb != m.bb for m in after):
                continue
            for cb in S.callee_bodies(c):
                if cb.crate != "ckb_chain":
                    continue
                bs = K.with_nested(cb)
                got = cmp_pairs(bs)
                reads_verified = any(re.search(r"BlockExt\.verified$", s_) for x in bs for l in range(len(x.rec.get("locals") or [])) for s_ in x.local_sources(l) if s_.startswith("field:"))
                if got == {"transactions_root", "proposals_hash", "extra_hash"} and reads_verified:
                    guards.append(c)
        if guards and all(any(ap.dominates(g.bb, m.bb) for g in guards) for m in after):
            R.ok("order/invalid-needs-commitment", "BLOCK_INVALID after a failed non-contextual check is written only behind the test that the body is the one the header commits to "
                 "(transactions root, proposals hash, extra hash) and that the hash is not stored as verified", [g.where() for g in guards[:2]])
        else:
            R.bad("order/invalid-needs-commitment", "asynchronous_process_block marks a hash BLOCK_INVALID on a failed non-contextual check without first testing that the delivered body is the committed one "
                  "and that the hash is not already verified: a same-hash twin poisons an honest block (F25)", [m.where() for m in after])
    import re
    R.guard("order/invalid-needs-commitment", commitment_guard)

    # 11. F27 (fixed): the same hash can be queued twice; when the first copy fails the block is deleted and the second finds nothing to load.
    # The preload stage must cope with that (answer the callback, drop the entry) instead of panicking - its thread feeds the verify thread.
    def preload_missing():
        b = F.one("ckb_chain", r"preload_unverified_blocks_channel::PreloadUnverifiedBlocksChannel::load_full_unverified_block_by_hash$")
        R.fn(b)
        gb = b.calls_to(r"ChainStore::get_block$")
        R.sites += len(gb)
        if not gb:
            R.bad("mustcall/preload-missing/anchor-lost", "get_block not found in load_full_unverified_block_by_hash", [b.where()])
            return
        bad = [c for c in b.calls if re.search(r"Option::<.*>::(expect|unwrap)$", c.callee) and K.origin_sites(b, c.args[0]) & {gb[0].bb}]
        if bad:
            R.bad("mustcall/preload-missing", "a block that was deleted while it waited in the queue panics the preload thread (expect on get_block)", [bad[0].where()])
        else:
            R.ok("mustcall/preload-missing", "a queued block that is no longer stored is dropped, not unwrapped", [gb[0].where()])
    R.guard("mustcall/preload-missing", preload_missing)

    # 12. F29 (fixed): the verify thread publishes a block's result (ext, snapshot, status) BEFORE it removes the hash from is_pending_verify.
    # A reader that wants "stored or about to be" must therefore read is_pending_verify first and the status second; in the opposite order both
    # reads can say no for a block that has just been verified, and its orphaned descendants are never released.
    def read_order():
        for fn in ("search_orphan_leader", "process_lonely_block"):
            b = F.need(OB + fn)
            R.fn(b)
            pend = [c for c in b.calls_to(r"dashmap::set::DashSet::<.*>::contains$")]
            stat = b.calls_to(r"Shared::get_block_status$")
            R.sites += len(pend) + len(stat)
            if not pend or not stat:
                R.bad("order/pending-read-before-status/%s/anchor-lost" % fn, "%s no longer reads both is_pending_verify and the block status" % fn, [b.where()])
            elif all(any(b.dominates(p_.bb, s_.bb) and p_.bb != s_.bb for p_ in pend) for s_ in stat):
                R.ok("order/pending-read-before-status/" + fn, "%s reads is_pending_verify before the block status" % fn, [pend[0].where(), stat[0].where()])
            else:
                R.bad("order/pending-read-before-status/" + fn, "%s reads the block status before is_pending_verify: a block verified between the two reads is seen as neither stored nor pending (F29)" % fn, [stat[0].where()])
    R.guard("order/pending-read-before-status", read_order)
