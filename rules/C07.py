"""C07 - epoch / difficulty / issuance arithmetic (structural necessary conditions: the decision tables and value forms)."""
import json
import os

import kinds as K
import tables as T

CRATES = ["ckb_chain_spec", "ckb_types", "ckb_traits", "ckb_pow", "ckb_verification"]
EXPLANATION = ("TABLE: for every function that takes part in the epoch transition, the reward windows, the epoch-fraction checks and the PoW acceptance test, the complete set of decisions "
               "(comparison or bool test, normalised operand forms, value produced on each side) and the forms of the values they return or pass on are recomputed from MIR and compared with a frozen, "
               "reviewed table (rules/C07.tables.json): clamp bounds min(max_epoch_length, last*TAU) / max(min_epoch_length, last/TAU) and which bound is returned on which side, the hash-rate clamp [prev/TAU, prev*TAU], "
               "the zero-uncle arm (doubling, clamp reported), difficulty floor of one, duration floor of one second, halving on multiples of the interval, remainder windows [start, start+remainder), "
               "successor / well-formedness predicates, tail-block test number == start+length-1, accept iff target non-zero, not overflowed and hash <= target; SIBLING: both PoW engines make the same decisions.")
NOT_DECIDED = ("the numeric results: that the RFC formula evaluated in U256/RationalU256 neither overflows nor truncates in a harmful order, that rewards sum to the scheduled issuance, that compact<->target "
               "conversions are mutually inverse and monotone (2^64..2^256-sized input spaces; bit-level codec of difficulty.rs is not tabled)")

TABLES = os.path.join(os.path.dirname(os.path.abspath(__file__)), "C07.tables.json")
FLOOR = 26


def run(F, S, R, tier):
    n = T.run_tables(R, "table", F, TABLES)
    if n < FLOOR:
        R.bad("table/floor", "only %d tables loaded (floor %d)" % (n, FLOOR), [])

    def sibling():
        with open(TABLES) as fh:
            specs = {s["id"]: s for s in json.load(fh)}
        a = T.locate(F, specs["pow-eaglesong"])
        b = T.locate(F, specs["pow-eaglesong-blake2b"])
        da = sorted((h for h, _ in K.decision_sites(a, ignore=T.IGNORE)), key=str)
        db = sorted((h for h, _ in K.decision_sites(b, ignore=T.IGNORE)), key=str)
        R.sites += len(da) + len(db)
        if da == db and len(da) >= 3:
            R.ok("sibling/pow-engines", "Eaglesong and EaglesongBlake2b accept under the same %d decisions" % len(da), [a.where(), b.where()])
        else:
            R.bad("sibling/pow-engines", "the two PoW engines no longer make the same decisions: %s vs %s" % ([T.show(x) for x in da if x not in db][:2], [T.show(x) for x in db if x not in da][:2]), [a.where(), b.where()])
    R.guard("sibling/pow-engines", sibling)

    # F19 (fixed): the number of halvings is epoch_number / interval, unbounded; a plain `>>` by it overflows from the 64th halving on
    # (panic with overflow checks, the initial reward again without). The shift must be a checked one.
    def halving():
        b = F.one("ckb_chain_spec", r"consensus::Consensus::primary_epoch_reward$")
        K.no_panicking_arith(R, "affine/halving-shift-total", [b], ("Shr", "Shl"), "primary epoch reward after any number of halvings (F19)")
        if not [c for c in [x for bb in [b] + list(b.nested()) for x in bb.calls] if c.callee.endswith("checked_shr") or c.callee.endswith("checked_div") or c.callee.endswith("checked_pow")]:
            R.bad("affine/halving-shift-total/halves", "primary_epoch_reward no longer halves through a checked shift", [b.where()])
    R.guard("affine/halving-shift-total", halving)
