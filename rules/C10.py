"""C10 - freezing old blocks is invisible to every chain query (structural necessary conditions)."""
import kinds as K
from common import store_effects

CRATES = ["ckb_shared", "ckb_store", "ckb_freezer"]
EXPLANATION = ("ORDER/PROV: kv rows are wiped only with the result of a successful (fsynced) Freezer::freeze; INVPAIR: delete_block_body never touches the header column, whole-block deletion only for "
               "side-chain hashes; AFFINE/CMP: two-epoch threshold, per-run limit, idle conditions, contiguous range from the frozen height; "
               "FALLBACK: every ChainStore reader of a column that freezing deletes must consult the freezer (seven accessors do not: known findings F4); CMP: fallback bound 0 < number < freezer.number().")
NOT_DECIDED = "crash in the middle of freeze beyond the ordering facts; equality of answers before/after freezing for all values (needs execution)"

SH = "ckb_shared::shared::Shared::"
WB = "ckb_store::write_batch::StoreWriteBatch::"
BODY_COLS = {"COLUMN_BLOCK_UNCLE", "COLUMN_BLOCK_EXTENSION", "COLUMN_BLOCK_PROPOSAL_IDS", "COLUMN_NUMBER_HASH", "COLUMN_BLOCK_BODY"}
EXEMPT = {"get_unfrozen_block": "the freezer's own source: reads the not-yet-frozen rows on purpose"}


def run(F, S, R, tier):
    fr = F.need(SH + "freeze")
    wo = F.need(SH + "wipe_out_frozen_data")

    # ---------------------------------------------------------------- 1. freeze, then wipe
    def order():
        K.order_dom(R, "order/freeze-then-wipe", fr, r"freezer::Freezer::freeze$", SH + "wipe_out_frozen_data$", what="rows are wiped only after Freezer::freeze returned")
        fz = fr.calls_to(r"freezer::Freezer::freeze$")
        w = fr.calls_to(SH + "wipe_out_frozen_data$")
        if fz:
            nxt = fr.term(fz[0].target) if fz[0].target is not None else {}
            if nxt.get("k") == "call" and (nxt.get("callee") or "").endswith("Try::branch"):
                R.ok("order/freeze-checked", "a failed freeze aborts before anything is wiped", [fz[0].where()])
            else:
                R.bad("order/freeze-checked", "the Result of Freezer::freeze is not propagated: rows could be wiped after a failed freeze", [fz[0].where()])
        if w and K.src_match(fr.operand_sources(w[0].args[2]), [r"call:.*Freezer::freeze$"]):
            R.ok("prov/wipe-set", "exactly the blocks the freezer reports as frozen are wiped", [w[0].where()])
        else:
            R.bad("prov/wipe-set", "wipe_out_frozen_data is not given Freezer::freeze's result", [fr.where()])
        # wipe of main-chain rows is durable before side-chain cleanup and compaction
        dbb = wo.calls_to(WB + "delete_block_body$")
        ws = wo.calls_to(r"ChainDB::write_sync$")
        if dbb and ws and wo.dominates(dbb[0].bb, ws[0].bb) is not None and K.src_match(wo.operand_sources(ws[0].args[1]), [r"call:.*ChainDB::new_write_batch$"]):
            R.ok("order/wipe-sync", "main-chain body rows are deleted with a synced write", [ws[0].where()])
        else:
            R.bad("order/wipe-sync", "main-chain body deletion no longer uses write_sync", [wo.where()])
    R.guard("order/freeze-then-wipe", order)

    # ---------------------------------------------------------------- 2. only bodies, only side blocks whole
    def body_only():
        b1 = F.need(WB + "delete_block_body")
        b2 = F.need(WB + "delete_block")
        e1 = store_effects(F, S, b1)
        e2 = store_effects(F, S, b2)
        c1 = {k[1] for k in e1 if k[0] == "del"}
        c2 = {k[1] for k in e2 if k[0] == "del"}
        if c1 == BODY_COLS and not any(k[0] == "put" for k in e1):
            R.ok("invpair/body-only", "delete_block_body deletes exactly %s and never the header" % sorted(c1), [b1.where()])
        else:
            R.bad("invpair/body-only", "delete_block_body deletes %s, frozen table %s" % (sorted(c1), sorted(BODY_COLS)), [b1.where()])
        if c2 == BODY_COLS | {"COLUMN_BLOCK_HEADER"}:
            R.ok("invpair/whole-block", "delete_block = header + body columns", [b2.where()])
        else:
            R.bad("invpair/whole-block", "delete_block deletes %s" % sorted(c2), [b2.where()])
        # main-chain blocks: delete_block_body keyed by the frozen map; side blocks: delete_block keyed by `side`
        for c in wo.calls_to(WB + "delete_block_body$"):
            if K.src_match(wo.operand_sources(c.args[2]), [r"param:frozen"]):
                R.ok("prov/body-keys", "delete_block_body is keyed by the frozen (main-chain) entries", [c.where()])
            else:
                R.bad("prov/body-keys", "delete_block_body is not keyed by the frozen map", [c.where()])
        for c in wo.calls_to(WB + "delete_block$"):
            srcs = wo.operand_sources(c.args[2])
            if K.src_match(srcs, [r"vty:alloc::collections::btree::map::BTreeMap<.*Byte32, \(ckb_gen_types::generated::blockchain::Uint64, u32\)>$"]) and not K.src_match(srcs, [r"param:frozen$"]) or K.src_match(srcs, [r"call:.*BTreeMap::<.*>::new$"]):
                R.ok("prov/whole-block-keys", "whole-block deletion is keyed by the side-chain map only", [c.where()])
            else:
                R.bad("prov/whole-block-keys", "delete_block (header included) can be applied to a main-chain hash", [c.where()])
        ins = wo.calls_to(r"BTreeMap::<.*>::insert$")
        K.cmp_table(R, "cmp/side-only", wo, [r"call:.*NumberHashReader.*::block_hash$|call:.*to_entity$"], [r"param:frozen"], {"<": "SIDE", "=": "MAIN", ">": "SIDE"},
                    K.classify_reach([r"BTreeMap::<.*>::insert$"], "SIDE", "MAIN"), what="a hash equal to the frozen main-chain hash is never put in the side map")
    R.guard("invpair/body-only", body_only)

    # ---------------------------------------------------------------- 3. threshold arithmetic
    def threshold():
        consts = F.consts("ckb_shared")
        te = [c for p, c in consts.items() if p.endswith("::THRESHOLD_EPOCH")]
        ml = [c for p, c in consts.items() if p.endswith("::MAX_FREEZE_LIMIT")]
        if te and te[0].get("val") == "2":
            R.ok("const/threshold-epoch", "THRESHOLD_EPOCH = 2 (only blocks older than two epochs are moved)", [])
        else:
            R.bad("const/threshold-epoch", "THRESHOLD_EPOCH is %s, the property fixes a two-epoch threshold" % (te and te[0].get("val")), [])
        if ml and ml[0].get("val") and int(ml[0]["val"]) > 0:
            R.ok("const/max-freeze-limit", "MAX_FREEZE_LIMIT = %s blocks per run" % ml[0]["val"], [])
        else:
            R.bad("const/max-freeze-limit", "MAX_FREEZE_LIMIT missing", [])
        gi = fr.calls_to(r"ChainStore::get_epoch_index$")
        if gi and K.arith_of(fr, gi[0].args[1]) == ["lit:1", "op:add", "op:sub"] and K.src_match(fr.operand_sources(gi[0].args[1]), [r"const:.*THRESHOLD_EPOCH", r"call:.*EpochExt::number$"]):
            R.ok("affine/threshold-epoch", "limit epoch = current + 1 - THRESHOLD_EPOCH", [gi[0].where()])
        else:
            R.bad("affine/threshold-epoch", "limit epoch has form %s, expected current_epoch + 1 - THRESHOLD_EPOCH" % (gi and K.arith_of(fr, gi[0].args[1])), [fr.where()])
        lb = fr.calls_to(r"EpochExt::last_block_hash_in_previous_epoch$")
        if lb:
            R.ok("prov/threshold-block", "the threshold block is the last block before the limit epoch", [lb[0].where()])
        else:
            R.bad("prov/threshold-block", "threshold no longer uses last_block_hash_in_previous_epoch of the limit epoch", [fr.where()])
        fz = fr.calls_to(r"freezer::Freezer::freeze$")
        if fz:
            sig = K.arith_of(fr, fz[0].args[1])
            srcs = fr.operand_sources(fz[0].args[1])
            if sig == ["op:add", "op:min"] and K.src_match(srcs, [r"const:.*MAX_FREEZE_LIMIT", r"call:.*Freezer::number$", r"call:.*ChainStore::get_block_number$"]):
                R.ok("affine/threshold", "threshold = min(number(limit block), frozen + MAX_FREEZE_LIMIT)", [fz[0].where()])
            else:
                R.bad("affine/threshold", "freeze threshold has form %s" % sig, [fz[0].where()])
        K.cmp_table(R, "cmp/idle-epoch", fr, [r"call:.*EpochExt::number$"], [r"const:.*THRESHOLD_EPOCH"], {"<": "IDLE", "=": "IDLE", ">": "GO"},
                    K.classify_reach([r"freezer::Freezer::freeze$"], "GO", "IDLE"), what="nothing is frozen while current_epoch <= THRESHOLD_EPOCH")
        drop = K.assumed_edges(fr, [(SH + "is_initial_block_download$", True)])
        if not drop:
            R.bad("mustfail/idle-ibd/anchor-lost", "IBD guard not found in Shared::freeze", [fr.where()])
        else:
            reach, _ = K.reach_with(fr, 0, drop_edges=drop)
            if reach & {c.bb for c in fr.calls_to(r"freezer::Freezer::freeze$")}:
                R.bad("mustfail/idle-ibd", "blocks can be frozen during initial block download", [fr.where()])
            else:
                R.ok("mustfail/idle-ibd", "nothing is frozen during initial block download", [fr.where()])
        # contiguous from the frozen height: the freezer's loop is number()..threshold over the main-chain index
        ff = F.one("ckb_freezer", r"freezer::Freezer::freeze$")
        rng = [st[1] for blk in ff.blocks for st in blk["s"] if st[1].get("k") == "agg" and str(st[1].get("adt", "")).endswith("ops::range::Range")]
        if rng and K.src_match(ff.operand_sources(rng[0]["ops"][0]), [r"call:.*Freezer::number$"]) and K.src_match(ff.operand_sources(rng[0]["ops"][1]), [r"param:threshold"]) and K.arith_of(ff, rng[0]["ops"][0]) == []:
            R.ok("affine/contiguous", "freeze walks number()..threshold (contiguous from the previous frozen height, strictly below the threshold)", [ff.where()])
        else:
            R.bad("affine/contiguous", "Freezer::freeze no longer iterates self.number()..threshold", [ff.where()])
        cl = [b for b in K.with_nested(fr) if b.kind == "Closure" and b.calls_to(r"ChainStore::get_unfrozen_block$")]
        gh = [b for b in K.with_nested(fr) if b.kind == "Closure" and b.calls_to(r"ChainStore::get_block_hash$")]
        if cl and gh:
            R.ok("prov/main-chain-source", "frozen blocks are looked up through the main-chain number index", [cl[0].where()])
        else:
            R.bad("prov/main-chain-source", "the freeze source no longer goes through get_block_hash(number)", [fr.where()])
    R.guard("affine/threshold", threshold)

    # ---------------------------------------------------------------- 4. readers of wiped columns must consult the freezer
    def readers():
        n = 0
        for b in F.bodies_of_crate("ckb_store"):
            if b.trait != "ckb_store::store::ChainStore" or b.self_ty != "Self" or b.kind != "AssocFn":
                continue
            cols = set()
            for x in K.with_nested(b):
                for c in x.calls_to(r"ChainStore::(get|get_iter)$"):
                    k = K.const_of_operand(x, c.args[1]) if len(c.args) > 1 else None
                    if k:
                        cols.add(k.split("::")[-1])
            hit = cols & BODY_COLS
            if not hit:
                continue
            n += 1
            R.fn(b)
            name = b.name
            key = "fallback/readers/" + name
            if name in EXEMPT:
                R.ok(key, "%s reads %s: exempt (%s)" % (name, sorted(hit), EXEMPT[name]), [b.where()])
                continue
            fz = [c for x in K.with_nested(b) for c in x.calls_to(r"ChainStore::freezer$")]
            if fz:
                R.ok(key, "%s reads %s and falls back to the freezer" % (name, sorted(hit)), [fz[0].where()])
            else:
                R.bad(key, "ChainStore::%s reads %s, which wipe_out_frozen_data deletes for frozen blocks, without consulting the freezer: its answer changes when the block is frozen" % (name, sorted(hit)), [b.where()])
        R.sites += n
        if n < 9:
            R.bad("fallback/readers/anchor-lost", "expected >=9 ChainStore readers of body columns, found %d" % n, [])
    R.guard("fallback/readers", readers)

    # ---------------------------------------------------------------- 5. fallback bound
    def bound():
        for fn, A in (("get_block", [r"call:.*HeaderView::number$"]), ("get_transaction_with_info", [r"field:.*TransactionInfo\.block_number"])):
            b = F.need("ckb_store::store::ChainStore::" + fn)
            K.cmp_table(R, "cmp/fallback-bound/%s/upper" % fn, b, A, [r"call:.*Freezer::number$"], {"<": "FROZEN", "=": "KV", ">": "KV"},
                        K.classify_reach([r"freezer::Freezer::retrieve$"], "FROZEN", "KV"), what="frozen iff number < freezer.number()")
            K.cmp_table(R, "cmp/fallback-bound/%s/lower" % fn, b, A, [r"lit:0$"], {"<": "KV", "=": "KV", ">": "FROZEN"},
                        K.classify_reach([r"freezer::Freezer::retrieve$"], "FROZEN", "KV"), what="genesis is never frozen")
            rt = b.calls_to(r"freezer::Freezer::retrieve$")
            if rt and K.src_match(b.operand_sources(rt[0].args[1]), A) and K.arith_of(b, rt[0].args[1]) == []:
                R.ok("prov/fallback-number/" + fn, "the frozen item retrieved is the block's own number", [rt[0].where()])
            else:
                R.bad("prov/fallback-number/" + fn, "%s retrieves a frozen item other than the block's own number" % fn, [b.where()])
        # the freezer branch is taken under exactly the two number tests (and the freezer being configured): one more condition ("while the uncles
        # row is still there", round-3 seed C10-seed5) makes the answer for a frozen block depend on something else than where the block lives
        import atoms as A
        for fn in ("get_block", "get_transaction_with_info"):
            b = F.need("ckb_store::store::ChainStore::" + fn)
            gs = A.guards_of([b] + list(b.nested()), S, r"freezer::Freezer::retrieve$")
            R.sites += len(gs)
            if not gs:
                R.bad("cmp/fallback-bound/%s/exact/anchor-lost" % fn, "no guarded Freezer::retrieve call found in %s" % fn, [b.where()])
                continue
            for nm, tests in gs:
                extra = [t for t in tests if not t.startswith('["lt"')]
                if len(tests) == 2 and not extra:
                    R.ok("cmp/fallback-bound/%s/exact" % fn, "the frozen copy is read under exactly 0 < number and number < freezer.number()", [b.where()])
                else:
                    R.bad("cmp/fallback-bound/%s/exact" % fn, "%s reads the frozen copy under %d condition(s) %s, reviewed: exactly the two number tests" % (fn, len(tests), [t[:120] for t in (extra or tests)]), [b.where()])
        gt = F.need("ckb_store::store::ChainStore::get_transaction_with_info")
        g = [c for c in gt.calls if c.callee.endswith("::get") and K.src_match(gt.operand_sources(c.args[1]), [r"field:.*TransactionInfo\.index"])] if gt else []
        if g:
            R.ok("prov/fallback-tx-index", "the transaction is taken at tx_info.index of the frozen block", [g[0].where()])
        else:
            R.bad("prov/fallback-tx-index", "frozen transaction lookup no longer indexes by tx_info.index", [gt.where()])
    R.guard("cmp/fallback-bound", bound)

    # ---------------------------------------------------------------- 6. the frozen bytes themselves: C10 rests on the freezer's integrity rules
    def freezer_integrity():
        import importlib.util, os
        spec = importlib.util.spec_from_file_location("rule_C09_for_C10", os.path.join(os.path.dirname(os.path.abspath(__file__)), "C09.py"))
        m = importlib.util.module_from_spec(spec)
        spec.loader.exec_module(m)
        m.run(F, S, _Prefixed(R, "freezer/"), tier)
    R.guard("freezer", freezer_integrity)
    import common as _common
    _common.effects(R, F, ['freeze'])


class _Prefixed:
    """forwards to the property's report with a key prefix (C09's rules evaluated as part of C10)"""

    def __init__(self, R, prefix):
        self._R, self._p = R, prefix

    def ok(self, key, text, where=()):
        return self._R.ok(self._p + key, text, where)

    def bad(self, key, text, where=()):
        return self._R.bad(self._p + key, text, where)

    def guard(self, key, fn):
        return self._R.guard(self._p + key, fn)

    def fn(self, b):
        return self._R.fn(b)

    def note(self, t):
        return self._R.note(t)

    @property
    def sites(self):
        return self._R.sites

    @sites.setter
    def sites(self, v):
        self._R.sites = v
