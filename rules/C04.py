"""C04 - transaction acceptance (structural necessary conditions)."""
import kinds as K
from common import VERIFY, cell_entry_rule

CRATES = ["ckb_verification", "ckb_types", "ckb_tx_pool", "ckb_script", "ckb_chain"]
EXPLANATION = ("SIBLING/MUSTCALL: the three contextual entry points run time-relative, capacity, script and fee steps; REQERR/must-fail: resolution rejects seen, duplicate, dead, unknown and "
               "over-limit references and checks every header dep; CMP: maturity/since/capacity/min-fee boundary operators with their exact arithmetic form; "
               "AFFINE: commit-position arithmetic of TxVerifyEnv per phase; MUSTCALL/ORDER: pool pre-check, verify, submit pipeline and the re-check when the tip moved; "
               "PROV: block resolution overlays the block's own cells over the store transaction with one shared spent-set.")
NOT_DECIDED = "script execution results (ckb-vm) and completeness ('any transaction meeting all rules is accepted')"

V = "ckb_verification"
TE = "ckb_types::core::error::TransactionError"
OE = "ckb_types::core::error::OutPointError"


def run(F, S, R, tier):
    # ---------------------------------------------------------------- 1. contextual entry points agree
    def siblings():
        ctv = [b for b in F.bodies_of_crate(V) if K.rx(r"ContextualTransactionVerifier::<DL>::(verify|verify_with_pause|complete)($|::\{closure#0\}$)").search(b.path)]
        names = {}
        for b in ctv:
            nm = b.path.split("ContextualTransactionVerifier::<DL>::")[1].split("::")[0]
            # async fn: the coroutine closure holds the code
            if nm == "verify_with_pause" and b.kind != "Closure":
                continue
            names[nm] = b
        if set(names) != {"verify", "verify_with_pause", "complete"}:
            R.bad("sibling/contextual/anchor-lost", "expected verify, verify_with_pause and complete on ContextualTransactionVerifier, found %s" % sorted(names), [])
            return
        script = {"verify": r"TransactionScriptsVerifier::<.*>::verify$", "verify_with_pause": r"TransactionScriptsVerifier::<.*>::resumable_verify_with_signal$",
                  "complete": r"TransactionScriptsVerifier::<.*>::complete$"}
        for nm, b in names.items():
            drop = set()
            for i in range(1, b.argc + 1):
                if (b.rec.get("locals") or [])[i:i + 1] == ["bool"]:   # the skip_script_verify flag is the only bool parameter
                    drop = K.same_bool_edges(b, i, False)
            K.mustcall(R, "sibling/contextual/" + nm, b, [r"TimeRelativeTransactionVerifier::<.*>::verify$", r"CapacityVerifier::verify$", script[nm], r"FeeCalculator::<.*>::transaction_fee$"],
                       S, drop_edges=drop, what="contextual transaction verification step")
            for c in b.calls_to(script[nm]):
                mc = [a for a in c.args if K.src_match(b.operand_sources(a), [r"^param:\d+$|^upvar:"])]
                if mc:
                    R.ok("sibling/contextual/%s/limit" % nm, "script run is bounded by the caller's max_cycles", [c.where()])
                else:
                    R.bad("sibling/contextual/%s/limit" % nm, "script run is not bounded by the caller's max_cycles", [c.where()])
        tr = F.one(V, r"TimeRelativeTransactionVerifier::<DL>::verify$")
        K.mustcall(R, "mustcall/time-relative", tr, [r"MaturityVerifier::verify$", r"SinceVerifier::<.*>::verify$"], S, what="time-relative verification = maturity + since")
        sv = F.one(V, r"SinceVerifier::<DL>::verify$")
        K.mustcall(R, "mustcall/since", sv, [r"SinceVerifier::<.*>::verify_absolute_lock$", r"SinceVerifier::<.*>::verify_relative_lock$"], S,
                   ends={c.bb for c in sv.calls if c.callee.endswith("Iterator::next")} - {min([c.bb for c in sv.calls if c.callee.endswith("Iterator::next")] or [0])} or None,
                   what="every non-zero since goes through both lock checks") if False else None
        K.follows(R, "mustcall/since-both", sv, r"SinceVerifier::<.*>::verify_absolute_lock$", [r"SinceVerifier::<.*>::verify_relative_lock$"], S, what="absolute and relative since checks both run")
        K.must_fail(R, "mustfail/since-flags", sv, assume=[(r"Since::flags_is_valid$", False), (r"Iterator::next$", None)][:1], what="invalid since flags reject", start=0) if False else None
        # invalid flags reject: with flags_is_valid == false the loop body cannot reach the lock checks
        drop = K.assumed_edges(sv, [(r"Since::flags_is_valid$", False)])
        locks = {c.bb for c in sv.calls_to(r"verify_(absolute|relative)_lock$")}
        fv = sv.calls_to(r"Since::flags_is_valid$")
        if not fv or not drop:
            R.bad("mustfail/since-flags/anchor-lost", "flags_is_valid test not found in SinceVerifier::verify", [sv.where()])
        else:
            reach, _ = K.reach_with(sv, fv[0].target, drop_edges=drop, avoid=sv.error_exit_blocks())
            nxt = {c.bb for c in sv.calls if c.callee.endswith("Iterator::next")}
            if reach & (locks | nxt | set(sv.return_blocks())):
                R.bad("mustfail/since-flags", "a since with invalid flags is not rejected", [fv[0].where()])
            else:
                R.ok("mustfail/since-flags", "invalid since flags always reject (InvalidSince)", [fv[0].where()])
            if not all(sv.dominates(fv[0].bb, b) for b in locks):
                R.bad("mustfail/since-flags/order", "since flags are not validated before the lock checks", [fv[0].where()])
        # the zero-since shortcut is exactly `since == 0`
        K.cmp_table(R, "cmp/since-zero", sv, [r"call:.*CellInput::since$"], [r"lit:0$"], {"<": "CHECK", "=": "SKIP", ">": "CHECK"},
                    K.classify_reach([r"Since::flags_is_valid$"], "CHECK", "SKIP"), what="only an all-zero since skips validation")
    R.guard("sibling/contextual", siblings)

    # ---------------------------------------------------------------- 2. resolution
    def resolve():
        rt = F.one("ckb_types", r"core::cell::resolve_transaction$")
        bodies = K.with_nested(rt)
        K.reqerr(R, "reqerr/resolve", bodies, {(OE, "Dead"): 3, (OE, "Unknown"): 1}, what="resolve rejection")
        cl = [b for b in bodies if b.kind == "Closure" and b.calls_to(r"CellProvider::cell$")]
        if not cl:
            R.bad("reqerr/resolve/anchor-lost", "resolve_cell closure not found", [rt.where()])
        else:
            c = cl[0]
            K.must_fail(R, "mustfail/resolve-seen", c, assume=[(r"HashSet::<.*>::contains$", True)], what="an out-point spent earlier in the block/batch is Dead")
            arms = K.enum_arms(c, "ckb_types::core::cell::CellStatus", [r"call:.*CellProvider::cell$"])
            if not arms:
                R.bad("mustfail/resolve-status/anchor-lost", "match on CellStatus not found", [c.where()])
            else:
                for var in ("Dead", "Unknown"):
                    tgt = arms[0][1].get(var, arms[0][2])
                    err = c.error_exit_blocks()
                    reach = c.reachable(tgt, avoid=err)
                    if reach & set(c.return_blocks()):
                        R.bad("mustfail/resolve-status/" + var, "CellStatus::%s can resolve successfully" % var, [c.where(arms[0][0])])
                    else:
                        R.ok("mustfail/resolve-status/" + var, "CellStatus::%s is rejected" % var, [c.where(arms[0][0])])
            if K.src_match(c.operand_sources(c.calls_to(r"HashSet::<.*>::contains$")[0].args[0]), [r"vty:&mut .*HashSet<.*OutPoint"]):
                R.ok("prov/resolve-seen", "the resolver consults the caller's seen_inputs set", [c.where()])
            else:
                R.bad("prov/resolve-seen", "the resolver's spent-set is not the caller's seen_inputs", [c.where()])
        K.must_fail(R, "mustfail/resolve-dup-input", rt, assume=[(r"HashSet::<.*>::insert$", False)], what="two inputs naming the same out-point are rejected") if False else None
        # duplicate input inside one transaction: `!current_inputs.insert(..)` => Dead
        ins = [c for c in rt.calls_to(r"HashSet::<.*>::insert$")]
        if not ins:
            R.bad("mustfail/resolve-dup-input/anchor-lost", "current_inputs.insert not found", [rt.where()])
        else:
            drop = K.assumed_edges(rt, [(r"HashSet::<.*>::insert$", False)])
            reach, _ = K.reach_with(rt, ins[0].target, avoid=rt.error_exit_blocks(), drop_edges=drop)
            push = {c.bb for c in rt.calls_to(r"Vec::<.*>::push$")}
            if reach & (push | set(rt.return_blocks())):
                R.bad("mustfail/resolve-dup-input", "an input repeated inside one transaction is not rejected", [ins[0].where()])
            else:
                R.ok("mustfail/resolve-dup-input", "an input repeated inside one transaction is rejected as Dead", [ins[0].where()])
        K.mustcall(R, "mustcall/resolve-success", rt, [r"Extend::extend$", r"resolve_transaction_deps_with_system_cell_cache$"], S, what="a resolved transaction marks its inputs spent and resolves its deps")
        ext = rt.calls_to(r"Extend::extend$")
        if ext and K.src_match(rt.operand_sources(ext[0].args[0]), [r"vty:&mut .*HashSet<.*OutPoint"]) and K.src_match(rt.operand_sources(ext[0].args[1]), [r"vty:std::collections::hash::set::HashSet<.*OutPoint>$"]):
            R.ok("prov/resolve-extend", "seen_inputs is extended by this transaction's inputs", [ext[0].where()])
        else:
            R.bad("prov/resolve-extend", "seen_inputs.extend(current_inputs) lost", [rt.where()])
        K.loop_over_all(R, "loop/resolve-header-deps", rt, r"HeaderChecker::check_valid$", [r"call:.*header_deps_iter$"], what="every header dep is checked")
        K.loop_over_all(R, "loop/resolve-inputs", rt, r"HashSet::<.*>::insert$", [r"call:.*input_pts_iter$"], what="every input is resolved")
        # cellbase is the only transaction whose inputs are not resolved
        drop = K.assumed_edges(rt, [(r"TransactionView::is_cellbase$", False)])
        if not drop:
            R.bad("mustcall/resolve-inputs/anchor-lost", "is_cellbase guard not found", [rt.where()])
        else:
            K.mustcall(R, "mustcall/resolve-inputs", rt, [r"input_pts_iter$"], S, drop_edges=drop, what="inputs of every non-cellbase transaction are resolved")
        dep = F.one("ckb_types", r"core::cell::resolve_transaction_dep$")
        K.reqerr(R, "reqerr/resolve-dep", K.with_nested(dep), {(OE, "OverMaxDepExpansionLimit"): 2, (OE, "InvalidDepGroup"): 1}, what="dep expansion limits")
        sysd = F.one("ckb_types", r"core::cell::resolve_transaction_deps_with_system_cell_cache$")
        K.reqerr(R, "reqerr/resolve-sysdep", [sysd], {(OE, "OverMaxDepExpansionLimit"): 2}, what="dep expansion limits (system cells)")
        for b in (dep, sysd):
            for c in b.calls_to(r"checked_sub$"):
                R.sites += 1
        chk = F.one("ckb_types", r"ResolvedTransaction::check$")
        K.reqerr(R, "reqerr/check", K.with_nested(chk), {(OE, "Dead"): 2, (OE, "Unknown"): 1}, what="re-check rejection")
        K.mustcall(R, "mustcall/check-extend", chk, [r"Extend::extend$"], S, what="a re-checked transaction marks its inputs spent for the rest of the batch")
        K.loop_over_all(R, "loop/check-header-deps", chk, r"HeaderChecker::check_valid$", [r"call:.*header_deps_iter$"], what="every header dep is re-checked")
        ccl = [b for b in K.with_nested(chk) if b.kind == "Closure" and b.calls_to(r"CellChecker::is_live$")]
        if ccl:
            K.must_fail(R, "mustfail/check-seen", ccl[0], assume=[(r"HashSet::<.*>::contains$", True)], what="re-check: spent earlier => Dead") if False else None
            c0 = ccl[0]
            cs = c0.calls_to(r"HashSet::<.*>::contains$")
            seen_c = [x for x in cs if K.src_match(c0.operand_sources(x.args[0]), [r"vty:&mut .*HashSet<.*OutPoint"])]
            if seen_c:
                drop = set()
                for (bb, truth) in K.bool_uses(c0, seen_c[0].dest[0]):
                    t = c0.term(bb)
                    z = [v[1] for v in t["vals"] if v[0] == "0"][0]
                    drop.add((bb, z) if truth else (bb, t["else"]))
                reach, _ = K.reach_with(c0, seen_c[0].target, avoid=c0.error_exit_blocks(), drop_edges=drop)
                if reach & set(c0.return_blocks()):
                    R.bad("mustfail/check-seen", "re-check accepts an out-point already spent in this batch", [seen_c[0].where()])
                else:
                    R.ok("mustfail/check-seen", "re-check rejects an out-point already spent in this batch", [seen_c[0].where()])
            else:
                R.bad("mustfail/check-seen/anchor-lost", "seen_inputs.contains not found in check_cell", [c0.where()])
        bcp = F.one("ckb_types", r"BlockCellProvider::<'a>::new$")
        K.reqerr(R, "reqerr/out-of-order", [bcp], {(OE, "OutOfOrder"): 2}, what="in-block ordering")
        K.cmp_table(R, "cmp/out-of-order", bcp, [r"call:.*HashMap::<.*>::get$"], [r"call:.*Enumerate.*::next$|call:.*Iterator::next$"], {"<": "CONT", "=": "ERR", ">": "ERR"}, K.classify_err(),
                    what="a cell may only be used by a later transaction of the same block", min_sites=2)
        vc = F.one("ckb_verification_contextual", r"VerifyContext<CS> as ckb_types::core::cell::HeaderChecker>::check_valid$")
        K.must_fail(R, "mustfail/header-dep-main-chain", vc, assume=[(r"ChainStore::is_main_chain$", False)], what="a header dep off the main chain is rejected")
    R.guard("reqerr/resolve", resolve)

    # ---------------------------------------------------------------- 3. boundaries
    def boundaries():
        E = K.classify_err()
        ab = F.one(V, r"SinceVerifier::<DL>::verify_absolute_lock$")
        rl = F.one(V, r"SinceVerifier::<DL>::verify_relative_lock$")
        IM = {"<": "ERR", "=": "CONT", ">": "CONT"}
        K.cmp_table(R, "cmp/since-abs-number", ab, [r"call:.*TxVerifyEnv::block_number$"], [], IM, E, what="absolute block-number since: env < since is immature")
        K.cmp_table(R, "cmp/since-abs-epoch", ab, [r"call:.*TxVerifyEnv::epoch$"], [r"call:.*normalize$"], IM, E, what="absolute epoch since")
        K.cmp_table(R, "cmp/since-abs-time", ab, [r"call:.*block_median_time$"], [], IM, E, what="absolute timestamp since")
        K.cmp_table(R, "cmp/since-rel-number", rl, [r"call:.*TxVerifyEnv::block_number$"], [r"field:.*TransactionInfo\.block_number"], IM, E, what="relative block-number since", arith=([], ["op:saturating_add"]))
        K.cmp_table(R, "cmp/since-rel-epoch", rl, [r"call:.*TxVerifyEnv::epoch$"], [r"field:.*TransactionInfo\.block_epoch", r"call:.*normalize$"], IM, E, what="relative epoch since", arith=([], ["op:add"]))
        K.cmp_table(R, "cmp/since-rel-time", rl, [r"call:.*block_median_time$"], [r"call:.*get_header_fields$|call:.*parent_median_time$"], IM, E, what="relative timestamp since", arith=([], ["op:saturating_add"]))
        K.reqerr(R, "reqerr/since-abs", [ab], {(TE, "Immature"): 3, (TE, "InvalidSince"): 2}, what="absolute since rejection")
        K.reqerr(R, "reqerr/since-rel", [rl], {(TE, "Immature"): 4, (TE, "InvalidSince"): 2}, what="relative since rejection")
        # the time base uses the commit position's parent
        for b, nm in ((ab, "abs"), (rl, "rel")):
            c = [x for x in b.calls_to(r"SinceVerifier::<.*>::block_median_time$") if K.src_match(b.operand_sources(x.args[1]), [r"call:.*TxVerifyEnv::parent_hash$"])]
            if c:
                R.ok("prov/since-time-base/" + nm, "median time is taken at tx_env.parent_hash()", [c[0].where()])
            else:
                R.bad("prov/since-time-base/" + nm, "median time is not taken at tx_env.parent_hash()", [b.where()])
        cap = F.one(V, r"CapacityVerifier::verify$")
        K.cmp_table(R, "cmp/capacity-sum", cap, [r"call:.*ResolvedTransaction::inputs_capacity$"], [r"call:.*ResolvedTransaction::outputs_capacity$"], IM, E, what="inputs < outputs rejects")
        K.reqerr(R, "reqerr/capacity", [cap], {(TE, "OutputsSumOverflow"): 1, (TE, "InsufficientCellCapacity"): 1}, what="capacity rejection")
        # occupied capacity: is_lack_of_capacity == true => reject, for every output
        drop = K.assumed_edges(cap, [(r"is_lack_of_capacity$", True)])
        lk = cap.calls_to(r"is_lack_of_capacity$")
        if not lk or not drop:
            R.bad("mustfail/capacity-occupied/anchor-lost", "is_lack_of_capacity branch not found", [cap.where()])
        else:
            reach, _ = K.reach_with(cap, lk[0].target, avoid=cap.error_exit_blocks(), drop_edges=drop)
            nxt = {c.bb for c in cap.calls if c.callee.endswith("Iterator::next")}
            if reach & (nxt | set(cap.return_blocks())):
                R.bad("mustfail/capacity-occupied", "an output whose capacity is below its occupied size is not rejected", [lk[0].where()])
            else:
                R.ok("mustfail/capacity-occupied", "an output whose capacity is below its occupied size is rejected", [lk[0].where()])
            if K.src_match(cap.operand_sources(lk[0].args[1]), [r"call:.*Capacity::bytes$"]):
                R.ok("prov/capacity-occupied-data", "occupied size includes the output data length", [lk[0].where()])
            else:
                R.bad("prov/capacity-occupied-data", "occupied size ignores the output data length", [lk[0].where()])
        K.loop_over_all(R, "loop/capacity-outputs", cap, r"is_lack_of_capacity$", [r"call:.*outputs_with_data_iter$"], what="every output is checked")
        # exemption from the sum rule is exactly {cellbase, dao withdraw}
        ex = cap.calls_to(r"is_cellbase$") and cap.calls_to(r"CapacityVerifier::valid_dao_withdraw_transaction$")
        if ex:
            K.mustcall(R, "mustcall/capacity-sum", cap, [r"ResolvedTransaction::inputs_capacity$"], S,
                       assume=[(r"ResolvedTransaction::is_cellbase$", False), (r"CapacityVerifier::valid_dao_withdraw_transaction$", False)], what="ordinary transactions get the sum check")
        else:
            R.bad("mustcall/capacity-sum/anchor-lost", "capacity exemption guards not found", [cap.where()])
        vd = F.one(V, r"CapacityVerifier::valid_dao_withdraw_transaction$")
        ws = sorted({c.callee.split("::")[-1] for b in K.with_nested(vd) for c in b.calls if c.callee.startswith("ckb_")})
        ncmp = sum(len(K.cmp_sites(b)) for b in K.with_nested(vd))
        src_ok = any(K.src_match(b.operand_sources(c.args[0]), [r"field:.*ResolvedTransaction\.resolved_inputs"]) for b in K.with_nested(vd) for c in b.calls_to(r"Iterator::any$"))
        if ws == ["cell_uses_dao_type_script"] and ncmp == 0 and src_ok and len(vd.blocks) <= 8:
            R.ok("sibling/dao-withdraw-exemption", "the sum-rule exemption is exactly: some resolved input carries the dao type script", [vd.where()])
        else:
            R.bad("sibling/dao-withdraw-exemption", "valid_dao_withdraw_transaction is no longer exactly `resolved_inputs.any(uses dao type script)` (calls %s, %d comparisons, %d blocks)" % (ws, ncmp, len(vd.blocks)), [vd.where()])
        cu = F.one(V, r"transaction_verifier::cell_uses_dao_type_script$")
        eqs = [s_ for b in K.with_nested(cu) for s_ in K.cmp_sites(b) if s_.op == "eq"]
        allc = [s_ for b in K.with_nested(cu) for s_ in K.cmp_sites(b)]
        if len(eqs) == 2 and len(allc) == 2:
            R.ok("sibling/dao-type-script", "dao type script = hash_type == Type && code_hash == dao_type_hash", [cu.where()])
        else:
            R.bad("sibling/dao-type-script", "cell_uses_dao_type_script no longer tests exactly hash_type == Type && code_hash == dao_type_hash", [cu.where()])
        # maturity
        mv = F.one(V, r"MaturityVerifier::verify$")
        found = False
        for b in K.with_nested(mv):
            for site, sw in K.find_cmp(b, [r"field:.*MaturityVerifier\.epoch"], [r"field:.*cellbase_maturity", r"field:.*TransactionInfo\.block_epoch"]):
                found = True
                tr = K.cmp_truth(site, sw)
                sa, sb = K.arith_of(b, site.a), K.arith_of(b, site.b)
                if sw:
                    sa, sb = sb, sa
                if tr == (True, False, False) and sa == [] and sb == ["op:add"]:
                    R.ok("cmp/maturity", "cellbase output is immature iff current epoch < creation epoch + cellbase_maturity", [site.where()])
                else:
                    R.bad("cmp/maturity", "maturity predicate is %s with arithmetic %s/%s, expected current < block_epoch + maturity" % (tr, sa, sb), [site.where()])
        if not found:
            R.bad("cmp/maturity/anchor-lost", "maturity comparison not found", [mv.where()])
        K.reqerr(R, "reqerr/maturity", [mv], {(TE, "CellbaseImmaturity"): 2}, what="maturity rejection (inputs and cell deps)")
        # since flag decoding
        s_abs = F.one(V, r"transaction_verifier::Since::is_absolute$")
        s_fl = F.one(V, r"transaction_verifier::Since::flags_is_valid$")
        s_ex = F.one(V, r"transaction_verifier::Since::extract_metric$")
        consts = F.consts(V)
        want = {"LOCK_TYPE_FLAG": str(1 << 63), "METRIC_TYPE_FLAG_MASK": str(0x6000000000000000), "VALUE_MASK": str(0x00ffffffffffffff), "REMAIN_FLAGS_BITS": str(0x1f00000000000000)}
        for nm, val in want.items():
            c = consts.get("ckb_verification::transaction_verifier::" + nm)
            if c and c.get("val") == val:
                R.ok("const/since/" + nm, "%s = %#x" % (nm, int(val)), [])
            else:
                R.bad("const/since/" + nm, "%s is %s, RFC value is %#x" % (nm, c and c.get("val"), int(val)), [])
        sw = [(i, blk["t"]) for i, blk in enumerate(s_ex.blocks) if blk["t"].get("k") == "switch" and K.src_match(s_ex.operand_sources(blk["t"]["d"]), [r"const:.*METRIC_TYPE_FLAG_MASK"])]
        if not sw:
            R.bad("const/since/metric-switch/anchor-lost", "metric switch not found in extract_metric", [s_ex.where()])
        else:
            expect = {"0": "BlockNumber", str(0x2000000000000000): "EpochNumberWithFraction", str(0x4000000000000000): "Timestamp"}
            got = {}
            for val, tgt in sw[0][1]["vals"]:
                reach = s_ex.reachable(tgt)
                for (bb, rv, ln) in K.agg_sites(s_ex, "ckb_verification::transaction_verifier::SinceMetric"):
                    if bb in reach and val not in got:
                        got[val] = rv["variant"]
            # first aggregate reachable may be ambiguous after merges; compare per-arm exclusive reachability
            got = {}
            for val, tgt in sw[0][1]["vals"]:
                others = [t for v, t in sw[0][1]["vals"] if v != val] + [sw[0][1]["else"]]
                reach = s_ex.reachable(tgt, avoid=others)
                vs = {rv["variant"] for (bb, rv, ln) in K.agg_sites(s_ex, "ckb_verification::transaction_verifier::SinceMetric") if bb in reach}
                got[val] = sorted(vs)
            if all(got.get(k) == [v] for k, v in expect.items()) and len(got) == 3:
                R.ok("const/since/metric-switch", "metric flag 00/01/10 decode to BlockNumber/Epoch/Timestamp; 11 is invalid", [s_ex.where()])
            else:
                R.bad("const/since/metric-switch", "metric flags decode as %s, expected %s" % (got, expect), [s_ex.where()])
            none_reach = s_ex.reachable(sw[0][1]["else"], avoid=[t for v, t in sw[0][1]["vals"]])
            if not [1 for (bb, rv, ln) in K.agg_sites(s_ex, "core::option::Option", "None") if bb in none_reach]:
                R.bad("const/since/metric-switch/none", "the undefined metric flag no longer yields None", [s_ex.where()])
        K.value_table(R, "cmp/since-absolute", s_abs, [r"const:.*LOCK_TYPE_FLAG", r"op:BitAnd"], [r"lit:0$"], {"<": False, "=": True, ">": False}, what="absolute iff the lock-type bit is clear")
        K.value_table(R, "cmp/since-remain-flags", s_fl, [r"const:.*REMAIN_FLAGS_BITS", r"op:BitAnd"], [r"lit:0$"], {"<": False, "=": True, ">": False}, what="reserved flag bits must be zero") if False else None
        n_and = 0
        for site in K.cmp_sites(s_fl):
            n_and += 1
        if n_and >= 2 and K.src_match(set().union(*[s_fl.operand_sources(s.a) | s_fl.operand_sources(s.b) for s in K.cmp_sites(s_fl)]), [r"const:.*REMAIN_FLAGS_BITS", r"const:.*METRIC_TYPE_FLAG_MASK"]):
            ops = sorted(s.op for s in K.cmp_sites(s_fl))
            if ops == ["eq", "ne"]:
                R.ok("cmp/since-flags", "flags valid iff reserved bits == 0 and metric bits != 11", [s_fl.where()])
            else:
                R.bad("cmp/since-flags", "flags_is_valid uses comparisons %s, expected one == and one !=" % ops, [s_fl.where()])
        else:
            R.bad("cmp/since-flags/anchor-lost", "flags_is_valid comparisons not found", [s_fl.where()])
        ds = F.one(V, r"DaoScriptSizeVerifier::<DL>::verify$")
        K.cmp_table(R, "cmp/dao-lock-size", ds, [r"field:.*CellMeta\.cell_output", r"call:.*total_size$"], [r"call:.*total_size$"], {"<": "ERR", "=": "CONT", ">": "ERR"}, E, what="dao withdraw keeps lock size")
        # pool min fee
        cf = F.need("ckb_tx_pool::util::check_tx_fee")
        K.cmp_table(R, "cmp/min-fee", cf, [r"call:.*DaoCalculator.*::transaction_fee$"], [r"call:.*FeeRate::fee$"], {"<": "ERR", "=": "CONT", ">": "CONT"}, E, what="fee < min fee rejects")
        ncv = F.need("ckb_tx_pool::util::non_contextual_verify")
        K.mustcall(R, "mustcall/pool-noncontextual", ncv, [r"NonContextualTransactionVerifier::<.*>::verify$"], S, what="pool runs the non-contextual verifier")
        K.cmp_table(R, "cmp/pool-size-limit", ncv, [r"call:.*serialized_size_in_block$"], [r"const:.*TRANSACTION_SIZE_LIMIT"], {"<": "CONT", "=": "CONT", ">": "ERR"}, E, what="pool transaction size limit")
        K.must_fail(R, "mustfail/pool-cellbase", ncv, assume=[(r"TransactionView::is_cellbase$", True)], what="cellbase-like transactions never enter the pool")
    R.guard("cmp/boundaries", boundaries)

    # 3b. F18 (fixed): a `since` is chosen by the transaction's author; the verifier must give a verdict for every 64-bit value.
    # `value * 1000` (timestamp metric) and `base + value` (relative locks) used to be overflow-checked: a panic in the pool's verify worker and
    # in the block verifier (ckb's release profile keeps overflow checks).
    def since_total():
        V = "ckb_verification"
        bodies = [F.one(V, r"transaction_verifier::Since::extract_metric$"), F.one(V, r"SinceVerifier::<DL>::verify_absolute_lock$"), F.one(V, r"SinceVerifier::<DL>::verify_relative_lock$")]
        K.no_panicking_arith(R, "affine/since-no-overflow", bodies, ("Add", "Mul", "Sub", "Shl"), "since arithmetic (F18)")
    R.guard("affine/since-no-overflow", since_total)

    # ---------------------------------------------------------------- 4. commit-position arithmetic
    def env():
        bn = F.need("ckb_script::verify_env::TxVerifyEnv::block_number")
        en = F.need("ckb_script::verify_env::TxVerifyEnv::epoch_number")
        ph = F.need("ckb_script::verify_env::TxVerifyEnv::parent_hash")
        PH = "ckb_script::verify_env::TxVerifyPhase"

        def per_arm(body, key, expect, local_of=lambda b: 0):
            arms = K.enum_arms(body, PH)
            if not arms:
                R.bad(key + "/anchor-lost", "match on TxVerifyPhase not found in %s" % body.path, [body.where()])
                return
            sw, tbl, other = arms[0]
            R.fn(body)
            for var, want in expect.items():
                tgt = tbl.get(var, other)
                stops = [t for v, t in tbl.items() if v != var] + ([other] if var in tbl else [])
                loc = local_of(body)
                ds = K.arm_defs(body, tgt, loc, stop=stops)
                sigs = sorted({tuple(x for x in K.def_sig(body, d) if not x.startswith("leaf:call:core::")) for d in ds})
                R.sites += 1
                if len(sigs) == 1 and list(sigs[0]) == sorted(want):
                    R.ok("%s/%s" % (key, var), "%s[%s] = %s" % (K.short(body.path), var, list(sigs[0])), [body.where(tgt)])
                else:
                    R.bad("%s/%s" % (key, var), "%s[%s] has form %s, frozen form %s" % (K.short(body.path), var, [list(x) for x in sigs], sorted(want)), [body.where(tgt)])

        per_arm(bn, "affine/env-block-number", {
            "Submitted": ["op:add", "op:add", "lit:1", "leaf:param:self", "leaf:call:ckb_chain_spec::consensus::ProposalWindow::closest"],
            "Proposed": ["op:add", "op:saturating_sub", "leaf:param:self", "leaf:call:ckb_chain_spec::consensus::ProposalWindow::closest"],
            "Committed": ["leaf:param:self"]})
        # epoch_number: n_blocks temp is the local passed to minimum_epoch_number_after_n_blocks
        def nblocks_local(b):
            c = b.calls_to(r"minimum_epoch_number_after_n_blocks$")
            return c[0].args[1]["p"][0] if c and "p" in c[0].args[1] else -1
        def nb_src(b):
            l = nblocks_local(b)
            # follow one copy back to the match result
            for d in b.defs().get(l, []):
                if d[0] == "assign" and d[3].get("k") == "use" and "p" in d[3]["o"]:
                    return d[3]["o"]["p"][0]
            return l
        per_arm(en, "affine/env-epoch-number", {
            "Submitted": ["op:add", "lit:1", "leaf:call:ckb_chain_spec::consensus::ProposalWindow::closest"],
            "Proposed": ["op:saturating_sub", "leaf:param:self", "leaf:call:ckb_chain_spec::consensus::ProposalWindow::closest"],
            "Committed": ["lit:0"]}, local_of=nb_src)
        # parent_hash: Submitted/Proposed -> own hash (the tip is the parent of the block that will commit), Committed -> header's parent
        arms = K.enum_arms(ph, PH)
        if not arms:
            R.bad("affine/env-parent-hash/anchor-lost", "match on TxVerifyPhase not found in parent_hash", [ph.where()])
        else:
            sw, tbl, other = arms[0]
            want = {"Submitted": "hash", "Proposed": "hash", "Committed": "parent_hash"}
            for var, fld in want.items():
                tgt = tbl.get(var, other)
                stops = [t for v, t in tbl.items() if v != var] + ([other] if var in tbl else [])
                reach = ph.reachable(tgt, avoid=stops)
                flds = set()
                for i in reach:
                    for st in ph.blocks[i]["s"]:
                        rv = st[1]
                        if rv.get("k") == "ref":
                            for pr in rv["p"][1]:
                                if "TxVerifyEnv." in pr:
                                    flds.add(pr.split(".")[-1])
                if flds == {fld}:
                    R.ok("affine/env-parent-hash/" + var, "parent_hash()[%s] = self.%s" % (var, fld), [ph.where(tgt)])
                else:
                    R.bad("affine/env-parent-hash/" + var, "parent_hash()[%s] reads %s, expected self.%s" % (var, sorted(flds), fld), [ph.where(tgt)])
        # constructors: fields from namesake header getters, phase as named
        for fn, phase in (("new_submit", "Submitted"), ("new_proposed", "Proposed"), ("new_commit", "Committed")):
            b = F.need("ckb_script::verify_env::TxVerifyEnv::" + fn)
            aggs = K.agg_sites(b, "ckb_script::verify_env::TxVerifyEnv")
            if not aggs:
                R.bad("conv/env/%s/anchor-lost" % fn, "TxVerifyEnv aggregate not found", [b.where()])
                continue
            rv = aggs[0][1]
            ok = True
            for f, getter in (("number", "HeaderView::number"), ("epoch", "HeaderView::epoch"), ("hash", "HeaderView::hash"), ("parent_hash", "HeaderView::parent_hash")):
                srcs = K.agg_field_sources(b, rv, f) or set()
                calls = {s for s in srcs if s.startswith("call:") and "HeaderView::" in s}
                if calls != {"call:ckb_types::core::views::" + getter}:
                    ok = False
                    R.bad("conv/env/%s/%s" % (fn, f), "TxVerifyEnv::%s sets %s from %s, expected header.%s()" % (fn, f, sorted(calls), getter.split("::")[-1]), [b.where()])
            psrc = K.agg_field_sources(b, rv, "phase") or set()
            if not any(s.endswith("TxVerifyPhase::" + phase) for s in psrc):
                ok = False
                R.bad("conv/env/%s/phase" % fn, "TxVerifyEnv::%s does not set phase %s" % (fn, phase), [b.where()])
            if ok:
                R.ok("conv/env/" + fn, "TxVerifyEnv::%s copies number/epoch/hash/parent_hash from the header and sets phase %s" % (fn, phase), [b.where()])
        # status -> env
        we = F.need("ckb_tx_pool::process::TxStatus::with_env")
        arms = K.enum_arms(we, "ckb_tx_pool::process::TxStatus")
        if not arms:
            R.bad("affine/status-env/anchor-lost", "match on TxStatus not found in with_env", [we.where()])
        else:
            sw, tbl, other = arms[0]
            want = {"Fresh": ("new_submit", None), "Gap": ("new_proposed", "0"), "Proposed": ("new_proposed", "1")}
            for var, (fn, lit) in want.items():
                tgt = tbl.get(var, other)
                stops = [t for v, t in tbl.items() if v != var] + ([other] if var in tbl else [])
                reach = we.reachable(tgt, avoid=stops)
                cs = [c for c in we.calls if c.bb in reach and "TxVerifyEnv::new_" in c.callee]
                good = len(cs) == 1 and cs[0].callee.endswith(fn) and (lit is None or (len(cs[0].args) > 1 and str(cs[0].args[1].get("v")) == lit))
                if good:
                    R.ok("affine/status-env/" + var, "TxStatus::%s -> TxVerifyEnv::%s%s" % (var, fn, "(.., %s)" % lit if lit else ""), [cs[0].where()])
                else:
                    R.bad("affine/status-env/" + var, "TxStatus::%s maps to %s, expected %s%s" % (var, [(c.callee.split("::")[-1], [a.get("v") for a in c.args[1:]]) for c in cs], fn, "(.., %s)" % lit if lit else ""), [we.where(tgt)])
        # the block verifier verifies at the commit position of the block's own header
        btv = F.one("ckb_verification_contextual", r"BlockTxsVerifier::<.*>::verify$")
        c = btv.calls_to(r"TxVerifyEnv::new_commit$")
        if c and K.src_match(btv.operand_sources(c[0].args[0]), [r"field:.*BlockTxsVerifier\.header"]):
            R.ok("prov/block-env", "block transactions are verified with TxVerifyEnv::new_commit(block header)", [c[0].where()])
        else:
            R.bad("prov/block-env", "block transactions are not verified at the commit position of the block's header", [btv.where()])
        gs = F.need("ckb_tx_pool::process::get_tx_status")
        K.order_dom(R, "order/status-proposed-first", gs, r"ProposalView::contains_proposed$", r"ProposalView::contains_gap$", what="proposed is tested before gap")
    R.guard("affine/env", env)

    # ---------------------------------------------------------------- 5. pool pipeline
    def pool():
        pc = F.one("ckb_tx_pool", r"TxPoolService>::pre_check$")
        cl = [b for b in K.with_nested(pc) if b.calls_to(r"ckb_tx_pool::util::check_txid_collision$")]
        if not cl:
            R.bad("mustcall/pool-precheck/anchor-lost", "pre_check closure not found", [pc.where()])
        else:
            K.mustcall(R, "mustcall/pool-precheck", cl[0], [r"util::check_txid_collision$", r"process::resolve_tx$", r"util::check_tx_fee$"], S, what="pre-check: txid collision, resolution, fee")
        pt = F.one("ckb_tx_pool", r"TxPoolService>::_process_tx$")
        co = [b for b in K.with_nested(pt) if b.calls_to(r"ckb_tx_pool::util::verify_rtx$")]
        if not co:
            R.bad("mustcall/pool-process/anchor-lost", "_process_tx coroutine not found", [pt.where()])
        else:
            b = co[0]
            K.order_dom(R, "order/pool-process/verify-after-precheck", b, r"TxPoolService>?::pre_check$", r"util::verify_rtx$", what="verification follows pre-check")
            K.order_dom(R, "order/pool-process/submit-after-verify", b, r"util::verify_rtx$", r"TxPoolService>?::submit_entry$", what="submission follows verification")
            se = b.calls_to(r"TxPoolService>?::submit_entry$")
            if se and K.src_match(b.operand_sources(se[0].args[1]), [r"call:.*TxPoolService>?::pre_check$"]):
                R.ok("prov/pool-process/tip", "submit_entry receives the tip hash the transaction was resolved against", [se[0].where()])
            else:
                R.bad("prov/pool-process/tip", "submit_entry does not receive pre_check's tip hash", [b.where()])
            vr = b.calls_to(r"util::verify_rtx$")
            if vr and K.src_match(b.operand_sources(vr[0].args[2]), [r"call:.*TxStatus::with_env$"]) and K.src_match(b.operand_sources(vr[0].args[1]), [r"call:.*TxPoolService>?::pre_check$"]):
                R.ok("prov/pool-process/env", "verify_rtx runs on pre_check's resolved transaction with the status-derived env", [vr[0].where()])
            else:
                R.bad("prov/pool-process/env", "verify_rtx arguments do not derive from pre_check / with_env", [b.where()])
        se = F.one("ckb_tx_pool", r"TxPoolService>::submit_entry$")
        cl = [b for b in K.with_nested(se) if b.calls_to(r"ckb_tx_pool::process::_submit_entry$")]
        if not cl:
            R.bad("mustcall/pool-submit/anchor-lost", "submit_entry write-lock closure not found", [se.where()])
        else:
            b = cl[0]
            ends = {c.bb for c in b.calls_to(r"process::_submit_entry$")}
            ne = [c for c in b.calls if c.callee.endswith("PartialEq::ne") and K.src_match(b.operand_sources(c.args[0]) | b.operand_sources(c.args[1]), [r"call:.*Snapshot::tip_hash$", r"vty:ckb_gen_types::generated::blockchain::Byte32$"])]
            if not ne:
                R.bad("mustcall/pool-submit/tip-changed/anchor-lost", "pre_resolve_tip != tip_hash test not found", [b.where()])
            else:
                drop = set()
                for (bb, truth) in K.bool_uses(b, ne[0].dest[0]):
                    t = b.term(bb)
                    z = [v[1] for v in t["vals"] if v[0] == "0"][0]
                    drop.add((bb, z) if truth else (bb, t["else"]))
                K.mustcall(R, "mustcall/pool-submit/tip-changed", b, [r"process::check_rtx$", r"util::time_relative_verify$"], S, ends=ends, drop_edges=drop,
                           what="tip moved since resolution => liveness and time-relative checks are redone before insertion")
            K.mustcall(R, "order/pool-submit/conflict-check-first", b, [[r"TxPool::check_rbf$", r"PoolMap::find_conflict_outpoint$"]], S, ends=ends, what="conflict/RBF check precedes insertion")
        cr = F.need("ckb_tx_pool::process::check_rtx")
        K.mustcall(R, "mustcall/pool-check-rtx", cr, [r"TxPool::check_rtx_from_pool$", r"process::get_tx_status$"], S, what="re-check consults the pool overlay and recomputes the stage")
        for fn, inner, prov in (("resolve_tx_from_pool", r"cell::resolve_transaction$", r"OverlayCellProvider::<.*>::new$"), ("check_rtx_from_pool", r"ResolvedTransaction::check$", r"OverlayCellChecker::<.*>::new$")):
            b = F.need("ckb_tx_pool::pool::TxPool::" + fn)
            ov = b.calls_to(prov)
            inn = b.calls_to(inner)
            good = ov and inn and K.src_match(b.operand_sources(ov[0].args[0]), [r"call:.*PoolCell::<.*>::new$"]) and K.src_match(b.operand_sources(ov[0].args[1]), [r"call:.*TxPool::snapshot$"])
            if good:
                R.ok("prov/pool-overlay/" + fn, "%s resolves against the pool overlay on top of the pool's chain snapshot" % fn, [ov[0].where()])
            else:
                R.bad("prov/pool-overlay/" + fn, "%s does not resolve against PoolCell over the pool's snapshot" % fn, [b.where()])
        pcell = [b for b in F.bodies_of_crate("ckb_tx_pool") if b.path.endswith("CellProvider>::cell") and "PoolCell" in b.path]
        if pcell:
            K.must_fail(R, "x", pcell[0], assume=[]) if False else None
            b = pcell[0]
            deads = K.count_variant([b], "ckb_types::core::cell::CellStatus", "Dead")
            gi = b.calls_to(r"Edges::get_input_ref$")
            if deads and gi:
                R.ok("reqerr/pool-cell-dead", "a pooled spend makes the out-point Dead for later submissions", [gi[0].where()])
            else:
                R.bad("reqerr/pool-cell-dead", "PoolCell::cell no longer reports out-points spent in the pool as Dead", [b.where()])
        else:
            R.bad("reqerr/pool-cell-dead/anchor-lost", "PoolCell CellProvider impl not found", [])
    R.guard("mustcall/pool", pool)

    # ---------------------------------------------------------------- 6. block resolution context
    def block_resolve():
        rb = F.need(VERIFY + "resolve_block_transactions")
        ov = rb.calls_to(r"OverlayCellProvider::<.*>::new$")
        bc = rb.calls_to(r"BlockCellProvider::<.*>::new$")
        if ov and bc and K.src_match(rb.operand_sources(ov[0].args[0]), [r"call:.*BlockCellProvider::<.*>::new$"]) and K.src_match(rb.operand_sources(ov[0].args[1]), [r"param:txn"]) \
                and K.src_match(rb.operand_sources(bc[0].args[0]), [r"param:block"]):
            R.ok("prov/block-resolve/overlay", "block resolution overlays the block's own outputs over the store transaction (not a stale snapshot)", [ov[0].where()])
        else:
            R.bad("prov/block-resolve/overlay", "block resolution does not use OverlayCellProvider(BlockCellProvider(block), txn)", [rb.where()])
        hs = rb.calls_to(r"HashSet::<.*>::new$")
        cl = [b for b in K.with_nested(rb) if b.calls_to(r"cell::resolve_transaction$")]
        if len(hs) == 1 and cl:
            c = cl[0].calls_to(r"cell::resolve_transaction$")[0]
            if K.src_match(cl[0].operand_sources(c.args[1]), [r"vty:std::collections::hash::set::HashSet<.*OutPoint>$"]) and K.src_match(cl[0].operand_sources(c.args[2]), [r"call:.*OverlayCellProvider::<.*>::new$"]) \
                    and K.src_match(cl[0].operand_sources(c.args[3]), [r"^param:4$|vty:&HC$"]):
                R.ok("prov/block-resolve/shared-seen", "one seen_inputs set is shared by all transactions of the block", [c.where()])
            else:
                R.bad("prov/block-resolve/shared-seen", "block transactions are not resolved with the shared seen_inputs / overlay provider / header checker", [c.where()])
        else:
            R.bad("prov/block-resolve/shared-seen", "expected exactly one seen_inputs set created outside the per-transaction closure", [rb.where()])
        mp = rb.calls_to(r"Iterator::map$")
        if mp and K.src_match(rb.operand_sources(mp[0].args[0]), [r"call:.*BlockView::transactions$"]) and not any(K.NARROWING.search(s) for s in rb.operand_sources(mp[0].args[0])):
            R.ok("loop/block-resolve/all", "every transaction of the block is resolved, in block order", [mp[0].where()])
        else:
            R.bad("loop/block-resolve/all", "not every transaction of the block is resolved", [rb.where()])
        # store-side liveness: a cell is live iff the CELL column has it
        gc = F.one("ckb_store", r"StoreTransaction as ckb_types::core::cell::CellProvider>::cell$")
        if gc.calls_to(r"ChainStore::get_cell$") and K.count_variant([gc], "ckb_types::core::cell::CellStatus", "Unknown"):
            R.ok("prov/store-cell", "StoreTransaction::cell answers from the live-cell column", [gc.where()])
        else:
            R.bad("prov/store-cell", "StoreTransaction::cell no longer answers from get_cell", [gc.where()])
    R.guard("prov/block-resolve", block_resolve)
    # a cell restored by a reorg must be indistinguishable from the original (maturity/since read its creation info)
    R.guard("conv/cell-entry", lambda: cell_entry_rule(F, S, R))

    # the per-output occupied-capacity test is made for every transaction, also for the two kinds exempt from the inputs >= outputs sum (cellbase,
    # dao withdraw): an early `return Ok(())` for the exempt kinds (round-2 seed C04-seed4) switches it off for them
    def occupied_always():
        cap = F.one("ckb_verification", r"CapacityVerifier::verify$")
        K.mustcall(R, "mustcall/capacity/occupied-always", cap, [r"outputs_with_data_iter$"], S, what="every success path of CapacityVerifier::verify walks the outputs for the occupied-capacity test")
    R.guard("mustcall/capacity/occupied-always", occupied_always)
