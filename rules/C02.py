"""C02 - stored chain state and snapshots equal a replay (structural necessary conditions)."""
from collections import Counter

import kinds as K
from common import STORE_WRITES, store_effects, VERIFY, body_in, cell_entry_rule

CRATES = ["ckb_chain", "ckb_store", "ckb_shared", "ckb_snapshot"]
EXPLANATION = ("INVPAIR: attach/detach, insert/delete cells and insert/delete block write and delete the same column multisets; "
               "MUSTCALL/FOLLOWS: every attach_block site is followed by attach_block_cell and an MMR push, the rollback loop calls both undo halves and walks detached blocks in reverse; "
               "ORDER: one commit per import, no store write after it, tip row locked before any write, snapshot published only after commit; "
               "WHOCALLS: main-chain mutators and snapshot publication are called only from the verify-thread bodies; API-surface: Snapshot/StoreSnapshot expose no write path.")
NOT_DECIDED = "equality of the whole persisted state with an independent replay (needs execution)"

ST = "ckb_store::transaction::StoreTransaction::"
WB = "ckb_store::write_batch::StoreWriteBatch::"


def run(F, S, R, tier):
    vb = F.need(VERIFY + "verify_block")
    rec = F.need(VERIFY + "reconcile_main_chain")
    rb = F.need(VERIFY + "rollback")
    tr = F.need(VERIFY + "truncate")

    # ---- 1. INVPAIR
    def invpair(name, fa, fb, expect):
        def go():
            ea = store_effects(F, S, F.need(fa))
            eb = store_effects(F, S, F.need(fb))
            R.fn(F.need(fa)); R.fn(F.need(fb))
            R.sites += sum(ea.values()) + sum(eb.values())
            puts = Counter({k[1]: v for k, v in ea.items() if k[0] == "put"})
            dels_a = Counter({k[1]: v for k, v in ea.items() if k[0] == "del"})
            dels = Counter({k[1]: v for k, v in eb.items() if k[0] == "del"})
            puts_b = Counter({k[1]: v for k, v in eb.items() if k[0] == "put"})
            key = "invpair/" + name
            if dels_a or puts_b:
                R.bad(key, "%s deletes %s / %s puts %s: a writer must only put and its inverse only delete" % (fa, dict(dels_a), fb, dict(puts_b)), [F.need(fa).where(), F.need(fb).where()])
            elif puts != dels:
                R.bad(key, "column multiset written by %s %s differs from the one deleted by %s %s" % (K.short(fa), dict(puts), K.short(fb), dict(dels)), [F.need(fa).where(), F.need(fb).where()])
            elif dict(puts) != expect:
                R.bad(key, "%s writes %s, frozen table says %s" % (K.short(fa), dict(puts), expect), [F.need(fa).where()])
            else:
                R.ok(key, "%s puts exactly what %s deletes: %s" % (K.short(fa), K.short(fb), dict(puts)), [F.need(fa).where(), F.need(fb).where()])
        R.guard("invpair/" + name, go)

    invpair("index", ST + "attach_block", ST + "detach_block", {"COLUMN_TRANSACTION_INFO": 1, "COLUMN_INDEX": 2, "COLUMN_UNCLES": 1})
    invpair("block", ST + "insert_block", ST + "delete_block",
            {"COLUMN_BLOCK_HEADER": 1, "COLUMN_BLOCK_UNCLE": 1, "COLUMN_BLOCK_EXTENSION": 1, "COLUMN_NUMBER_HASH": 1, "COLUMN_BLOCK_PROPOSAL_IDS": 1, "COLUMN_BLOCK_BODY": 1})

    def cells():
        # insert_cells writes CELL once and DATA/DATA_HASH on both arms; delete_cells deletes each once
        for owner in (ST, WB):
            ins = store_effects(F, S, F.need(owner + "insert_cells"))
            dele = store_effects(F, S, F.need(owner + "delete_cells"))
            R.fn(F.need(owner + "insert_cells")); R.fn(F.need(owner + "delete_cells"))
            pc = {k[1] for k in ins if k[0] == "put"}
            dc = {k[1] for k in dele if k[0] == "del"}
            want = {"COLUMN_CELL", "COLUMN_CELL_DATA", "COLUMN_CELL_DATA_HASH"}
            key = "invpair/cells-columns/" + owner.split("::")[-2]
            if pc != want or dc != want or any(k[0] == "del" for k in ins) or any(k[0] == "put" for k in dele):
                R.bad(key, "insert_cells puts %s, delete_cells deletes %s, expected both = %s" % (sorted(pc), sorted(dc), sorted(want)), [F.need(owner + "insert_cells").where()])
            else:
                R.ok(key, "%sinsert_cells/delete_cells touch exactly %s" % (owner.split("::")[-2] + "::", sorted(want)), [F.need(owner + "insert_cells").where(), F.need(owner + "delete_cells").where()])
            # data and data-hash written on both the Some and the None arm: 2 sites each
            if ins.get(("put", "COLUMN_CELL_DATA"), 0) < 2 or ins.get(("put", "COLUMN_CELL_DATA_HASH"), 0) < 2:
                R.bad(key + "/both-arms", "insert_cells must write CELL_DATA and CELL_DATA_HASH on both the data and the no-data arm (found %s)" % dict(ins), [F.need(owner + "insert_cells").where()])
            else:
                R.ok(key + "/both-arms", "CELL_DATA and CELL_DATA_HASH written on both arms (so a re-created empty cell overwrites stale data)", [F.need(owner + "insert_cells").where()])
    R.guard("invpair/cells-columns", cells)

    # ---- 1b. CellEntry built identically by attach and detach (shared with C04)
    R.guard("conv/cell-entry", lambda: cell_entry_rule(F, S, R))

    # ---- 2. attach triple / rollback pair
    R.guard("mustcall/attach-triple", lambda: K.follows(
        R, "mustcall/attach-triple", rec, ST + "attach_block$", [r"ckb_store::cell::attach_block_cell$", r"mmr::MMR::<.*>::push$"], S, min_sites=3,
        what="every attach_block is completed by attach_block_cell and a chain-root MMR push"))
    R.guard("mustcall/attach-order", lambda: K.order_dom(
        R, "mustcall/attach-order", rec, ST + "attach_block$", r"ckb_store::cell::attach_block_cell$", need_b=3,
        what="cells are attached only for a block whose index rows were attached"))
    R.guard("mustcall/rollback-pair", lambda: K.follows(
        R, "mustcall/rollback-pair", rb, ST + "detach_block$", [r"ckb_store::cell::detach_block_cell$"], S, min_sites=1,
        what="every detach_block is completed by detach_block_cell"))

    R.guard("loop/rollback-all", lambda: K.loop_over_all(
        R, "loop/rollback-all", rb, ST + "detach_block$", [r"call:.*ForkChanges::detached_blocks$"], what="every detached block is undone"))

    # ---- 3. rollback walks detached blocks in reverse; attach loops do not
    def reverse():
        key = "prov/reverse"
        nxt = [c for c in rb.calls if c.callee.endswith("Iterator::next")]
        R.sites += len(nxt)
        good = [c for c in nxt if K.src_match(rb.operand_sources(c.args[0]), [r"call:.*Iterator::rev$", r"call:.*ForkChanges::detached_blocks$"])]
        if not good:
            R.bad(key, "rollback's loop iterator does not derive from detached_blocks().rev(): blocks must be undone newest-first", [rb.where()])
        else:
            R.ok(key, "rollback iterates ForkChanges::detached_blocks through Iterator::rev", [good[0].where()])
        # the loop consuming that iterator is the one calling detach_block
        d = rb.calls_to(ST + "detach_block$")
        if good and d and not any(rb.dominates(g.bb, x.bb) for g in good for x in d):
            R.bad(key + "/loop", "detach_block is not inside the reversed loop", [d[0].where()])
        nx2 = [c for c in rec.calls if c.callee.endswith("Iterator::next")]
        R.sites += len(nx2)
        rev2 = [c for c in nx2 if K.src_match(rec.operand_sources(c.args[0]), [r"call:.*Iterator::rev$"])]
        if rev2:
            R.bad("prov/attach-forward", "reconcile_main_chain iterates attached blocks in reverse", [rev2[0].where()])
        elif len(nx2) < 2:
            R.bad("prov/attach-forward/anchor-lost", "expected 2 loops in reconcile_main_chain, found %d" % len(nx2), [rec.where()])
        else:
            R.ok("prov/attach-forward", "both attach loops of reconcile_main_chain iterate forward (oldest first)", [c.where() for c in nx2])
    R.guard("prov/reverse", reverse)

    # ---- 4. single commit, no write after commit, tip lock before writes
    WR = [r"StoreTransaction::(insert_\w+|delete\w*|attach_block|detach_block)$", r"ckb_store::cell::(attach|detach)_block_cell$"]
    for name, b in (("import", vb), ("truncate", tr)):
        def single(b=b, name=name):
            cs = b.calls_to(ST + "commit$")
            R.sites += len(cs)
            if len(cs) != 1:
                R.bad("order/single-commit/" + name, "%s has %d StoreTransaction::commit call sites, expected exactly 1" % (b.path, len(cs)), [c.where() for c in cs] or [b.where()])
            else:
                R.ok("order/single-commit/" + name, "%s commits its store transaction at exactly one site" % K.short(b.path), [cs[0].where()])
            bt = b.calls_to(r"ChainDB::begin_transaction$")
            if len(bt) != 1:
                R.bad("order/single-begin/" + name, "%s begins %d store transactions, expected 1" % (b.path, len(bt)), [b.where()])
            else:
                R.ok("order/single-begin/" + name, "%s begins exactly one store transaction" % K.short(b.path), [bt[0].where()])
        R.guard("order/single-commit/" + name, single)
        R.guard("order/no-write-after-commit/" + name, lambda b=b, name=name: K.never_after(
            R, "order/no-write-after-commit/" + name, b, ST + "commit$", STORE_WRITES, S, depth=4, what="no store mutation after the commit"))
        R.guard("order/writes-inside-txn/" + name, lambda b=b, name=name: K.order_dom(
            R, "order/writes-inside-txn/" + name, b, r"ChainDB::begin_transaction$", WR + [VERIFY.replace("::", "::") + "(rollback|reconcile_main_chain)$"], need_b=3,
            what="every mutation happens inside the transaction"))
        R.guard("order/publish-after-commit/" + name, lambda b=b, name=name: K.order_dom(
            R, "order/publish-after-commit/" + name, b, ST + "commit$", [r"Shared::store_snapshot$", r"Shared::new_snapshot$", r"Shared::refresh_snapshot$"], need_b=2,
            what="snapshot is built and published only after the commit"))
    R.guard("order/tip-lock", lambda: K.order_dom(
        R, "order/tip-lock", vb, ST + "get_update_for_tip_hash$", WR + [VERIFY + "(rollback|reconcile_main_chain)$"], need_b=5,
        what="the tip row is locked (get_for_update) before any write of the import transaction"))

    # commit error path publishes nothing: store_snapshot unreachable from error exits is implied by `?`;
    # check explicitly that the commit result is propagated (a dropped Result would publish after a failed commit)
    def commit_checked():
        for name, b in (("import", vb), ("truncate", tr)):
            for c in b.calls_to(ST + "commit$"):
                R.sites += 1
                nxt = b.term(c.target) if c.target is not None else {}
                ok = nxt.get("k") == "call" and (nxt.get("callee") or "").endswith("Try::branch")
                if ok:
                    R.ok("order/commit-checked/" + name, "commit()'s Result is propagated with `?`", [c.where()])
                else:
                    R.bad("order/commit-checked/" + name, "the Result of commit() at %s is not propagated: a failed commit would still publish a snapshot" % c.where(), [c.where()])
    R.guard("order/commit-checked", commit_checked)

    # ---- 5. who may call the main-chain mutators / publish snapshots
    allow_chain = {
        r"^ckb_chain::verify::ConsumeUnverifiedBlockProcessor::(verify_block|truncate|rollback|reconcile_main_chain)": "verify thread (single writer of the main chain)",
        r"^ckb_store::db::ChainDB::init$": "genesis initialisation",
        r"^ckb_store::cell::(attach|detach)_block_cell": "the cell half itself",
        r"^ckb_migrate::|^ckb_db_migration::|^ckb_launcher::migrate": "offline migrations (node not running)",
        r"^ckb_bin::subcommand::(import|replay|reset)": "offline subcommands",
    }
    for callee, mins in ((ST + "insert_tip_header$", 3), (ST + "insert_current_epoch_ext$", 3), (ST + "attach_block$", 4), (ST + "detach_block$", 1),
                         (r"ckb_store::cell::attach_block_cell$", 4), (r"ckb_store::cell::detach_block_cell$", 1)):
        R.guard("whocalls/" + K.label(callee), lambda callee=callee, mins=mins: K.whocalls(
            R, "whocalls/" + K.label(callee), F, callee, allow_chain, min_sites=mins, what="main-chain mutator"))
    R.guard("whocalls/store_snapshot", lambda: K.whocalls(
        R, "whocalls/store_snapshot", F, r"ckb_shared::shared::Shared::store_snapshot$",
        {r"^ckb_chain::verify::ConsumeUnverifiedBlockProcessor::(verify_block|truncate)$": "after the import/truncate commit",
         r"^ckb_shared::shared::Shared::refresh_snapshot$": "same tip, new store snapshot (side-chain insert)"}, min_sites=3, what="snapshot publication"))
    R.guard("whocalls/refresh_snapshot", lambda: K.whocalls(
        R, "whocalls/refresh_snapshot", F, r"ckb_shared::shared::Shared::refresh_snapshot$",
        {r"^ckb_chain::verify::ConsumeUnverifiedBlockProcessor::verify_block$": "side-chain arm, after commit",
         r"^ckb_chain::init": "chain service start-up"}, min_sites=1, what="snapshot refresh"))
    R.guard("whocalls/snapshot-mgr-store", lambda: K.whocalls(
        R, "whocalls/snapshot-mgr-store", F, r"ckb_snapshot::SnapshotMgr::store$",
        {r"^ckb_shared::shared::Shared::store_snapshot$": "the only publisher"}, min_sites=1, what="SnapshotMgr::store"))

    # ---- 6. tip/epoch rows follow the reorg
    R.guard("mustcall/tip-header", lambda: K.follows(
        R, "mustcall/tip-header", vb, VERIFY + "reconcile_main_chain$", [ST + "insert_tip_header$"], S, what="a successful reconcile is followed by the tip-header write", min_sites=1))

    def epoch_guard():
        for pat, nm in ((r"NextBlockEpoch::is_head$", "new_epoch"), (r"ForkChanges::has_detached$", "has_detached")):
            key = "mustcall/current-epoch/" + nm
            drop = K.assumed_edges(vb, [(pat, True)])
            if not drop:
                R.bad(key + "/anchor-lost", "no branch on %s found in verify_block" % nm, [vb.where()])
                continue
            tip = vb.calls_to(ST + "insert_tip_header$")
            hit = {c.bb for c in vb.calls_to(ST + "insert_current_epoch_ext$")}
            err = vb.error_exit_blocks()
            R.sites += len(tip) + len(hit)
            bad = False
            for c in tip:
                reach, prev = K.reach_with(vb, c.target, avoid=hit | err, drop_edges=drop)
                if reach & set(vb.return_blocks()):
                    bad = True
                    R.bad(key, "with %s true, a success path after insert_tip_header skips insert_current_epoch_ext (stale current-epoch row after a reorg/new epoch)" % nm,
                          K.path_lines(vb, prev, sorted(reach & set(vb.return_blocks()))[0]))
            if not bad and tip:
                R.ok(key, "%s => insert_current_epoch_ext on every success path after the tip-header write" % nm, [tip[0].where()])
    R.guard("mustcall/current-epoch", epoch_guard)

    # ---- 7. a Snapshot exposes no write path (API surface) + positive control
    def readonly():
        writes = [r"RocksDB(Transaction|WriteBatch)::(put|delete|delete_range|commit)$", r"RocksDB::(write|write_sync|put_default)$",
                  r"StoreTransaction::(insert_raw|delete|commit)$", r"ChainDB::(begin_transaction|new_write_batch|write|write_sync)$"]
        n = 0
        for crate, selfpat in (("ckb_snapshot", r"Snapshot$"), ("ckb_store", r"snapshot::StoreSnapshot$|StoreTransactionSnapshot")):
            for b in F.bodies_of_crate(crate):
                if b.self_ty and K.rx(selfpat).search(b.self_ty) and b.kind == "AssocFn":
                    n += 1
                    R.fn(b)
                    sites = S.may_sites(b, K.pats(writes), 4)
                    if sites:
                        R.bad("api/snapshot-readonly/" + K.short(b.path), "%s can reach a store write: %s" % (b.path, sites[0].where()), [b.where(), sites[0].where()])
        R.sites += n
        if n < 30:
            R.bad("api/snapshot-readonly/anchor-lost", "expected >=30 Snapshot/StoreSnapshot methods, found %d" % n, [])
        else:
            R.ok("api/snapshot-readonly", "%d methods of Snapshot/StoreSnapshot/StoreTransactionSnapshot reach no store write (depth 4)" % n, [])
        # positive control: the same predicate fires on ChainDB::init (which does write)
        ctl = F.need("ckb_store::db::ChainDB::init")
        if not S.may_sites(ctl, K.pats(writes), 4):
            R.bad("api/snapshot-readonly/control", "positive control failed: ChainDB::init is not seen to write", [ctl.where()])
        else:
            R.ok("api/snapshot-readonly/control", "positive control: the write predicate fires on ChainDB::init", [ctl.where()])
        # the MMR store over &Snapshot refuses appends
        ap = [b for b in F.bodies_of_crate("ckb_snapshot") if b.name == "append" and b.trait and b.trait.endswith("MMRStore")]
        if not ap:
            R.bad("api/snapshot-mmr-append/anchor-lost", "MMRStore::append for &Snapshot not found", [])
        else:
            b = ap[0]
            R.fn(b)
            errs = K.count_variant([b], "core::result::Result", "Err")
            oks = K.count_variant([b], "core::result::Result", "Ok")
            if errs and not oks:
                R.ok("api/snapshot-mmr-append", "MMRStore::append on &Snapshot always returns Err", [b.where()])
            else:
                R.bad("api/snapshot-mmr-append", "MMRStore::append on &Snapshot can return Ok (a snapshot must be read-only)", [b.where()])
    R.guard("api/snapshot-readonly", readonly)

    # ---- 8. new_snapshot takes the store snapshot itself (consistent view), refresh keeps tip fields
    def snap():
        ns = F.need("ckb_shared::shared::Shared::new_snapshot")
        R.fn(ns)
        aggs = K.count_variant([F.need("ckb_snapshot::Snapshot::new")], "ckb_snapshot::Snapshot", "Snapshot")
        c = ns.calls_to(r"ckb_snapshot::Snapshot::new$")
        g = ns.calls_to(r"ChainDB::get_snapshot$")
        R.sites += len(c) + len(g)
        if c and g and ns.dominates(g[0].bb, c[0].bb):
            R.ok("prov/new-snapshot", "Shared::new_snapshot pairs the given tip with a store snapshot taken in the same call", [c[0].where()])
        else:
            R.bad("prov/new-snapshot", "Shared::new_snapshot does not take a fresh store snapshot before Snapshot::new", [ns.where()])
        # positional: Snapshot::new(tip_header,total_difficulty,epoch_ext,store,proposals,consensus) from namesake params
        if c:
            want = [r"param:tip_header", r"param:total_difficulty", r"param:epoch_ext", r"call:.*get_snapshot", r"param:proposals", r"field:.*consensus|call:.*consensus"]
            for i, w in enumerate(want):
                have = ns.operand_sources(c[0].args[i]) if i < len(c[0].args) else set()
                k = "prov/new-snapshot/arg%d" % i
                if K.src_match(have, [w]):
                    R.ok(k, "Snapshot::new argument %d derives from %s" % (i, w), [c[0].where()])
                else:
                    R.bad(k, "Snapshot::new argument %d does not derive from %s" % (i, w), [c[0].where()])
    R.guard("prov/new-snapshot", snap)
    import common as _common
    _common.effects(R, F, ['main-chain', 'verdicts'])

    # F28 (known finding): COLUMN_EPOCH holds two kinds of rows: `last block hash of the previous epoch -> EpochExt` (per branch, fine) and
    # `epoch number -> that hash`, which is an index of the MAIN chain (read by get_epoch_index: rpc get_epoch_by_number, Shared::freeze). A
    # main-chain index may only be written where the tip moves (and undone in rollback), like attach_block / detach_block. Decided: no call that
    # (transitively) writes the number-keyed row may be followed by the side-branch arm of verify_block (the arm that stores an ext without a
    # verdict): if it can, the row is also written for blocks that never join the main chain.
    def epoch_number_row():
        import re
        writers = []
        for b in F.bodies_of_crate("ckb_store"):
            for c in b.calls_to(r"StoreTransaction::insert_raw$"):
                col = K.const_of_operand(b, c.args[1]) or ""
                if col.endswith("COLUMN_EPOCH") and K.src_match(b.operand_sources(c.args[2]), [r"call:.*EpochExt::number$"]):
                    writers.append(b)
        R.sites += len(writers)
        if not writers:
            R.bad("order/epoch-number-row/anchor-lost", "no writer of the number-keyed COLUMN_EPOCH row found in ckb-store", [])
            return
        vb = F.need(VERIFY + "verify_block")
        side = [c for c in vb.calls_to(r"StoreTransaction::insert_block_ext$")]
        pats = ["^" + re.escape(w.path) + "$" for w in writers]
        sites = [c for c in vb.calls if any(c.matches(K.rx(p_)) for p_ in pats)]
        for c in vb.calls:      # helpers of ckb-chain that reach a writer
            for cb in S.callee_bodies(c):
                if cb.crate == "ckb_chain" and any(x.matches(K.rx(p_)) for x in cb.calls for p_ in pats):
                    sites.append(c)
        R.sites += len(sites) + len(side)
        if not side:
            R.bad("order/epoch-number-row/anchor-lost", "the side-branch arm (insert_block_ext) of verify_block not found", [vb.where()])
            return
        bad = [c for c in sites if any(s_.bb in vb.reachable(c.bb) for s_ in side)]
        if bad:
            R.bad("order/epoch-number-row/verify_block", "verify_block writes the `epoch number -> index` row of COLUMN_EPOCH (%s) for every processed epoch head, before the new-best decision: "
                  "a side-branch epoch head replaces the main chain's row, and no reorg rewrites it (F28)" % K.short(writers[0].path), [c.where() for c in bad])
        else:
            R.ok("order/epoch-number-row/verify_block", "the number-keyed epoch row is written only where the tip moves", [c.where() for c in sites[:2]] or [vb.where()])
    R.guard("order/epoch-number-row", epoch_number_row)
