"""C08 - a crash at any point of block import recovers to a consistent, convergent state (structural necessary conditions)."""
import importlib.util
import os

import kinds as K
from common import VERIFY, store_effects

CRATES = ["ckb_chain", "ckb_store", "ckb_shared", "ckb_db"]
EXPLANATION = ("ORDER (shared with C02): one optimistic transaction and one commit per import/truncate/deletion, no store write after the commit, errors return without committing; "
               "INVPAIR/WHOCALLS: block storage writes the NUMBER_HASH marker but never BLOCK_EXT, BLOCK_EXT is written only by the verify thread's helpers inside the import transaction, so "
               "'NUMBER_HASH without BLOCK_EXT' identifies exactly the stored-but-unverified blocks; the restart scan ends a height on the key prefix only and filters by missing ext; "
               "AFFINE: scan window [max(1, tip - EXPIRED_EPOCH*max_epoch_length), tip + BLOCK_DOWNLOAD_WINDOW*10], early exit only above the tip; found blocks are re-submitted with full verification; "
               "start-up rebuilds the snapshot from tip, epoch, tip ext and a rebuilt proposal table.")
NOT_DECIDED = "that every crash point recovers and converges (needs killing a process); RocksDB transaction atomicity and its WAL are the trusted base"

ST = "ckb_store::transaction::StoreTransaction::"
IL = "ckb_chain::init_load_unverified::InitLoadUnverified::"


class _Prefixed:
    def __init__(self, R, prefix, only=None):
        self._R, self._p, self._only = R, prefix, only

    def _keep(self, key):
        if "epoch-number-row" in key or key.startswith("effects/"):
            return False      # C02's own: the epoch index row (F28) and the effect-site tables are not part of the commit discipline reused here
        return self._only is None or any(key.startswith(o) or ("/" + o) in key for o in self._only)

    def ok(self, key, text, where=()):
        if self._keep(key):
            return self._R.ok(self._p + key, text, where)

    def bad(self, key, text, where=()):
        if self._keep(key):
            return self._R.bad(self._p + key, text, where)

    def guard(self, key, fn):
        return self._R.guard(self._p + key, fn)

    def fn(self, b):
        return self._R.fn(b)

    def note(self, t):
        return self._R.note(t)

    @property
    def sites(self):
        return self._R.sites

    @sites.setter
    def sites(self, v):
        self._R.sites = v


def run(F, S, R, tier):
    # ---------------------------------------------------------------- 1. commit discipline (the C02 ordering rules)
    def commit_discipline():
        spec = importlib.util.spec_from_file_location("rule_C02_for_C08", os.path.join(os.path.dirname(os.path.abspath(__file__)), "C02.py"))
        m = importlib.util.module_from_spec(spec)
        spec.loader.exec_module(m)
        m.run(F, S, _Prefixed(R, "atomic/", only=["order/", "mustcall/tip-header", "mustcall/current-epoch", "whocalls/"]), tier)
        du = F.need("ckb_chain::delete_unverified_block")
        K.order_dom(R, "order/delete-unverified", du, ST + "delete_block$", ST + "commit$", what="an invalid block is deleted in its own committed transaction")
        n = len(du.calls_to(r"ChainDB::begin_transaction$"))
        if n == 1 and len(du.calls_to(ST + "commit$")) == 1:
            R.ok("order/delete-unverified/single", "delete_unverified_block: one transaction, one commit", [du.where()])
        else:
            R.bad("order/delete-unverified/single", "delete_unverified_block no longer uses exactly one transaction and one commit", [du.where()])
        ib = F.need("ckb_chain::chain_service::ChainService::insert_block")
        K.mustcall(R, "mustcall/store-commit", ib, [ST + "insert_block$", ST + "commit$"], S, assume=[(r"ChainDB::is_block_stored$", False)],
                   what="block storage is one committed transaction (a hash already in the header column is not written again, F26)")
    R.guard("atomic", commit_discipline)

    # ---------------------------------------------------------------- 2. the unverified marker
    def marker():
        ib = F.need(ST + "insert_block")
        eff = store_effects(F, S, ib)
        cols = {k[1] for k in eff if k[0] == "put"}
        if "COLUMN_NUMBER_HASH" in cols and "COLUMN_BLOCK_EXT" not in cols:
            R.ok("invpair/marker/insert", "storing a block writes NUMBER_HASH and never BLOCK_EXT", [ib.where()])
        else:
            R.bad("invpair/marker/insert", "insert_block writes %s: the stored-but-unverified marker (NUMBER_HASH without BLOCK_EXT) is broken" % sorted(cols), [ib.where()])
        db = F.need(ST + "delete_block")
        effd = store_effects(F, S, db)
        if ("del", "COLUMN_NUMBER_HASH") in effd:
            R.ok("invpair/marker/delete", "deleting a block removes its NUMBER_HASH marker", [db.where()])
        else:
            R.bad("invpair/marker/delete", "delete_block keeps the NUMBER_HASH marker: a deleted invalid block would be re-found at start-up", [db.where()])
        # who writes BLOCK_EXT
        writers = []
        for b in F.bodies_of_crate("ckb_store"):
            for c in b.calls_to(r"StoreTransaction::insert_raw$|StoreWriteBatch::put$|RocksDBWriteBatch::put$"):
                k = K.const_of_operand(b, c.args[1]) if len(c.args) > 1 else None
                if k and k.endswith("COLUMN_BLOCK_EXT"):
                    writers.append(b.path)
        if writers == ["ckb_store::transaction::StoreTransaction::insert_block_ext"]:
            R.ok("whocalls/ext-writer", "COLUMN_BLOCK_EXT is written only by StoreTransaction::insert_block_ext", [])
        else:
            R.bad("whocalls/ext-writer", "COLUMN_BLOCK_EXT writers in ckb-store: %s" % writers, [])
        K.whocalls(R, "whocalls/insert_block_ext", F, ST + "insert_block_ext$", {
            r"^ckb_chain::verify::ConsumeUnverifiedBlockProcessor::(verify_block|insert_ok_ext|insert_failure_ext)$": "verify thread, inside the import transaction",
            r"^ckb_store::db::ChainDB::init$": "genesis",
            r"^ckb_migrate::|^ckb_bin::subcommand::": "offline tools",
        }, min_sites=4, what="verification record writer")
        # both verdict writers are reached only from reconcile (inside the import transaction)
        for fn in ("insert_ok_ext", "insert_failure_ext"):
            K.whocalls(R, "whocalls/" + fn, F, VERIFY + fn + "$", {r"^ckb_chain::verify::ConsumeUnverifiedBlockProcessor::reconcile_main_chain$": "inside the import transaction"}, min_sites=2, what="verdict writer")
    R.guard("invpair/marker", marker)

    # ---------------------------------------------------------------- 3. the restart scan
    def scan():
        fh = F.need(IL + "find_unverified_block_hashes")
        cls = [b for b in K.with_nested(fh) if b.kind == "Closure"]
        adaptors = {}
        for c in fh.calls:
            m = K.rx(r"Iterator::(\w+)$").search(c.callee)
            if not m:
                continue
            for cb in K.closure_of_local(fh, c.args[1]["p"][0]) if len(c.args) > 1 and "p" in c.args[1] else []:
                adaptors[cb.path] = m.group(1)
        ext_cl = [b for b in cls if b.calls_to(r"ChainStore::get_block_ext$")]
        pre_cl = [b for b in cls if b.calls_to(r"starts_with$")]
        if not ext_cl or not pre_cl:
            R.bad("sibling/scan/anchor-lost", "prefix / ext closures not found in find_unverified_block_hashes", [fh.where()])
        else:
            a_ext = adaptors.get(ext_cl[0].path)
            a_pre = adaptors.get(pre_cl[0].path)
            if a_ext == "filter" and ext_cl[0].calls_to(r"Option::<.*>::is_none$"):
                R.ok("sibling/scan/filter", "a hash counts as unverified iff get_block_ext(hash) is None, as a filter (it never ends the scan)", [ext_cl[0].where()])
            else:
                R.bad("sibling/scan/filter", "the missing-ext test is used by `%s`, not as a plain filter: an already processed sibling would end the scan of its height" % a_ext, [ext_cl[0].where()])
            if a_pre == "take_while" and not pre_cl[0].calls_to(r"ChainStore::get_block_ext$") and K.src_match(pre_cl[0].operand_sources(pre_cl[0].calls_to(r"starts_with$")[0].args[1]), [r"vty:&\[u8\]$"]):
                R.ok("sibling/scan/height-end", "a height ends exactly where the NUMBER_HASH key stops having the height's prefix", [pre_cl[0].where()])
            else:
                R.bad("sibling/scan/height-end", "the scan of a height is not ended by the key prefix alone (adaptor %s)" % a_pre, [pre_cl[0].where()])
        gi = fh.calls_to(r"ChainStore::get_iter$")
        col = K.const_of_operand(fh, gi[0].args[1]) if gi else None
        if col and col.endswith("COLUMN_NUMBER_HASH"):
            R.ok("prov/scan/column", "the scan iterates COLUMN_NUMBER_HASH from the height's prefix", [gi[0].where()])
        else:
            R.bad("prov/scan/column", "the restart scan does not iterate COLUMN_NUMBER_HASH", [fh.where()])
        fb = F.one("ckb_chain", r"InitLoadUnverified::find_unverified_blocks$")
        mx = fb.calls_to(r"cmp::max$")
        if mx:
            sig = K.arith_of(fb, {"p": mx[0].dest}) if mx[0].dest else []
            srcs = set()
            for a in mx[0].args:
                srcs |= fb.operand_sources(a)
            if sig == ["lit:1", "op:max", "op:mul", "op:saturating_sub"] and K.src_match(srcs, [r"const:.*EXPIRED_EPOCH", r"call:.*Consensus::max_epoch_length$", r"call:.*Snapshot::tip_number$"]):
                R.ok("affine/scan-window/start", "scan starts at max(1, tip - EXPIRED_EPOCH * max_epoch_length)", [mx[0].where()])
            else:
                R.bad("affine/scan-window/start", "scan start has form %s over %s, expected max(1, tip - EXPIRED_EPOCH * max_epoch_length)" % (sig, sorted(s_ for s_ in srcs if s_.startswith(("const", "call")))[:6]), [mx[0].where()])
        else:
            R.bad("affine/scan-window/start/anchor-lost", "cmp::max not found in find_unverified_blocks", [fb.where()])
        rng = [st[1] for blk in fb.blocks for st in blk["s"] if st[1].get("k") == "agg" and "RangeInclusive" in str(st[1].get("adt", ""))] + \
              [c for c in fb.calls_to(r"RangeInclusive::<.*>::new$")]
        endop = None
        for r_ in rng:
            endop = (r_["ops"][1] if isinstance(r_, dict) else r_.args[1])
        if endop is not None:
            sig = K.arith_of(fb, endop)
            if sig == ["lit:10", "op:add", "op:mul"] and K.src_match(fb.operand_sources(endop), [r"const:.*BLOCK_DOWNLOAD_WINDOW", r"call:.*Snapshot::tip_number$"]):
                R.ok("affine/scan-window/end", "scan ends at tip + BLOCK_DOWNLOAD_WINDOW * 10 (inclusive)", [fb.where()])
            else:
                R.bad("affine/scan-window/end", "scan end has form %s, expected tip + BLOCK_DOWNLOAD_WINDOW * 10" % sig, [fb.where()])
        else:
            R.bad("affine/scan-window/end/anchor-lost", "inclusive range not found in find_unverified_blocks", [fb.where()])
        # early exit only above the tip and only when the height is empty
        K.cmp_table(R, "cmp/scan-early-exit", fb, [r"call:.*next$"], [r"call:.*Snapshot::tip_number$"], {"<": "GO", "=": "GO", ">": "MAYSTOP"},
                    K.classify_reach([r"Vec::<.*>::is_empty$"], "MAYSTOP", "GO"), what="heights up to the tip are always scanned completely")
        K.loop_over_all(R, "loop/scan/all-hashes", fb, r"Fn::call$|Fn<.*>>::call$", [r"call:.*find_unverified_block_hashes$"], what="every unverified hash found is handed to the callback")
        c_ = F.consts("ckb_chain").get("ckb_chain::utils::orphan_block_pool::EXPIRED_EPOCH")
        if c_ and fb and K.src_match(set().union(*[fb.operand_sources(a) for a in (mx[0].args if mx else [])] or [set()]), [r"const:ckb_chain::utils::orphan_block_pool::EXPIRED_EPOCH"]):
            R.ok("prov/scan-window/same-horizon", "the scan reaches back by the orphan pool's own retention constant", [])
        else:
            R.bad("prov/scan-window/same-horizon", "the restart scan no longer uses the orphan pool's EXPIRED_EPOCH", [])
        fv = F.one("ckb_chain", r"InitLoadUnverified::find_and_verify_unverified_blocks$")
        cl = [b for b in K.with_nested(fv) if b.calls_to(r"ChainController::asynchronous_process_lonely_block$")]
        if cl:
            b = cl[0]
            aggs = K.agg_sites(b, "ckb_chain::LonelyBlock")
            sw = K.agg_field_sources(b, aggs[0][1], "switch") if aggs else set()
            blk = K.agg_field_sources(b, aggs[0][1], "block") if aggs else set()
            if aggs and K.src_match(sw, [r"agg:core::option::Option::None"]) and K.src_match(blk, [r"call:.*ChainStore::get_block$"]):
                R.ok("prov/resubmit", "found blocks are re-submitted from the store with no switch (full verification)", [b.where()])
            else:
                R.bad("prov/resubmit", "re-submitted blocks do not get full verification (switch None) or are not loaded from the store", [b.where()])
        else:
            R.bad("prov/resubmit/anchor-lost", "re-submission closure not found", [fv.where()])
    R.guard("scan", scan)

    # ---------------------------------------------------------------- 4. start-up state
    def startup():
        isn = F.one("ckb_shared", r"SharedBuilder::init_snapshot$")
        sn = isn.calls_to(r"ckb_snapshot::Snapshot::new$")
        need = [r"SharedBuilder::init_store$", r"ChainStore::get_block_ext$", r"SharedBuilder::init_proposal_table$", r"ChainDB::get_snapshot$"]
        K.mustcall(R, "mustcall/startup", isn, need, S, what="the start-up snapshot is rebuilt from the stored tip, epoch, tip ext and proposal window")
        if sn:
            want = [r"call:.*init_store$", r"field:.*BlockExt\.total_difficulty", r"call:.*init_store$", r"call:.*ChainDB::get_snapshot$", r"call:.*init_proposal_table$", r"param:consensus"]
            for i, w in enumerate(want):
                if K.src_match(isn.operand_sources(sn[0].args[i]), [w]):
                    R.ok("prov/startup/arg%d" % i, "Snapshot::new argument %d derives from %s" % (i, w), [sn[0].where()])
                else:
                    R.bad("prov/startup/arg%d" % i, "Snapshot::new argument %d does not derive from %s" % (i, w), [sn[0].where()])
            ge = isn.calls_to(r"ChainStore::get_block_ext$")
            if ge and K.src_match(isn.operand_sources(ge[0].args[1]), [r"call:.*init_store$", r"call:.*HeaderView::hash$"]):
                R.ok("prov/startup/tip-ext", "total difficulty is read from the stored tip's own ext", [ge[0].where()])
            else:
                R.bad("prov/startup/tip-ext", "start-up total difficulty is not read from the tip's ext", [isn.where()])
        ist = F.one("ckb_shared", r"SharedBuilder::init_store$")
        if any(b.calls_to(r"ChainStore::get_tip_header$") for b in K.with_nested(ist)) and any(b.calls_to(r"ChainStore::get_current_epoch_ext$") for b in K.with_nested(ist)):
            R.ok("mustcall/startup/store", "init_store reads the tip header and the current epoch row", [ist.where()])
        else:
            R.bad("mustcall/startup/store", "init_store no longer reads both tip header and current epoch", [ist.where()])
    R.guard("startup", startup)
    import common as _common
    _common.effects(R, F, ['verdicts'])


    # the import pipeline of the chain service: once a block is past the genesis-number test and its non-contextual checks, it is stored and
    # routed - whatever else is known about it. A fast path that answers "already handled" in front of that (round-3 seed C08-seed6: "an orphan
    # that is in the store is already in the orphan pool", which a restart falsifies) leaves a stored block that nothing will ever verify.
    def pipeline():
        import atoms as A
        ap = F.need("ckb_chain::chain_service::ChainService::asynchronous_process_block")
        R.fn(ap)
        bodies = [ap] + list(ap.nested())
        for pat, name, extra in ((r"ChainService::insert_block$", "insert_block", 0), (r"OrphanBroker::process_lonely_block$", "process_lonely_block", 1)):
            bs = A.bypass_of(bodies, S, pat)
            R.sites += len(bs)
            if not bs:
                R.bad("order/import-pipeline/%s/anchor-lost" % name, "%s is not called as a step of asynchronous_process_block" % name, [ap.where()])
                continue
            for nm, tests in bs:
                known = [t for t in tests if re.search(r"BlockView::number|LonelyBlock::switch|ChainService::(non_contextual_verify|insert_block)", t)]
                other = [t for t in tests if t not in known]
                if other:
                    R.bad("order/import-pipeline/" + name, "%s can be skipped after test(s) that were not reviewed: %s (reviewed: the genesis-number test, the verification switch and the result of the step before)" % (name, [t[:140] for t in other]), [ap.where()])
                else:
                    R.ok("order/import-pipeline/" + name, "%s is skipped only for number < 1, by the switch, or when the step before failed" % name, [ap.where()])
    import re
    R.guard("order/import-pipeline", pipeline)
