"""C13 - every block template handed to miners would be accepted by the node itself (structural necessary conditions)."""
import kinds as K

CRATES = ["ckb_tx_pool"]
EXPLANATION = ("PAIRED: every template mutation updates the size ledger of the same component and the total; builders derived from an existing template only replace list fields (never extend them); "
               "CMP: size/uncle-count guards; ORDER: every pool read is behind the tip-equality check; PAIRED/PROV: transactions are never replaced without recomputing dao over cellbase + the re-checked "
               "transactions; calc_dao re-checks each entry against one shared spent-set and the template's own earlier outputs and drops failures; the cellbase pays RewardCalculator's finalised reward; "
               "the selector packages only not-yet-included, all-proposed ancestors, parents first, under the cycle and size limits; the uncle mirror rules.")
NOT_DECIDED = "acceptance of the sealed template by the full verifier for all pool states (runtime); selector optimality"

BA = "ckb_tx_pool::block_assembler::BlockAssembler::"
BB = "ckb_tx_pool::block_assembler::BlockTemplateBuilder::"


def coro(F, name):
    b = F.need(BA + name)
    cs = [x for x in K.with_nested(b) if x.kind == "Closure" and x.parent == b.path]
    return cs[0] if cs else b


def run(F, S, R, tier):
    upd = {n: coro(F, n) for n in ("update_full", "update_uncles", "update_proposals", "update_transactions", "update_blank")}

    # ---------------------------------------------------------------- 1. size ledger
    def ledger():
        want = {"update_full": {"txs", "total", "proposals"}, "update_uncles": {"uncles", "total"}, "update_proposals": {"proposals", "total"}, "update_transactions": {"txs", "total"}}
        for fn, fields in want.items():
            b = upd[fn]
            got = set()
            for f in ("txs", "total", "proposals", "uncles"):
                if K.field_writes(b, "TemplateSize." + f):
                    got.add(f)
            tw = K.field_writes(b, "CurrentTemplate.template")
            if got == fields and tw:
                R.ok("paired/size-ledger/" + fn, "%s replaces the template and updates size.{%s}" % (fn, ",".join(sorted(fields))), [b.where()])
            else:
                R.bad("paired/size-ledger/" + fn, "%s updates size fields %s (template written: %s), expected %s" % (fn, sorted(got), bool(tw), sorted(fields)), [b.where()])
            # ledger writes happen only where the template is replaced
            for f in got:
                for (bb, _) in K.field_writes(b, "TemplateSize." + f):
                    if tw and not any(b.dominates(t, bb) for t, _ in tw):
                        R.bad("paired/size-ledger/%s/guard" % fn, "size.%s can change without the template being replaced" % f, [b.where(bb)])
        ub = upd["update_blank"]
        aggs = K.agg_sites(ub, "ckb_tx_pool::block_assembler::TemplateSize")
        if aggs and set(aggs[0][1]["fields"]) == {"txs", "proposals", "uncles", "total"}:
            srcs = K.agg_field_sources(ub, aggs[0][1], "total") or set()
            if K.src_match(srcs, [r"call:.*BlockAssembler::basic_block_size$"]):
                R.ok("paired/size-ledger/update_blank", "a blank template starts with total = basic block size", [ub.where()])
            else:
                R.bad("paired/size-ledger/update_blank", "blank template total is not basic_block_size", [ub.where()])
        else:
            R.bad("paired/size-ledger/update_blank/anchor-lost", "TemplateSize aggregate not found in update_blank", [ub.where()])
        for fn, fld in (("calc_total_by_proposals", "proposals"), ("calc_total_by_uncles", "uncles"), ("calc_total_by_txs", "txs")):
            b = F.need("ckb_tx_pool::block_assembler::TemplateSize::" + fn)
            flds = set()
            for blk in b.blocks:
                for st in blk["s"]:
                    rv = st[1]
                    for o in ([rv.get("o")] if rv.get("o") else []) + [x for x in (rv.get("a"), rv.get("b")) if x] + ([{"p": rv["p"]}] if rv.get("p") else []):
                        if o and "p" in o:
                            for pr in o["p"][1]:
                                if "TemplateSize." in pr:
                                    flds.add(pr.split(".")[-1])
            adds, subs = b.calls_to(r"saturating_add$"), b.calls_to(r"saturating_sub$")
            if flds == {fld, "total"} and len(adds) == 1 and len(subs) == 1:
                R.ok("fieldcov/" + fn, "%s adjusts total by the change of `%s` only" % (fn, fld), [b.where()])
            else:
                R.bad("fieldcov/" + fn, "%s reads %s with %d add / %d sub, expected {%s,total} with one each" % (fn, sorted(flds), len(adds), len(subs), fld), [b.where()])
    R.guard("paired/size-ledger", ledger)

    # ---------------------------------------------------------------- 2. replace, never extend, when starting from an existing template
    def replace_not_extend():
        n = 0
        for b in F.bodies_of_crate("ckb_tx_pool"):
            if not b.calls_to(BB + "from_template$"):
                continue
            n += 1
            ext = [c for c in b.calls if K.rx(BB + r"(uncles|transactions|proposals)$").search(c.callee)]
            key = "paired/replace-not-extend/" + K.short(b.root or b.path)
            if ext:
                R.bad(key, "%s starts from the current template and then EXTENDS %s: the old elements stay (duplicates / over-count)" % (b.path, ext[0].callee.split("::")[-1]), [ext[0].where()])
            else:
                R.ok(key, "%s only replaces list fields of the template it starts from" % K.short(b.path), [b.where()])
        R.sites += n
        if n < 4:
            R.bad("paired/replace-not-extend/anchor-lost", "expected >=4 builders started from an existing template, found %d" % n, [])
        for fn, fld in (("set_uncles", "uncles"), ("set_transactions", "transactions"), ("set_proposals", "proposals")):
            b = F.body(BB + fn)
            if b is None:
                R.bad("paired/setter/%s/anchor-lost" % fn, "BlockTemplateBuilder::%s is gone: list fields can only be extended" % fn, [])
                continue
            if K.field_writes(b, "BlockTemplateBuilder." + fld) and not b.calls_to(r"Extend::extend$"):
                R.ok("paired/setter/" + fn, "%s replaces `%s`" % (fn, fld), [b.where()])
            else:
                R.bad("paired/setter/" + fn, "%s no longer replaces `%s`" % (fn, fld), [b.where()])
        uu = upd["update_uncles"]
        if uu.calls_to(BB + "set_uncles$") and K.src_match(uu.operand_sources(uu.calls_to(BB + "set_uncles$")[0].args[1]), [r"call:.*BlockAssembler::prepare_uncles$"]):
            R.ok("prov/update-uncles", "update_uncles replaces the uncles by the freshly prepared list", [uu.where()])
        else:
            R.bad("prov/update-uncles", "update_uncles does not set_uncles(prepare_uncles(..))", [uu.where()])
    R.guard("paired/replace-not-extend", replace_not_extend)

    # ---------------------------------------------------------------- 3. limits
    def limits():
        B = [BB + "build$"]
        uu, up = upd["update_uncles"], upd["update_proposals"]
        K.cmp_table(R, "cmp/limits/uncles-total", uu, [r"call:.*TemplateSize::calc_total_by_uncles$"], [r"call:.*Consensus::max_block_bytes$"], {"<": "UPDATE", "=": "KEEP", ">": "KEEP"},
                    K.classify_reach(B, "UPDATE", "KEEP"), what="uncles are changed only if the block stays below max_block_bytes")
        K.cmp_table(R, "cmp/limits/uncles-count", uu, [r"field:.*BlockTemplate\.uncles", r"call:.*::len$"], [r"call:.*Consensus::max_uncles_num$"], {"<": "TRY", "=": "KEEP", ">": "KEEP"},
                    K.classify_reach([r"BlockAssembler::prepare_uncles$"], "TRY", "KEEP"), what="uncles are added only below max_uncles_num")
        K.cmp_table(R, "cmp/limits/proposals-total", up, [r"call:.*TemplateSize::calc_total_by_proposals$"], [r"call:.*Consensus::max_block_bytes$"], {"<": "UPDATE", "=": "KEEP", ">": "KEEP"},
                    K.classify_reach(B, "UPDATE", "KEEP"), what="proposals are changed only if the block stays below max_block_bytes")
        for fn in ("update_full", "update_transactions"):
            b = upd[fn]
            pk = b.calls_to(r"TxPool::package_txs$")
            if pk and K.src_match(b.operand_sources(pk[0].args[2]), [r"call:.*checked_sub$", r"call:.*Consensus::max_block_bytes$", r"call:.*BlockAssembler::basic_block_size$"]) \
                    and K.src_match(b.operand_sources(pk[0].args[1]), [r"call:.*Consensus::max_block_cycles$"]):
                R.ok("affine/limits/txs/" + fn, "%s packages transactions under max_block_cycles and max_block_bytes - basic size" % fn, [pk[0].where()])
            else:
                R.bad("affine/limits/txs/" + fn, "%s does not bound package_txs by (max_block_cycles, max_block_bytes - basic_block_size)" % fn, [b.where()])
        pp = [c for fn in ("update_full", "update_proposals") for c in upd[fn].calls_to(r"TxPool::package_proposals$")]
        if pp and all(K.src_match(c.body.operand_sources(c.args[1]), [r"call:.*Consensus::max_block_proposals_limit$"]) for c in pp):
            R.ok("affine/limits/proposals", "proposals are packaged under max_block_proposals_limit", [c.where() for c in pp])
        else:
            R.bad("affine/limits/proposals", "package_proposals is not bounded by max_block_proposals_limit", [])
    R.guard("cmp/limits", limits)

    # ---------------------------------------------------------------- 4. tip guard before any pool read
    def tip_guard():
        for fn in ("update_full", "update_proposals", "update_transactions"):
            b = upd[fn]
            reads = {c.bb for c in b.calls_to(r"TxPool::package_(txs|proposals)$")}
            sites = K.find_cmp(b, [r"field:.*CurrentTemplate\.snapshot", r"call:.*Snapshot::tip_hash$"], [r"call:.*TxPool::snapshot$", r"call:.*Snapshot::tip_hash$"])
            good = False
            for site, sw in sites:
                if site.op not in ("ne", "eq"):
                    continue
                for (swb, tt, ft) in K.branch_targets(b, site):
                    ne_t = tt if site.op == "ne" else ft
                    reach, _ = K.reach_with(b, ne_t, drop_edges=K.same_bool_edges(b, site.result, site.op == "ne"))
                    if reach & reads:
                        R.bad("order/tip-guard/" + fn, "%s reads the pool although the pool's tip differs from the template's tip" % fn, [site.where()])
                    elif all(b.dominates(swb, r_) for r_ in reads):
                        good = True
            if good:
                R.ok("order/tip-guard/" + fn, "%s reads the pool only when the pool's tip equals the template's tip" % fn, [b.where()])
            elif not sites:
                R.bad("order/tip-guard/" + fn, "%s has no tip-equality check before reading the pool" % fn, [b.where()])
    R.guard("order/tip-guard", tip_guard)

    # ---------------------------------------------------------------- 5. transactions and dao move together
    def txs_dao():
        for fn in ("update_full", "update_transactions", "update_blank"):
            b = upd[fn]
            st_ = b.calls_to(BB + r"(set_)?transactions$")
            dao = b.calls_to(BB + "dao$")
            cd = b.calls_to(BA + "calc_dao$")
            if not st_ or not dao or not cd:
                R.bad("paired/txs-dao/" + fn, "%s sets transactions without recomputing dao via calc_dao" % fn, [b.where()])
                continue
            ok1 = K.src_match(b.operand_sources(dao[0].args[1]), [r"call:.*BlockAssembler::calc_dao$", r"idx:#0"])
            ok2 = fn == "update_blank" or K.src_match(b.operand_sources(st_[0].args[1]), [r"call:.*BlockAssembler::calc_dao$", r"idx:#1"])
            ok3 = K.src_match(b.operand_sources(cd[0].args[2]), [r"cellbase"])
            if ok1 and ok2 and ok3:
                R.ok("paired/txs-dao/" + fn, "%s: dao = calc_dao(..).0 over the cellbase and exactly the transactions it stores (calc_dao(..).1)" % fn, [dao[0].where()])
            else:
                R.bad("paired/txs-dao/" + fn, "%s: the stored transactions / dao do not both come from the same calc_dao call" % fn, [b.where()])
        for fn in ("update_uncles", "update_proposals"):
            b = upd[fn]
            if b.calls_to(BB + r"(set_)?transactions$"):
                R.bad("paired/txs-dao/" + fn, "%s changes transactions without recomputing dao" % fn, [b.where()])
            else:
                R.ok("paired/txs-dao/" + fn, "%s leaves transactions (and hence dao) untouched" % fn, [b.where()])
        cdb = F.need(BA + "calc_dao")
        cl = [x for x in K.with_nested(cdb) if x.calls_to(r"ResolvedTransaction::check$")]
        if not cl:
            R.bad("mustcall/calc-dao/anchor-lost", "per-entry re-check closure not found in calc_dao", [cdb.where()])
        else:
            x = cl[0]
            c = x.calls_to(r"ResolvedTransaction::check$")[0]
            if K.src_match(x.operand_sources(c.args[1]), [r"vty:std::collections::hash::set::HashSet<.*OutPoint>$"]) and K.src_match(x.operand_sources(c.args[2]), [r"call:.*OverlayCellChecker::<.*>::new$"]):
                R.ok("mustcall/calc-dao/recheck", "every packaged entry is re-checked against one shared spent-set and the template's own earlier transactions over the snapshot", [c.where()])
            else:
                R.bad("mustcall/calc-dao/recheck", "calc_dao's re-check does not use the shared seen_inputs / overlay checker", [c.where()])
            arms = K.enum_arms_of_call(x, "core::result::Result", r"ResolvedTransaction::check$")
            ins = {y.bb for y in x.calls_to(r"TransactionsChecker::insert$")}
            if arms and ins:
                a = arms[0]
                err_t = a[1].get("Err", a[2])
                ok_t = a[1].get("Ok", a[2])
                some = {i for (i, rv, ln) in K.agg_sites(x, "core::option::Option", "Some")}
                if x.reachable(err_t, avoid=[ok_t]) & (ins | some):
                    R.bad("mustfail/calc-dao/drop-failed", "an entry that fails the re-check is still kept / made visible to later entries", [x.where(a[0])])
                else:
                    R.ok("mustfail/calc-dao/drop-failed", "an entry failing the re-check is dropped and not visible to later entries", [x.where(a[0])])
                K.mustcall(R, "mustcall/calc-dao/insert-accepted", x, [r"TransactionsChecker::insert$"], S, start=ok_t, allow_err_exits=False, what="an accepted entry becomes visible to the entries after it")
            else:
                R.bad("mustfail/calc-dao/drop-failed/anchor-lost", "re-check verdict / checker insert not found", [x.where()])
        df = cdb.calls_to(r"DaoCalculator::<.*>::dao_field_with_current_epoch$")
        if df and K.src_match(cdb.operand_sources(df[0].args[1]), [r"call:.*TxEntry::dummy_resolve$", r"call:.*Iterator::chain$", r"vty:alloc::vec::Vec<component::entry::TxEntry>$"]) and K.src_match(cdb.operand_sources(df[0].args[2]), [r"call:.*Snapshot::tip_header$"]):
            R.ok("prov/calc-dao/field", "the dao field is computed over cellbase + accepted entries on top of the snapshot's tip", [df[0].where()])
        else:
            R.bad("prov/calc-dao/field", "calc_dao does not compute the field over (cellbase, accepted entries, tip)", [cdb.where()])
        bc = F.need(BA + "build_cellbase")
        rw = [(x, c) for x in K.with_nested(bc) for c in x.calls_to(r"RewardCalculator::<.*>::block_reward_to_finalize$")]
        if rw and K.src_match(rw[0][0].operand_sources(rw[0][1].args[1]), [r"call:.*Snapshot::tip_header$|vty:&ckb_types::core::views::HeaderView$"]):
            R.ok("prov/cellbase-reward", "the template cellbase pays RewardCalculator::block_reward_to_finalize(tip)", [rw[0][1].where()])
        else:
            R.bad("prov/cellbase-reward", "build_cellbase does not take the reward from RewardCalculator::block_reward_to_finalize(tip)", [bc.where()])
        cap = bc.calls_to(r"CellOutputBuilder::capacity$")
        lk = bc.calls_to(r"CellOutputBuilder::lock$")
        if cap and lk and K.src_match(bc.operand_sources(cap[0].args[1]), [r"field:.*BlockReward\.total"]) and K.src_match(bc.operand_sources(lk[0].args[1]), [r"idx:#0"]):
            R.ok("prov/cellbase-output", "cellbase output = (block_reward.total, target lock)", [cap[0].where()])
        else:
            R.bad("prov/cellbase-output", "the cellbase output is not (block_reward.total, target_lock)", [bc.where()])
        ci = bc.calls_to(r"CellInput>?::new_cellbase_input$")
        if ci and K.arith_of(bc, ci[0].args[0]) == ["lit:1", "op:add"]:
            R.ok("affine/cellbase-input", "cellbase input encodes tip.number + 1", [ci[0].where()])
        else:
            R.bad("affine/cellbase-input", "cellbase input is not new_cellbase_input(tip.number + 1)", [bc.where()])
        nt = K.find_cmp(bc, [r"call:.*HeaderView::number$"], [r"call:.*finalization_delay_length$"])
        if nt and (K.SWAP[nt[0][0].op] if nt[0][1] else nt[0][0].op) == "le":
            R.ok("cmp/cellbase-no-target", "no reward output while tip.number + 1 <= finalization_delay_length (same predicate as the verifier)", [nt[0][0].where()])
        else:
            R.bad("cmp/cellbase-no-target", "the template's no-finalisation-target predicate differs from the verifier's `<=`", [bc.where()])
        be = F.need(BA + "build_extension")
        cm = be.calls_to(r"Snapshot::chain_root_mmr$")
        if cm and K.arith_of(be, cm[0].args[1]) == []:
            R.ok("prov/extension-root", "the template extension commits to chain_root_mmr(tip.number)", [cm[0].where()])
        else:
            R.bad("prov/extension-root", "build_extension does not use chain_root_mmr(tip.number())", [be.where()])
    R.guard("paired/txs-dao", txs_dao)

    # ---------------------------------------------------------------- 6. selector
    def selector():
        ts = F.need("ckb_tx_pool::component::tx_selector::TxSelector::<'a>::txs_to_commit")
        K.cmp_table(R, "cmp/selector/cycles", ts, [r"field:.*TxEntry\.ancestors_cycles", r"call:.*saturating_add$"], [r"param:cycles_limit"], {"<": "TAKE", "=": "TAKE", ">": "SKIP"},
                    K.classify_reach([r"PoolMap::calc_ancestors$"], "TAKE", "SKIP"), what="a package over the cycle limit is skipped", arith=(["lit:0", "op:saturating_add", "op:saturating_add"], []), only_ops=("gt", "lt", "le", "ge"))
        K.cmp_table(R, "cmp/selector/size", ts, [r"field:.*TxEntry\.ancestors_size", r"call:.*saturating_add$"], [r"param:size_limit"], {"<": "TAKE", "=": "TAKE", ">": "SKIP"},
                    K.classify_reach([r"PoolMap::calc_ancestors$"], "TAKE", "SKIP"), what="a package over the size limit is skipped", arith=(["lit:0", "op:saturating_add", "op:saturating_add"], []), only_ops=("gt", "lt", "le", "ge"))
        fm = ts.calls_to(r"Iterator::filter_map$")
        ok = False
        for c in fm:
            for cb in K.closure_of_local(ts, c.args[1]["p"][0]) if len(c.args) > 1 and "p" in c.args[1] else []:
                if any(K.src_match(cb.operand_sources(x.args[0]), [r"field:.*TxSelector\.fetched_txs"]) for x in cb.calls_to(r"HashSet::<.*>::contains$")) and K.src_match(ts.operand_sources(c.args[0]), [r"call:.*PoolMap::calc_ancestors$"]):
                    ok = True
        if ok:
            R.ok("prov/selector/only-unconfirmed", "a package consists of the entry and those of its ancestors that are not yet in the block", [fm[0].where()])
        else:
            R.bad("prov/selector/only-unconfirmed", "already included ancestors are no longer filtered out of the package: descendants' ancestor size/cycles would be discounted twice and the limits exceeded", [ts.where()])
        um = ts.calls_to(r"TxSelector::<.*>::update_modified_entries$")
        if um and K.src_match(ts.operand_sources(um[0].args[1]), [r"call:.*Iterator::filter_map$"]):
            R.ok("prov/selector/modified", "descendants are re-scored against exactly the newly included package", [um[0].where()])
        else:
            R.bad("prov/selector/modified", "update_modified_entries is not given the filtered package", [ts.where()])
        anyc = [b for b in K.with_nested(ts) if b.calls_to(r"PoolMap::has_proposed$")]
        if anyc and ts.calls_to(r"Iterator::any$"):
            R.ok("prov/selector/all-proposed", "a package is taken only if every ancestor is proposed", [anyc[0].where()])
        else:
            R.bad("prov/selector/all-proposed", "the all-ancestors-proposed test is gone", [ts.where()])
        so = ts.calls_to(r"sort_unstable_by_key$")
        pu = [c for c in ts.calls_to(r"Vec::<.*>::push$") if K.src_match(ts.operand_sources(c.args[0]), [r"vty:alloc::vec::Vec<component::entry::TxEntry>$"])]
        if so and pu and ts.dominates(so[0].bb, pu[0].bb):
            R.ok("order/selector/parents-first", "ancestors are ordered by ancestor count and the entry itself comes last", [so[0].where()])
        else:
            R.bad("order/selector/parents-first", "packages are no longer ordered parents-first", [ts.where()])
    R.guard("selector", selector)

    # ---------------------------------------------------------------- 7. uncle mirror rules
    def uncles():
        pu = F.need("ckb_tx_pool::block_assembler::candidate_uncles::CandidateUncles::prepare_uncles")
        E = lambda b, s, tt, ft: None
        tbl = [
            ("cmp/uncles/target", [r"call:.*UncleBlockView::compact_target$"], [r"call:.*EpochExt::compact_target$"], ("ne",)),
            ("cmp/uncles/epoch", [r"call:.*UncleBlockView::epoch$"], [r"call:.*EpochExt::number$"], ("ne",)),
            ("cmp/uncles/number", [r"call:.*UncleBlockView::number$"], [r"call:.*Snapshot::tip_number$"], ("lt",)),
            ("cmp/uncles/max", [r"call:.*Vec::<.*>::len$"], [r"call:.*Consensus::max_uncles_num$"], ("eq",)),
        ]
        for key, A, B, ops_ in tbl:
            sites = K.find_cmp(pu, A, B)
            got = sorted({(K.SWAP[s.op] if sw else s.op) for s, sw in sites})
            if got and set(got) <= set(ops_):
                R.ok(key, "template uncle rule %s uses %s" % (key.split("/")[-1], got), [sites[0][0].where()])
            else:
                R.bad(key, "template uncle rule %s uses %s, expected %s" % (key.split("/")[-1], got, list(ops_)), [pu.where()])
        nm = [s for s, sw in K.find_cmp(pu, [r"call:.*UncleBlockView::number$"], [r"call:.*Snapshot::tip_number$"])]
        if nm and K.arith_of(pu, nm[0].b) == ["lit:1", "op:add"] or nm and K.arith_of(pu, nm[0].a) == ["lit:1", "op:add"]:
            R.ok("affine/uncles/candidate", "uncle.number < tip + 1", [nm[0].where()])
        else:
            R.bad("affine/uncles/candidate", "the uncle number bound is not tip_number + 1", [pu.where()])
        for pat, nm_ in ((r"ChainStore::is_main_chain$", "main chain"), (r"ChainStore::is_uncle$", "already an uncle")):
            if len(pu.calls_to(pat)) >= 2:
                R.ok("mustcall/uncles/" + nm_.replace(" ", "-"), "both the uncle and its parent are tested against: %s" % nm_, [pu.calls_to(pat)[0].where()])
            else:
                R.bad("mustcall/uncles/" + nm_.replace(" ", "-"), "prepare_uncles has %d `%s` tests, expected 2 (uncle, parent)" % (len(pu.calls_to(pat)), nm_), [pu.where()])
    R.guard("uncles", uncles)

    # the epoch a fresh template is built for is computed from the snapshot's tip, every time: an epoch kept from the previous template is the
    # epoch of another branch after a reorg across an epoch boundary (round-3 seed C13-seed6: wrong target / epoch / dao in the template)
    def fresh_epoch():
        import re
        ub = [b for b in F.bodies_of_crate("ckb_tx_pool") if re.search(r"block_assembler::BlockAssembler::update_blank", b.path)]
        sites = [(b, c) for b in ub for c in b.calls_to(r"BlockTemplateBuilder::new$")]
        R.sites += len(sites)
        if not sites:
            R.bad("prov/template-epoch/anchor-lost", "BlockTemplateBuilder::new not found in update_blank", [])
            return
        for b, c in sites:
            R.fn(b)
            srcs = b.operand_sources(c.args[2]) if len(c.args) > 2 else b.operand_sources(c.args[-1])
            stale = sorted(x for x in srcs if re.search(r"CurrentTemplate\.epoch$", x))
            if stale:
                R.bad("prov/template-epoch", "update_blank builds the template for an epoch that may come from the previous template (%s), not from next_epoch_ext of the new tip" % stale[0], [c.where()])
            elif K.src_match(srcs, [r"call:.*Consensus::next_epoch_ext$"]):
                R.ok("prov/template-epoch", "the template's epoch is next_epoch_ext of the snapshot's tip", [c.where()])
            else:
                R.bad("prov/template-epoch", "the template's epoch does not come from Consensus::next_epoch_ext", [c.where()])
    R.guard("prov/template-epoch", fresh_epoch)

    # calc_total_by_X(new) = total - self.X + new reads the OLD self.X: it has to be evaluated before self.X is overwritten (round-2 seed
    # C13-seed3: the call moved behind `current.size.txs = new_txs_size`, the total then drifts by the old component size)
    def ledger_order():
        import re
        n = 0
        for fn, fld in (("update_transactions", "txs"), ("update_uncles", "uncles"), ("update_proposals", "proposals"), ("update_full", "txs")):
            for b in [x for x in F.bodies_of_crate("ckb_tx_pool") if re.search(r"block_assembler::BlockAssembler::%s" % fn, x.path)]:
                calls = b.calls_to(r"TemplateSize::calc_total_by_%s$" % ("txs" if fld == "txs" else fld))
                writes = [i for i, blk in enumerate(b.blocks) for st in blk["s"] if st[0][1] and str(st[0][1][-1]).endswith("TemplateSize." + fld)]
                if not calls or not writes:
                    continue
                n += 1
                R.fn(b)
                if all(any(b.dominates(c.bb, w) and (c.bb != w) or (c.bb == w) for c in calls) for w in writes) and not any(c.bb in b.reachable(w) and not b.dominates(c.bb, w) for c in calls for w in writes):
                    R.ok("order/ledger-calc-before-write/" + fn, "%s evaluates calc_total_by_%s before it overwrites size.%s" % (fn, fld, fld), [calls[0].where()])
                else:
                    R.bad("order/ledger-calc-before-write/" + fn, "%s overwrites size.%s before calc_total_by_%s reads the old value: the total is computed against the new component size" % (fn, fld, fld), [calls[0].where()])
        R.sites += n
        if n < 3:
            R.bad("order/ledger-calc-before-write/anchor-lost", "expected the calc-then-write pattern in update_transactions / update_uncles / update_proposals, found %d" % n, [])
    R.guard("order/ledger-calc-before-write", ledger_order)
