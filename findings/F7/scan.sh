#!/bin/bash
# usage: scan.sh <bin> <tag> <lo> <hi> <stride> [cases...]
bin=$1; tag=$2; lo=$3; hi=$4; stride=$5; shift 5
cases=${@:-$(seq 1 19)}
cd /tmp/wt/F7/script
mkdir -p /tmp/wt/F7/_tmp/$tag
export TMPDIR=/tmp/wt/F7/_tmp/$tag
for c in $cases; do
  EXPLORE_CASE=$c EXPLORE_LO=$lo EXPLORE_HI=$hi EXPLORE_STRIDE=$stride $bin ckb_2023::features_since_v2023::explore_spawn_chunks --nocapture 2>&1 \
    | grep -E "MISMATCH|mismatches in|once =|panicked" | cut -c1-230
done
rm -rf /tmp/wt/F7/_tmp/$tag
