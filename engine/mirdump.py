#!/usr/bin/env python3
"""Developer aid: print a body's facts in readable form.
usage: mirdump.py <crate> <path-regex> [--calls] [--facts DIR]"""
import sys
import os

sys.path.insert(0, os.path.dirname(os.path.abspath(__file__)))
from facts import Facts, rx  # noqa: E402


def pl(b, p):
    s = "_%d" % p[0]
    nm = b.local_names().get(p[0])
    if nm:
        s += "{%s}" % nm
    for pr in p[1]:
        if pr == "*":
            s = "(*%s)" % s
        elif pr.startswith("."):
            s += "." + pr[1:].split("::")[-1] if "." not in pr[1:] else "." + pr.split(".")[-1] + "<" + pr[1:].rsplit(".", 1)[0].split("::")[-1] + ">"
        else:
            s += "(" + pr + ")"
    return s


def op(b, o):
    if "p" in o:
        return pl(b, o["p"])
    if o.get("c"):
        return "const " + o["c"] + ("=" + str(o["v"]) if o.get("v") is not None else "")
    if o.get("v") is not None:
        return "lit " + str(o["v"])
    return "const<%s>" % o.get("ty", "?")


def rv(b, r):
    k = r["k"]
    if k == "use":
        return op(b, r["o"])
    if k == "ref":
        return ("&mut " if r.get("m") else "&") + pl(b, r["p"])
    if k == "bin":
        return "%s(%s, %s)" % (r["op"], op(b, r["a"]), op(b, r["b"]))
    if k == "un":
        return "%s(%s)" % (r["op"], op(b, r["a"]))
    if k == "cast":
        return "%s as %s" % (op(b, r["o"]), r["ty"])
    if k == "discr":
        return "discr(%s)" % pl(b, r["p"])
    if k == "agg":
        nm = r.get("adt", r.get("ak"))
        if r.get("variant"):
            nm += "::" + r["variant"]
        fs = r.get("fields") or []
        ops = r.get("ops", [])
        return "%s{%s}" % (nm, ", ".join(("%s: " % fs[i] if i < len(fs) else "") + op(b, o) for i, o in enumerate(ops)))
    return str(r)


def dump(b, calls_only=False):
    print("=" * 100)
    print(b.path, b.kind, "%s:%s" % (b.file, b.line), "parent=", b.parent, "self=", b.self_ty, "trait=", b.trait, "argc", b.argc)
    if not calls_only:
        for i, t in enumerate(b.locals):
            nm = b.local_names().get(i)
            if nm or i <= b.argc:
                print("   _%d %s: %s" % (i, nm or "", t))
    for i, blk in enumerate(b.blocks):
        if blk.get("c"):
            continue
        t = blk["t"]
        if calls_only and t.get("k") != "call":
            continue
        print(" bb%d:" % i)
        if not calls_only:
            for st in blk["s"]:
                print("     %s = %s   @%d" % (pl(b, st[0]), rv(b, st[1]), st[2]))
        k = t.get("k")
        if k == "call":
            print("     %s = CALL %s%s(%s) -> bb%s   @%s%s" % (
                pl(b, t["dest"]), t["callee"] or op(b, t["fnop"]), (" [=> %s]" % t["res"]) if t.get("res") and t["res"] != t["callee"] else "",
                ", ".join(op(b, a) for a in t["args"]), t.get("t"), t.get("line"), " (exp)" if t.get("exp") else ""))
        elif k == "switch":
            print("     SWITCH %s [%s] else bb%s  @%s" % (op(b, t["d"]), ", ".join("%s->bb%s" % (v[0], v[1]) for v in t["vals"]), t["else"], t.get("l")))
        elif k == "goto":
            print("     goto bb%s" % t["t"])
        elif k == "drop":
            print("     drop %s -> bb%s" % (pl(b, t["p"]), t["t"]))
        elif k == "assert":
            print("     assert %s==%s -> bb%s (%s)" % (op(b, t["c"]), t["e"], t["t"], t.get("msg")))
        else:
            print("     %s" % k)


def main():
    args = sys.argv[1:]
    calls_only = "--calls" in args
    if calls_only:
        args.remove("--calls")
    d = "/verif/.cache/facts/current"
    if "--facts" in args:
        i = args.index("--facts")
        d = args[i + 1]
        del args[i:i + 2]
    F = Facts(d)
    crate, pat = args[0], args[1]
    for b in F.bodies_of_crate(crate):
        if rx(pat).search(b.path):
            dump(b, calls_only)


if __name__ == "__main__":
    main()
