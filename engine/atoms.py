"""Robust atoms of a function (DESIGN 3.13, second generation of FINGERPRINT).

The first-generation fingerprint compared the complete multiset of decisions (with the values either side yields and the effects exclusive
to either side) and of significant calls (with argument forms). It caught every seeded change, and it fired on most substantive *refactors*
of an anchor function as well (`is_some_and` for `map(..).unwrap_or(false)`, `let .. else` for `match .. ?`, `find_map` for
`filter(..).map(..).next()`, an early return for a nested `if`). An alarm on a tree where the property holds is not acceptable, so what raises
an alarm now is only the LOSS of an *atom*: a small fact about the function that a behaviour-preserving rewrite keeps and whose disappearance
means a check, a step or an operand is gone:

  call  X                 the function (closures folded in) calls workspace function / significant std operation X (presence, not count)
  recv  X <form>          ... on a receiver of this form (`::remove` on `P1.leaders`)
  arg   X #i <form>       ... with an i-th non-receiver argument of this form (commutative callees: unordered)
  dec   <op A B> [side!]  a comparison / bool test / enum arm that is branched on, in canonical orientation (`a > b` = `b < a`; `!=` = `==`;
                          `x.is_none()` = `match x`), operands as forms, plus which side (if any) can only leave through an error exit
  must  <dec>             that (explicit) rejection test is on every path from the entry to a successful return (a test made per loop iteration:
                          its loop is)
  mustq X                 the fallible workspace step `X(..)?` is on every successful path
  new   T::V              a value of workspace struct / enum variant T::V is built
  fld   T::V.f <form>     ... with field f initialised from this form
  set   .f <form>         a field named f is assigned a value of this form
  ord   A < B             procedure A is called before procedure B on every path that calls B
  grd   X <= [tests]      the rejection test / procedure call X is made under exactly these non-rejecting tests (each with the side taken)
  arm   T::V -> <value>   a match on a workspace enum yields this call / aggregate (with cleaned argument forms) for variant V

New atoms (added checks, added steps, new functions) are never an alarm. A function of the reference that no longer exists is looked for in
its former callers (inlined) and a function that is new is attributed to its callers (extracted), with parameter leaves erased."""
import json
import re

import kinds as K
import fingerprint as FP

INFORMATIVE = re.compile(r'"(\.[A-Za-z_]\w*|call:[A-Za-z_][\w<>]*::\w+|const:\w+|[A-Z]\w+::\w+|lit:-?\d{2,})"')      # a bound of two or more digits is a named constant's value
ERR_ADT = re.compile(r"(Error|Err|Reject|Status|StatusCode)$")
PARAM = re.compile(r"P\d+(\.[A-Za-z_0-9#]+)*")


# leaves of a form that are plumbing: how an Option / Result / iterator / smart pointer is unwrapped or walked says nothing about the value
PLUMB = re.compile(r"^call:(?:[\w<>]+)?::(to_string|to_owned|to_vec|clone|cloned|copied|into|from|try_into|try_from|as_ref|as_mut|borrow|borrow_mut|deref|deref_mut|"
                   r"unwrap|unwrap_or|unwrap_or_else|unwrap_or_default|expect|ok_or|ok_or_else|ok|err|iter|iter_mut|into_iter|collect|next|map|map_err|map_or|"
                   r"map_or_else|and_then|then|then_some|default|new|with_capacity|as_slice|as_bytes|as_reader|to_entity|into_inner|get_ref|lock|read|write|"
                   r"enumerate|peekable|index|index_mut|get|get_mut|get_unchecked|first|last|by_ref|is_some_and|is_none_or|unzip|flatten|flat_map|inspect|fuse|chain|zip|filter|filter_map|find|find_map|position|any|all|"
                   r"fold|try_fold|for_each|try_for_each|sum|count|branch|from_residual|from_output|pack|unpack|unpack_into|into_view|data|as_builder|build)$")
DROP_LEAF = re.compile(r"^(fld:(ok|err|some|Some|Ok|Err)\.\d+|leaf:agg:.*\{closure.*|leaf:cmp|leaf:discr|leaf:upvar|leaf:agg:.*)$")


def clean_leaf(x):
    if not isinstance(x, str):
        return x
    if DROP_LEAF.match(x) or PLUMB.match(x):
        return None
    if x.startswith("lit:") and not re.match(r"^lit:-?\d+$", x):
        return None       # string / char / float literals: messages and labels
    if re.match(r"^P[\w^]+$", x):
        return None       # a bare parameter / captured variable: positional, changes with every extraction, inlining or closure conversion
    m = re.match(r"^P\d+((?:\.[\w#]+)+)$", x) or re.match(r"^fld:[\w#]+(\.[\w#]+)$", x) or re.match(r"^fld:()([\w#]+)$", x)
    if m:
        segs = [y for y in (m.group(2) if m.lastindex == 2 else m.group(1)).split(".") if y and not re.match(r"^#?\d+$", y)]
        # positional fields (tuple elements, closure captures, newtype payloads) are unstable under refactoring: the last *named* field is the leaf
        return ("." + segs[-1]) if segs else None
    return x


def clean(form):
    """the stable part of a form: plumbing leaves dropped, a field read is its field name (`P1.head.bytes`, `fld:Head.bytes` -> `.bytes`)"""
    if isinstance(form, str):
        return clean_leaf(form)
    out = []
    for x in form:
        if isinstance(x, (tuple, list)):
            y = clean(x)
            if y:
                out.append(tuple(y))
        else:
            y = clean_leaf(x)
            if y is not None:
                out.append(y)
    return tuple(sorted(set(out), key=str))


# std operations that are steps in their own right (effects, index / order semantics, checked arithmetic, decoders); pure queries and
# iterator adaptors (`filter`, `find`, `any`, `contains`, `get`, `zip`, ..) are interchangeable spellings and are not atoms
EFFECT_STD = re.compile(
    r"(::(checked|saturating|wrapping|overflowing)_(add|sub|mul|div|pow|rem)$|cmp::(min|max)$|Ord::(min|max|clamp)$|"
    r"Iterator::(skip|take|rev|step_by|skip_while|take_while|nth)$|"
    r"::(insert|remove|push|push_back|push_front|pop|pop_back|pop_front|extend|extend_from_slice|clear|retain|truncate|drain|split_off|swap_remove|sort\w*|dedup\w*|reverse|entry|or_insert\w*)$|"
    r"::(sync_all|sync_data|set_len|write_all|seek|flush|read_exact|rename|remove_file|create|open)$|"
    r"Atomic\w*::(load|store|fetch_add|fetch_sub|fetch_update|swap|compare_exchange)$|::(send|try_send|blocking_send)$|"
    r"::(from_slice|from_compatible_slice|new_unchecked|from_slice_should_be_ok)$)")


MUTATOR_STD = re.compile(r"::(insert|remove|push|push_back|push_front|pop|pop_back|pop_front|extend|extend_from_slice|clear|retain|truncate|drain|split_off|swap_remove|"
                         r"sync_all|sync_data|set_len|write_all|seek|flush|rename|remove_file|send|try_send|blocking_send|store|fetch_add|fetch_sub|swap)$")


def atom_call_name(c, S):
    """name of a call that is an atom: a workspace function (thin wrappers resolved) or an effectful std operation; None otherwise"""
    try:
        name = FP.through_wrappers(c, S) if S is not None else FP.significant(c)
    except Exception:
        name = FP.significant(c)
    if not name:
        return None
    if re.match(r"^<?ckb_", c.callee) or (c.res or "").startswith("ckb_"):
        return name
    if EFFECT_STD.search(c.callee) or (c.res and EFFECT_STD.search(c.res)):
        return name
    return None


def erase_params(atom):
    return PARAM.sub("P*", atom)


def _j(x):
    return FP.jd(x)


def _sides(b, h, site):
    """(true-side targets, false-side targets) of a decision in the orientation of canon(h)"""
    if h[0] == "match" and hasattr(site, "arm_target"):
        tts, fts = [site.arm_target], list(site.other_targets)
        sw = site.bb
    else:
        bts = K.branch_targets(b, site)
        if not bts:
            return None, None, None
        sw = bts[0][0]
        tts, fts = [x[1] for x in bts], [x[2] for x in bts]
    flips = 0
    if getattr(site, "op", None) == "ne":
        flips += 1
    if h[0] == "le":
        flips += 1
    if h[0] == "if" and h[1] and str(h[1][0]).endswith(("is_some", "is_ok")):
        flips += 1
    if h[0] == "match" and h[1] and h[1][0] in ("Option::Some", "Result::Ok"):
        flips += 1
    if flips % 2:
        tts, fts = fts, tts
    return sw, tts, fts


def _err_only(b, targets, err, rets):
    """no successful return is reachable from any of the targets"""
    if not targets:
        return False
    for t in targets:
        if t is None:
            return False
        if t in err:
            continue
        if b.reachable(t, avoid=err) & rets:
            return False
    return True


def _loop_anchor(b, sw, cache):
    """the head of the outermost loop that contains block `sw` (sw itself when it is in no loop): a test made once per iteration is 'on
    every successful path' when its loop is (a loop may run zero times)"""
    if sw in cache:
        return cache[sw]
    best = sw
    fwd = b.reachable(sw)
    for h in range(len(b.blocks)):
        if h != sw and h in fwd and b.dominates(h, sw) and b.dominates(h, best):
            best = h
    cache[sw] = best
    return best


EXTRA_GRD = None      # set by guards_of(): value-returning calls whose guard set is asked for by a rule


def guards_of(bodies, S, callee_pat):
    """[(atom name of the call, sorted list of the non-rejecting tests it is made under)] for the calls matching `callee_pat` in the function
    (closures folded in): the `grd` computation, for a rule that freezes the exact condition of one particular call."""
    global EXTRA_GRD
    EXTRA_GRD = re.compile(callee_pat)
    try:
        at = atoms(bodies, S)
    finally:
        EXTRA_GRD = None
    out = []
    names = set()
    for b in bodies:
        for c in b.calls:
            if re.search(callee_pat, c.res or c.callee) or re.search(callee_pat, c.callee):
                n = atom_call_name(c, S)
                if n:
                    names.add(n)
    for g in at["grd"]:
        nm, _, gs = g.partition(" <= ")
        if nm in names:
            out.append((nm, json.loads(gs)))
    return out


def bypass_of(bodies, S, callee_pat):
    """[(atom name of the call, sorted list of the informative non-rejecting tests after which the call can still be skipped)]: the `byp` sets of
    the calls matching `callee_pat`, for a rule that freezes them for one particular step"""
    at = atoms(bodies, S)
    names = set()
    for b in bodies:
        for c in b.calls:
            if re.search(callee_pat, c.res or c.callee) or re.search(callee_pat, c.callee):
                n = atom_call_name(c, S)
                if n:
                    names.add(n)
    out = []
    for g in at["byp"]:
        nm, _, gs = g.partition(" <= ")
        if nm in names:
            out.append((nm, json.loads(gs)))
    return out


def atoms(bodies, S=None):
    """{category: set(atom strings)} of one root function with its closures"""
    K.CANON_TRY = True
    K.CONST_AS_VALUE = True
    try:
        return _atoms(bodies, S)
    finally:
        K.CANON_TRY = False
        K.CONST_AS_VALUE = False


def _atoms(bodies, S):
    out = {k: set() for k in ("call", "recv", "arg", "dec", "must", "mustq", "mustcall", "new", "fld", "set", "grd", "ord", "arm", "grdn", "byp")}
    for b in bodies:
        try:
            logb = FP.log_region(b)
        except Exception:
            logb = set()
        err = b.error_exit_blocks(())
        # the relayer / synchronizer verifiers answer with a `Status`, not a `Result`: a block that builds a rejection Status
        # (StatusCode::X.with_context(..) / StatusCode::X.into()) is an error exit just as `Err(..)` is
        try:
            for c in b.calls:
                if c.callee.endswith("StatusCode::with_context") or (c.callee.endswith("Into::into") and getattr(c, "atys", None) and "StatusCode" in str(c.atys[0])):
                    err = set(err) | {c.bb}
        except Exception:
            pass
        rets = set(b.return_blocks())
        succ_rets = rets - err
        anchors = {}
        # ---- calls
        for c in b.calls:
            if c.bb in logb:
                continue
            # `x.f(..)?` with f a workspace function: a fallible step; on every successful path?
            if re.search(r"Try::branch$", c.callee) and c.args and "p" in c.args[0] and succ_rets:
                ds = b.defs().get(c.args[0]["p"][0], [])
                if len(ds) == 1 and ds[0][0] == "call":
                    d = ds[0][2]
                    dn = FP.significant(d)
                    if dn and (re.match(r"^<?ckb_", d.callee) or (d.res or "").startswith("ckb_")):
                        if not (b.reachable(0, avoid=(err - {c.bb}) | {_loop_anchor(b, c.bb, anchors)}) & succ_rets):
                            out["mustq"].add(dn)
            name = atom_call_name(c, S)
            if not name:
                continue
            out["call"].add(name)
            selfr = FP._self_receiver(c)
            try:
                if selfr and c.args:
                    rf = clean(K.form(b, c.args[0]))
                    if rf and not (c.res or c.callee).startswith("ckb_") and not re.match(r"^<?ckb_", c.callee):
                        out["recv"].add("%s %s" % (name, _j(rf)))
                args = c.args[1:] if selfr else c.args
                raw = [K.form(b, a) for a in args]
                forms = [clean(f) for f in raw]
                for i, (r, f) in enumerate(zip(raw, forms)):
                    if r and not f:
                        out["arg"].add("%s #%d ?" % (name, i))      # the value is opaque here (only positional / plumbing leaves)
                if FP.COMMUTATIVE.search(name):
                    for f in forms:
                        if f:
                            out["arg"].add("%s * %s" % (name, _j(f)))
                else:
                    for i, f in enumerate(forms):
                        if f:
                            out["arg"].add("%s #%d %s" % (name, i, _j(f)))
            except Exception:
                pass
            # on every successful path?
            if succ_rets and not (b.reachable(0, avoid=(err - {c.bb}) | {_loop_anchor(b, c.bb, anchors)}) & succ_rets):
                out["mustcall"].add(name)
        # ---- decisions
        guards, targets = [], []       # untagged informative decisions (sw, reach-if-true, reach-if-false, core); (block, id) of rejections / procedures
        try:
            seen = set()
            for h, site in K.decision_sites(b, ignore=FP.IGNORE, matches=True):
                if site.bb in logb:
                    continue
                hc = FP.canon(h)
                # how an Option / Result is taken apart (`?`, let-else, if-let, map_or ..) is plumbing: not a `dec` atom (the steps and rejections it
                # guards are atoms of their own); it can still be a *guard* when it tests the result of a workspace call and neither side rejects
                plumbing = hc[0] == "match" and hc[1] and hc[1][0] in ("Option::None", "Result::Err")
                if hc[0] == "if":
                    rcv = list(clean(hc[1][1:])) if hc[1] else []
                    if hc[1] and not rcv and not clean(hc[2]) and re.search(r"::(is_empty|is_zero|is_none|is_some|is_ok|is_err)$", str(hc[1][0])):
                        # `x.getter().is_empty()` where the getter is generated / plumbing code: the form of the receiver is empty; name the
                        # receiver by the workspace getters in its provenance so that the test can count as a guard (`!proposals().is_empty() &&`
                        # in front of a rejection)
                        try:
                            cs = [c for c in b.calls if c.bb == site.bb]
                            if cs and cs[0].args:
                                names = sorted({"call:" + "::".join(re.sub(r"<[^<>]*>", "", x[5:]).split("::")[-2:]) for x in b.operand_sources(cs[0].args[0])
                                                if x.startswith("call:ckb_") and not PLUMB.match("call:::" + x.split("::")[-1])})
                                rcv = names[:3]
                        except Exception:
                            pass
                    core = _j([hc[0], [hc[1][0]] + rcv if hc[1] else [], clean(hc[2])])
                else:
                    core = _j([hc[0], clean(hc[1]), clean(hc[2])])
                if not INFORMATIVE.search(core if not plumbing else _j(list(clean(hc[2])))):
                    continue      # a bool out of plumbing alone (`x.is_empty()`, `o.unwrap_or(false)`): nothing says what is tested
                tag = ""
                sw = None
                if hc[0] != "cmp~":
                    try:
                        sw, tts, fts = _sides(b, h, site)
                        if sw is not None:
                            te, fe = _err_only(b, tts, err, succ_rets), _err_only(b, fts, err, succ_rets)
                            if te and not fe:
                                tag = " T!"
                            elif fe and not te:
                                tag = " F!"
                    except Exception:
                        pass
                # `arm`: what a match on a workspace enum yields for one variant (`TxStatus::Gap => TxVerifyEnv::new_proposed(header, 0)`): swapping the
                # values of two arms keeps every other atom (the same calls with the same argument forms are still made somewhere in the function)
                if hc[0] == "match" and not plumbing and hc[1] and not re.match(r"^(Option|Result|Ordering|ControlFlow|Poll|Cow|Entry)::", str(hc[1][0])):
                    try:
                        for lab in h[3]:
                            if isinstance(lab, (tuple, list)) and lab and isinstance(lab[0], str) and lab[0].startswith(("call:", "agg:")):
                                args = [clean(x) for x in lab[1:] if isinstance(x, (tuple, list))]
                                if any(args) and not ERR_ADT.search(lab[0].split("::")[0].replace("agg:", "")):
                                    out["arm"].add("%s -> %s" % (hc[1][0], _j([lab[0]] + [list(a_) for a_ in args])))
                    except Exception:
                        pass
                a = core + tag
                if (site.bb, a) in seen:
                    continue
                seen.add((site.bb, a))
                if not plumbing:
                    out["dec"].add(a)
                if sw is None and not plumbing and hc[0] in ("lt", "eq") and b.kind not in ("Fn", "AssocFn"):
                    targets.append((site.bb, a + " =ret"))       # the verdict a predicate closure returns
                if sw is not None:
                    if tag and not plumbing:
                        targets.append((sw, a))
                    elif hc[0] != "cmp~":
                        try:
                            rt, rf = set(), set()
                            for t in tts:
                                if t is not None and t != sw:
                                    rt |= b.reachable(t, avoid={sw})
                            for t in fts:
                                if t is not None and t != sw:
                                    rf |= b.reachable(t, avoid={sw})
                            guards.append((sw, rt, rf, core, hc[0] == "match"))
                        except Exception:
                            pass
                if tag and not plumbing and sw is not None and succ_rets and not (b.reachable(0, avoid=(err - {sw}) | {_loop_anchor(b, sw, anchors)}) & succ_rets):
                    out["must"].add(a)
        except Exception as e:
            out["dec"].add("<analysis-error:%s>" % type(e).__name__)
        # ---- guard sets: under which (non-rejecting) tests a rejection test is made / a procedure is called. Adding `&& fast_path` in front of a
        # rejection, or `if cond { continue }` in front of a write, changes the set; nesting vs early return, `&&` vs nested `if` do not.
        try:
            locs = b.rec.get("locals") or []
            for c in b.calls:
                if c.bb in logb:
                    continue
                name = atom_call_name(c, S)
                if not name:
                    continue
                dty = str(locs[c.dest[0]]) if c.dest and c.dest[0] < len(locs) else ""
                is_ws = bool(re.match(r"^<?ckb_", c.callee) or (c.res or "").startswith("ckb_"))
                proc = (dty in ("()", "!") or re.match(r"^(core::result::|std::result::)?Result<\(\)", dty)) if is_ws else bool(MUTATOR_STD.search(c.callee) or (c.res and MUTATOR_STD.search(c.res)))
                if proc or (EXTRA_GRD is not None and EXTRA_GRD.search(c.res or c.callee)):
                    targets.append((c.bb, name))
            # order of effects: procedure A is completed before procedure B is called on every path that calls B (A's block dominates B's).
            # Swapping two effects, or moving one across a branch / loop boundary / early return, loses the fact; moving BOTH into a helper
            # keeps it there (and the loss here is forgiven with the calls that moved).
            procs = [(blk_id, tid) for blk_id, tid in targets if not tid.startswith("[")]
            if 2 <= len(procs) <= 40:
                for ba, na in procs:
                    for bb_, nb in procs:
                        if ba != bb_ and na != nb and b.dominates(ba, bb_) and not b.dominates(bb_, ba):
                            out["ord"].add("%s < %s" % (na, nb))
            grd_n = {}
            for blk_id, tid in targets:
                gs = set()
                for sw, rt, rf, core, is_match in guards:
                    if sw == blk_id or not b.dominates(sw, blk_id):
                        continue
                    it, if_ = blk_id in rt, blk_id in rf
                    if it and not if_:
                        gs.add(core + " :T")
                    elif if_ and not it and not is_match:
                        gs.add(core + " :F")
                ga = "%s <= %s" % (tid, json.dumps(sorted(gs)))
                out["grd"].add(ga)
                grd_n[ga] = grd_n.get(ga, 0) + 1
                # `byp`: the informative, non-rejecting tests after which this step can still be skipped (the test dominates the step and some exit is
                # reachable from it without passing the step). A superset of the guard set without sides: `if a && b { return }` in front of a
                # step has no single edge that excludes the step (so `grd` does not see it), but both tests can bypass it.
                bs = set()
                for sw, rt, rf, core, is_match in guards:
                    if sw == blk_id or not b.dominates(sw, blk_id):
                        continue
                    try:
                        if b.reachable(sw, avoid={blk_id}) & rets:
                            bs.add(core)
                    except Exception:
                        pass
                out["byp"].add("%s <= %s" % (tid, json.dumps(sorted(bs))))
            # `grdn`: the same step under the same conditions at n >= 2 places of the function (two loops that each stage entries, two arms that
            # each push): dropping one of them loses no presence fact
            for ga, n in grd_n.items():
                if n >= 2:
                    out["grdn"].add("%s #%d" % (ga, n))
        except Exception:
            pass
        # ---- values built and fields assigned
        for bi, blk in enumerate(b.blocks):
            if bi in logb:
                continue
            for st in blk["s"]:
                pl, rv = st[0], st[1]
                try:
                    if rv.get("k") == "agg" and rv.get("ak") == "adt" and str(rv.get("adt", "")).startswith("ckb_") and not FP.NOISE_CRATES.search(str(rv["adt"])):
                        nm = str(rv["adt"]).split("::")[-1]
                        if rv.get("variant") and rv["variant"] != nm:
                            nm += "::" + rv["variant"]
                        out["new"].add(nm)
                        flds = rv.get("fields") or []
                        if ERR_ADT.search(str(rv["adt"]).split("::")[-1]):
                            continue      # payloads of error values are diagnostics
                        for i, o in enumerate(rv.get("ops") or []):
                            f = clean(K.form(b, o))
                            if f:
                                out["fld"].add("%s.%s %s" % (nm, flds[i] if i < len(flds) else i, _j(f)))
                    fl = [str(x).split(".")[-1] for x in pl[1] if str(x).startswith(".")]
                    if fl and not re.match(r"^#?\d+$", fl[-1]):
                        lab = K.rvalue_label(b, rv)
                        lab = clean(lab) if not isinstance(lab, str) else clean_leaf(lab)
                        if lab and lab != ("agg",):
                            out["set"].add(".%s %s" % (fl[-1], _j(lab)))
                except Exception:
                    pass
    return {k: sorted(v) for k, v in out.items()}


_REACH = {}


def callee_reach(bodies, S, depth=2):
    """{name of a directly called workspace function (as in `call` atoms): names reachable from it through at most `depth` further calls}.
    Used when a function lost `call X` but gained `call G`: if G reaches X the step moved behind G (a helper, a getter doing the same)."""
    out = {}
    for b in bodies:
        for c in b.calls:
            if not (re.match(r"^<?ckb_", c.callee) or (c.res or "").startswith("ckb_")):
                continue
            n = atom_call_name(c, S)
            if not n:
                continue
            try:
                for cb in S.callee_bodies(c):
                    out.setdefault(n, set()).update(_reach_body(cb, S, depth))
                    for nb in cb.nested():
                        out[n] |= _reach_body(nb, S, depth)
            except Exception:
                pass
    return out


def _reach_body(b, S, depth):
    key = (b.path, depth)
    if key in _REACH:
        return _REACH[key]
    _REACH[key] = set()
    out = set()
    for c in b.calls:
        n = atom_call_name(c, S)
        if n:
            out.add(n)
        if depth > 0 and (re.match(r"^<?ckb_", c.callee) or (c.res or "").startswith("ckb_")):
            try:
                for cb in S.callee_bodies(c):
                    out |= _reach_body(cb, S, depth - 1)
                    for nb in cb.nested():
                        out |= _reach_body(nb, S, depth - 1)
            except Exception:
                pass
    _REACH[key] = out
    return out
