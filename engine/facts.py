"""Fact base: lazy per-crate loading of the driver's JSON-lines output, CFG utilities,
dominators, reachability, provenance. Standard library only."""
import glob
import json
import os
import re
from collections import defaultdict, deque


class Call:
    __slots__ = ("body", "bb", "callee", "res", "ga", "args", "atys", "dest", "target", "line", "exp", "fnop")

    def __init__(self, body, bb, t):
        self.body = body
        self.bb = bb
        self.callee = t.get("callee") or ""
        self.res = t.get("res") or ""
        self.ga = t.get("ga") or []
        self.args = t.get("args") or []
        self.atys = t.get("atys") or []
        self.dest = t.get("dest")
        self.target = t.get("t")
        self.line = t.get("line") or t.get("l") or 0
        self.exp = t.get("exp", False)
        self.fnop = t.get("fnop")

    def names(self):
        return (self.callee, self.res) if self.res else (self.callee,)

    def matches(self, pat):
        """pat: compiled regex or str (regex, searched in callee and resolved path)."""
        if isinstance(pat, str):
            pat = rx(pat)
        return bool(pat.search(self.callee) or (self.res and pat.search(self.res)))

    def where(self):
        return "%s:%d" % (self.body.file, self.line)

    def __repr__(self):
        return "<call %s @%s bb%d>" % (self.res or self.callee, self.where(), self.bb)


_rx_cache = {}


def rx(p):
    r = _rx_cache.get(p)
    if r is None:
        r = _rx_cache[p] = re.compile(p)
    return r


class Body:
    def __init__(self, rec, facts):
        self.rec = rec
        self.facts = facts
        self.path = rec["path"]
        self.crate = rec["crate"]
        self.kind = rec["kind"]
        self.name = rec.get("name")
        self.parent = rec.get("parent")
        self.root = rec.get("root")
        self.self_ty = rec.get("self")
        self.trait = rec.get("trait")
        self.vis = rec.get("vis")
        self.file = rec.get("file")
        self.line = rec.get("line")
        self.stage = rec.get("stage")
        self.argc = rec.get("argc", 0)
        self.blocks = rec.get("blocks", [])
        self.locals = rec.get("locals", [])
        self.generated = rec.get("gen", False)
        self._calls = None
        self._succ = None
        self._pred = None
        self._dom = None
        self._defs = None
        self._names = None
        self._prov = {}

    # ------------------------------------------------------------ basic structure
    @property
    def calls(self):
        if self._calls is None:
            self._calls = [Call(self, i, b["t"]) for i, b in enumerate(self.blocks) if b["t"].get("k") == "call"]
        return self._calls

    def calls_to(self, pat):
        return [c for c in self.calls if c.matches(pat)]

    def term(self, bb):
        return self.blocks[bb]["t"]

    def succs(self, bb):
        if self._succ is None:
            raw = [self._succs_of(i) for i in range(len(self.blocks))]
            self._succ = self._thread_const_bools(raw)
        return self._succ[bb]

    def _thread_const_bools(self, raw):
        """Jump threading for materialised conditions: a block that ends `L = const c; goto Q` where Q
        (without reassigning L) switches on L goes straight to the edge c selects. Removes only infeasible paths
        (`a && b`, `a || b`, `matches!(..)` are built this way in mir_built)."""
        out = [list(x) for x in raw]
        for q, blk in enumerate(self.blocks):
            t = blk["t"]
            if t.get("k") != "switch" or "p" not in t["d"] or t["d"]["p"][1]:
                continue
            L = t["d"]["p"][0]
            # Q may copy L first: `_t = L; switch _t` is handled when Q's only statements are that copy chain
            chain = {L}
            ok = True
            for st in blk["s"]:
                rv = st[1]
                if st[0][0] in chain and not st[0][1]:
                    if rv.get("k") == "use" and "p" in rv["o"] and not rv["o"]["p"][1]:
                        chain.add(rv["o"]["p"][0])
                    else:
                        ok = False
            if not ok:
                continue
            for p in range(len(self.blocks)):
                if raw[p] != [q] or self.blocks[p]["t"].get("k") != "goto":
                    continue
                val = None
                for st in self.blocks[p]["s"]:
                    if st[0][0] in chain and not st[0][1]:
                        rv = st[1]
                        if rv.get("k") == "use" and "p" not in rv["o"] and rv["o"].get("v") is not None and rv["o"].get("ty") == "bool":
                            val = str(rv["o"]["v"])
                        else:
                            val = None
                if val is None:
                    continue
                tgt = None
                for v, tg in t["vals"]:
                    if v == val:
                        tgt = tg
                if tgt is None:
                    tgt = t["else"]
                out[p] = [tgt]
        return out

    def _succs_of(self, bb):
        t = self.blocks[bb]["t"]
        k = t.get("k")
        if k == "goto":
            return [t["t"]]
        if k == "switch":
            out = [v[1] for v in t["vals"]]
            out.append(t["else"])
            return list(dict.fromkeys(out))
        if k in ("call", "drop", "assert"):
            return [t["t"]] if t.get("t") is not None else []
        if k == "yield":
            return [t["t"]]
        if k == "asm":
            return list(t.get("ts", []))
        return []

    def preds(self, bb):
        if self._pred is None:
            p = [[] for _ in self.blocks]
            for i in range(len(self.blocks)):
                for s in self.succs(i):
                    p[s].append(i)
            self._pred = p
        return self._pred[bb]

    def return_blocks(self):
        return [i for i, b in enumerate(self.blocks) if b["t"].get("k") == "return"]

    def reachable(self, start=0, avoid=()):
        """Set of blocks reachable from `start` (inclusive) without entering a block in `avoid`."""
        avoid = set(avoid)
        starts = [start] if isinstance(start, int) else list(start)
        seen = set()
        dq = deque(s for s in starts if s not in avoid)
        seen.update(dq)
        while dq:
            b = dq.popleft()
            for s in self.succs(b):
                if s not in seen and s not in avoid:
                    seen.add(s)
                    dq.append(s)
        return seen

    def path(self, start, goal, avoid=()):
        """A shortest path start->goal avoiding blocks, or None."""
        avoid = set(avoid)
        prev = {start: None}
        dq = deque([start])
        goals = {goal} if isinstance(goal, int) else set(goal)
        while dq:
            b = dq.popleft()
            if b in goals:
                out = []
                while b is not None:
                    out.append(b)
                    b = prev[b]
                return out[::-1]
            for s in self.succs(b):
                if s not in prev and s not in avoid:
                    prev[s] = b
                    dq.append(s)
        return None

    def dominators(self):
        """dom[b] = set of blocks dominating b (iterative; bodies are small)."""
        if self._dom is not None:
            return self._dom
        n = len(self.blocks)
        reach = self.reachable(0)
        order = []  # reverse postorder
        seen = set()
        stack = [(0, iter(self.succs(0)))]
        seen.add(0)
        post = []
        while stack:
            b, it = stack[-1]
            adv = False
            for s in it:
                if s not in seen:
                    seen.add(s)
                    stack.append((s, iter(self.succs(s))))
                    adv = True
                    break
            if not adv:
                post.append(b)
                stack.pop()
        order = post[::-1]
        idx = {b: i for i, b in enumerate(order)}
        idom = {0: 0}
        changed = True
        while changed:
            changed = False
            for b in order[1:]:
                ps = [p for p in self.preds(b) if p in idom]
                if not ps:
                    continue
                new = ps[0]
                for p in ps[1:]:
                    a, c = p, new
                    while a != c:
                        while idx[a] > idx[c]:
                            a = idom[a]
                        while idx[c] > idx[a]:
                            c = idom[c]
                    new = a
                if idom.get(b) != new:
                    idom[b] = new
                    changed = True
        dom = {}
        for b in reach:
            s = {b}
            x = b
            while x != 0 and x in idom:
                x = idom[x]
                s.add(x)
            dom[b] = s
        self._dom = dom
        return dom

    def dominates(self, a, b):
        d = self.dominators()
        return b in d and a in d[b]

    _ipdom = None

    def ipdom(self):
        """immediate post-dominator of every reachable block (Cooper-Harvey-Kennedy on the reverse CFG with a virtual exit -1 behind
        every block without successors); blocks that cannot reach an exit have no entry."""
        if self._ipdom is not None:
            return self._ipdom
        reach = {b for b in self.reachable(0) if self.blocks[b]["t"].get("k") not in ("unreachable", "resume", "abort")}   # `_ => unreachable!()` arms are not exits
        EXIT = -1
        rsucc = {EXIT: []}      # reverse graph: successors in the reverse CFG = predecessors in the CFG
        for b in reach:
            ss = [x for x in self.succs(b) if x in reach]
            if not ss:
                rsucc[EXIT].append(b)
        rpreds = {}             # predecessors in the reverse CFG = successors in the CFG (+ EXIT for sinks)
        for b in reach:
            ss = [x for x in self.succs(b) if x in reach]
            rpreds[b] = ss if ss else [EXIT]
            for x in ss:
                rsucc.setdefault(x, []).append(b)
        # reverse postorder of the reverse CFG from EXIT
        seen, post = {EXIT}, []
        stack = [(EXIT, iter(rsucc.get(EXIT, [])))]
        while stack:
            b, it = stack[-1]
            adv = False
            for x in it:
                if x not in seen:
                    seen.add(x)
                    stack.append((x, iter(rsucc.get(x, []))))
                    adv = True
                    break
            if not adv:
                post.append(b)
                stack.pop()
        order = post[::-1]
        idx = {b: i for i, b in enumerate(order)}
        idom = {EXIT: EXIT}
        changed = True
        while changed:
            changed = False
            for b in order[1:]:
                ps = [p for p in rpreds.get(b, []) if p in idom]
                if not ps:
                    continue
                new = ps[0]
                for p in ps[1:]:
                    a, c = p, new
                    while a != c:
                        while idx[a] > idx[c]:
                            a = idom[a]
                        while idx[c] > idx[a]:
                            c = idom[c]
                    new = a
                if idom.get(b) != new:
                    idom[b] = new
                    changed = True
        self._ipdom = {b: v for b, v in idom.items() if b != EXIT}
        return self._ipdom

    # ------------------------------------------------------------ error exits
    def error_exit_blocks(self, extra_call_pats=()):
        """Blocks that put an error into the return place: `?` residual propagation,
        `_0 = Result::Err(..)` / `Option::None`-free; plus calls matching extra patterns."""
        out = set()
        rvs = self.return_value_locals()
        for i, b in enumerate(self.blocks):
            t = b["t"]
            if t.get("k") == "call":
                cal = t.get("callee") or ""
                if cal.endswith("FromResidual::from_residual") and t["dest"][0] in rvs:
                    out.add(i)
                for p in extra_call_pats:
                    if rx(p).search(cal) or rx(p).search(t.get("res") or ""):
                        out.add(i)
            for st in b["s"]:
                pl, rv = st[0], st[1]
                if pl[0] in rvs and not pl[1] and rv.get("k") == "agg" and rv.get("adt") == "core::result::Result" and rv.get("variant") == "Err":
                    out.add(i)
        return out

    _rvs = None

    def return_value_locals(self):
        """locals whose value flows into the return place by plain moves/copies (`let r = ..; return r`)"""
        if self._rvs is None:
            rvs = {0}
            changed = True
            while changed:
                changed = False
                for b in self.blocks:
                    for st in b["s"]:
                        rv = st[1]
                        if st[0][0] in rvs and not st[0][1] and rv.get("k") == "use" and "p" in rv["o"] and not rv["o"]["p"][1]:
                            l = rv["o"]["p"][0]
                            if l not in rvs and l > self.argc:
                                rvs.add(l)
                                changed = True
            self._rvs = rvs
        return self._rvs

    # ------------------------------------------------------------ names / defs
    def local_names(self):
        if self._names is None:
            m = {}
            for n, pl in self.rec.get("dbg", []):
                if not pl[1]:
                    m.setdefault(pl[0], n)
            self._names = m
        return self._names

    def upvar_names(self):
        """closure bodies: index of captured field -> user name"""
        m = {}
        for n, pl in self.rec.get("dbg", []):
            if pl[0] == 1 and pl[1]:
                for pr in pl[1]:
                    if pr.startswith(".#"):
                        m[int(pr[2:])] = n
                        break
        return m

    def defs(self):
        """local -> list of ('assign', bb, place, rvalue, line) | ('call', bb, Call)"""
        if self._defs is None:
            d = defaultdict(list)
            for i, b in enumerate(self.blocks):
                for st in b["s"]:
                    d[st[0][0]].append(("assign", i, st[0], st[1], st[2]))
                t = b["t"]
                if t.get("k") == "call" and t.get("dest") is not None:
                    d[t["dest"][0]].append(("call", i, Call(self, i, t)))
                if t.get("k") == "yield":
                    pass
            self._defs = d
        return self._defs

    # ------------------------------------------------------------ provenance
    def operand_sources(self, op, depth=0, seen=None):
        if seen is None:
            seen = set()
        out = set()
        if "p" in op:
            pl = op["p"]
            for pr in pl[1]:
                if pr.startswith(".") and not pr.startswith(".#"):
                    out.add("field:" + pr[1:])
                elif pr.startswith(".#") and not (pl[0] == 1 and self.parent and self.kind != "Fn") and not self._is_overflow_tuple(pl[0]):
                    out.add("idx:" + pr[1:])
            if pl[0] == 1 and self.parent and self.kind != "Fn":
                for pr in pl[1]:
                    if pr.startswith(".#"):
                        out |= self.upvar_sources(int(pr[2:]))
                        break
            out |= self.local_sources(pl[0], seen)
        elif "c" in op or "v" in op:
            if op.get("c"):
                out.add("const:" + op["c"])
            if op.get("v") is not None:
                out.add("lit:" + str(op["v"]))
        return out

    def local_sources(self, local, seen=None):
        """Flow-insensitive backward closure: everything `local` may derive from."""
        if seen is None:
            if local in self._prov:
                return self._prov[local]
            top = True
            seen = set()
        else:
            top = False
        if local in seen:
            return set()
        seen.add(local)
        out = set()
        if 1 <= local <= self.argc:
            out.add("param:%d" % local)
            nm = self.local_names().get(local)
            if nm:
                out.add("param:" + nm)
            # the name this position had when the rules were reviewed (rules/param_names.json): a renamed parameter keeps its anchor
            sn = self.facts.param_snapshot().get(self.path)
            if sn and len(sn) == self.argc and sn[local - 1]:
                out.add("param:" + sn[local - 1])
            if local >= 2 and self.parent and self.kind != "Fn":
                out |= self.closure_param_sources()
        nm = self.local_names().get(local)
        if nm:
            out.add("var:" + nm)
            # the declared type of a named user variable: a rename-proof way to recognise it (`vty:<type>`)
            locs = self.rec.get("locals") or []
            if local < len(locs):
                out.add("vty:" + str(locs[local]))
        for d in self.defs().get(local, []):
            if d[0] == "assign":
                rv = d[3]
                out |= self.rvalue_sources(rv, seen)
            else:
                c = d[2]
                out.add("call:" + c.callee)
                if c.res and c.res != c.callee:
                    out.add("call:" + c.res)
                for a in c.args:
                    out |= self.operand_sources(a, 0, seen)
        # mutation through &mut borrows passed to calls
        for (bb, c, argi) in self.mut_uses().get(local, []):
            out.add("call:" + c.callee)
            if c.res and c.res != c.callee:
                out.add("call:" + c.res)
            for j, a in enumerate(c.args):
                if j != argi:
                    out |= self.operand_sources(a, 0, seen)
        if top:
            self._prov[local] = out
        return out

    def call_sites(self, op, seen=None):
        """Call terminators (block indices) whose results may flow into the operand (flow-insensitive, through
        copies, refs, field reads and value-preserving wrappers); identifies *which* call site a value comes from."""
        if seen is None:
            seen = set()
        out = set()
        if "p" not in op:
            return out
        local = op["p"][0]
        if local in seen:
            return out
        seen.add(local)
        for d in self.defs().get(local, []):
            if d[0] == "assign":
                rv = d[3]
                k = rv.get("k")
                if k in ("use", "cast", "repeat"):
                    out |= self.call_sites(rv["o"], seen)
                elif k == "ref":
                    out |= self.call_sites({"p": rv["p"]}, seen)
                elif k == "agg":
                    for o in rv.get("ops", []):
                        out |= self.call_sites(o, seen)
                elif k == "bin":
                    out |= self.call_sites(rv["a"], seen) | self.call_sites(rv["b"], seen)
            else:
                c = d[2]
                out.add(c.bb)
                if re.search(r"(Try::branch|::unwrap|::expect|::clone|::to_owned|Deref::deref|::into|::from|::as_ref|::map_err|::ok_or|::ok_or_else)$", c.callee):
                    for a in c.args[:1]:
                        out |= self.call_sites(a, seen)
        return out

    def rvalue_sources(self, rv, seen):
        out = set()
        k = rv.get("k")
        if k in ("use", "cast", "repeat"):
            out |= self.operand_sources(rv["o"], 0, seen)
        elif k == "ref":
            out |= self.operand_sources({"p": rv["p"]}, 0, seen)
        elif k == "bin":
            out.add("op:" + rv["op"])
            out |= self.operand_sources(rv["a"], 0, seen)
            out |= self.operand_sources(rv["b"], 0, seen)
        elif k == "un":
            out.add("op:" + rv["op"])
            out |= self.operand_sources(rv["a"], 0, seen)
        elif k == "discr":
            out |= self.operand_sources({"p": rv["p"]}, 0, seen)
        elif k == "agg":
            if rv.get("adt"):
                out.add("agg:" + rv["adt"] + ("::" + rv["variant"] if rv.get("variant") else ""))
            for o in rv.get("ops", []):
                out |= self.operand_sources(o, 0, seen)
            if rv.get("ak") == "closure":
                # what a closure value computes from: the calls made in its body (and nested closures)
                out |= self.facts.closure_calls(rv["adt"], self.crate)
        return out

    _cps = None

    def closure_param_sources(self):
        """closure body: what its parameters are fed with = the other arguments (receiver iterator/option) of the
        combinator call(s) the closure is passed to in the parent body"""
        if self._cps is not None:
            return self._cps
        self._cps = set()
        out = set()
        par = self.facts.body(self.parent, self.crate)
        if par is not None:
            holders = set()
            for blk in par.blocks:
                for st in blk["s"]:
                    rv = st[1]
                    if rv.get("k") == "agg" and rv.get("ak") == "closure" and rv.get("adt") == self.path and not st[0][1]:
                        holders.add(st[0][0])
            # copies / refs of the closure value
            changed = True
            while changed:
                changed = False
                for blk in par.blocks:
                    for st in blk["s"]:
                        rv = st[1]
                        src = None
                        if rv.get("k") in ("use", "cast") and "p" in rv["o"]:
                            src = rv["o"]["p"][0]
                        elif rv.get("k") == "ref":
                            src = rv["p"][0]
                        if src in holders and st[0][0] not in holders and not st[0][1]:
                            holders.add(st[0][0])
                            changed = True
            for c in par.calls:
                idx = [i for i, a in enumerate(c.args) if "p" in a and a["p"][0] in holders]
                if not idx:
                    continue
                for i, a in enumerate(c.args):
                    if i not in idx:
                        out |= par.operand_sources(a)
        self._cps = out
        return out

    def _is_overflow_tuple(self, local):
        for d in self.defs().get(local, []):
            if d[0] == "assign" and d[3].get("k") == "bin" and d[3]["op"].endswith("WithOverflow"):
                return True
        return False

    _upv = None

    def upvar_sources(self, i):
        """closure body: sources of captured variable i, evaluated in the parent body."""
        if self._upv is None:
            self._upv = {}
        if i in self._upv:
            return self._upv[i]
        self._upv[i] = set()
        out = set()
        nm = self.upvar_names().get(i)
        if nm:
            out.add("upvar:" + nm)
        par = self.facts.body(self.parent, self.crate)
        if par is not None:
            for blk in par.blocks:
                for st in blk["s"]:
                    rv = st[1]
                    if rv.get("k") == "agg" and rv.get("ak") == "closure" and rv.get("adt") == self.path:
                        ops = rv.get("ops", [])
                        if i < len(ops):
                            out |= par.operand_sources(ops[i])
        self._upv[i] = out
        return out

    _mut = None

    def mut_uses(self):
        """local X -> [(bb, call, arg_index)] where a `&mut X` (or reborrow) is passed to a call."""
        if self._mut is not None:
            return self._mut
        # refs: local r defined as &mut place(base X)
        refof = {}
        for i, b in enumerate(self.blocks):
            for st in b["s"]:
                rv = st[1]
                if rv.get("k") == "ref" and rv.get("m") and not st[0][1]:
                    refof.setdefault(st[0][0], set()).add(rv["p"][0])
        # propagate reborrows: r2 = &mut *r1
        changed = True
        while changed:
            changed = False
            for r, bases in list(refof.items()):
                for bse in list(bases):
                    for b2 in refof.get(bse, ()):
                        if b2 not in bases:
                            bases.add(b2)
                            changed = True
        m = defaultdict(list)
        for c in self.calls:
            for j, a in enumerate(c.args):
                if "p" in a and not a["p"][1]:
                    for x in refof.get(a["p"][0], ()):
                        m[x].append((c.bb, c, j))
        self._mut = m
        return m

    def nested(self):
        """closure / coroutine bodies whose root is this body (all depths)."""
        return [b for b in self.facts.bodies_of_crate(self.crate) if b.root == (self.root or self.path) and b is not self and self.is_ancestor_of(b)]

    def is_ancestor_of(self, other):
        p = other.parent
        seen = 0
        while p and seen < 20:
            if p == self.path:
                return True
            nb = self.facts.body(p, self.crate)
            p = nb.parent if nb else None
            seen += 1
        return False

    def where(self, bb=None):
        if bb is None:
            return "%s:%s" % (self.file, self.line)
        t = self.blocks[bb]["t"]
        return "%s:%s" % (self.file, t.get("line") or t.get("l") or self.line)

    def __repr__(self):
        return "<body %s>" % self.path


class Facts:
    def __init__(self, directory):
        self.dir = directory
        self._crates = {}
        self.files = {}
        for f in sorted(glob.glob(os.path.join(directory, "*.jsonl"))):
            base = os.path.basename(f)
            name = base.rsplit("-", 1)[0]
            # keep the largest file per crate (lib beats bin of the same name)
            if name not in self.files or os.path.getsize(f) > os.path.getsize(self.files[name]):
                self.files[name] = f
        self.loaded_bodies = 0
        self.touched = set()

    _psnap = None

    def param_snapshot(self):
        if Facts._psnap is None:
            p = os.path.join(os.path.dirname(os.path.dirname(os.path.abspath(__file__))), "rules", "param_names.json")
            try:
                with open(p) as fh:
                    Facts._psnap = json.load(fh)
            except OSError:
                Facts._psnap = {}
        return Facts._psnap

    def crates(self):
        return sorted(self.files)

    def _load(self, crate):
        if crate in self._crates:
            return self._crates[crate]
        c = {"bodies": {}, "adts": {}, "impls": [], "traits": {}, "consts": {}, "list": []}
        f = self.files.get(crate)
        if f is None:
            raise KeyError("no facts for crate %s" % crate)
        with open(f) as fh:
            for line in fh:
                r = json.loads(line)
                k = r["k"]
                if k == "body":
                    b = Body(r, self)
                    c["bodies"].setdefault(b.path, b)
                    c["list"].append(b)
                elif k == "adt":
                    c["adts"][r["path"]] = r
                elif k == "impl":
                    c["impls"].append(r)
                elif k == "trait":
                    c["traits"][r["path"]] = r
                elif k == "const":
                    c["consts"][r["path"]] = r
        self._crates[crate] = c
        self.loaded_bodies += len(c["list"])
        return c

    def bodies_of_crate(self, crate):
        return self._load(crate)["list"]

    def body(self, path, crate=None):
        if crate is None:
            crate = path.split("::", 1)[0]
        if crate not in self.files:
            return None
        b = self._load(crate)["bodies"].get(path)
        if b is not None:
            self.touched.add(path)
        return b

    def need(self, path):
        b = self.body(path)
        if b is None:
            raise AnchorLost(path)
        return b

    def one(self, crate, pat, kind=("Fn", "AssocFn")):
        """the single fn/method body of `crate` whose path matches regex `pat` (fail closed otherwise)"""
        r = rx(pat)
        bs = [b for b in self.bodies_of_crate(crate) if b.kind in kind and r.search(b.path)]
        if len(bs) != 1:
            raise AnchorLost("%s ~ /%s/ matched %d bodies" % (crate, pat, len(bs)))
        self.touched.add(bs[0].path)
        return bs[0]

    def find(self, crate, pat):
        r = rx(pat)
        return [b for b in self.bodies_of_crate(crate) if r.search(b.path)]

    _cc = None

    def closure_calls(self, path, crate, depth=0):
        if self._cc is None:
            self._cc = {}
        if path in self._cc:
            return self._cc[path]
        self._cc[path] = set()
        out = set()
        b = self.body(path, crate)
        if b is not None and depth < 4:
            for c in b.calls:
                if c.callee:
                    out.add("call:" + c.callee)
                if c.res and c.res != c.callee:
                    out.add("call:" + c.res)
            for blk in b.blocks:
                for st in blk["s"]:
                    rv = st[1]
                    if rv.get("k") == "agg" and rv.get("ak") == "closure":
                        out |= self.closure_calls(rv["adt"], crate, depth + 1)
                    for pl in ([st[1].get("p")] if st[1].get("p") else []):
                        for pr in pl[1]:
                            if pr.startswith(".") and not pr.startswith(".#"):
                                out.add("field:" + pr[1:])
        self._cc[path] = out
        return out

    def adt(self, path):
        crate = path.split("::", 1)[0]
        if crate not in self.files:
            return None
        return self._load(crate)["adts"].get(path)

    def impls(self, crate):
        return self._load(crate)["impls"]

    def consts(self, crate):
        return self._load(crate)["consts"]

    def build_index(self):
        """callee name -> crates that call it; written once per fact store."""
        idx = {}
        fidx = {}
        for c in self.crates():
            names = set()
            with open(self.files[c]) as fh:
                for line in fh:
                    if not line.startswith('{"k":"body"'):
                        continue
                    r = json.loads(line)
                    if r.get("file"):
                        fidx.setdefault(r["file"], set()).add(c)
                    for b in r.get("blocks", []):
                        t = b["t"]
                        if t.get("k") == "call":
                            if t.get("callee"):
                                names.add(t["callee"])
                            if t.get("res"):
                                names.add(t["res"])
            for n in names:
                idx.setdefault(n, []).append(c)
        with open(os.path.join(self.dir, "calls.idx.json"), "w") as fh:
            json.dump(idx, fh)
        with open(os.path.join(self.dir, "files.idx.json"), "w") as fh:
            json.dump({k: sorted(v) for k, v in fidx.items()}, fh)
        return idx

    _fidx = None

    def file_index(self):
        """source file -> crates that define bodies in it"""
        if self._fidx is None:
            p = os.path.join(self.dir, "files.idx.json")
            if not os.path.exists(p):
                self.build_index()
            with open(p) as fh:
                self._fidx = json.load(fh)
        return self._fidx

    _idx = None

    def call_index(self):
        if self._idx is None:
            p = os.path.join(self.dir, "calls.idx.json")
            if os.path.exists(p):
                with open(p) as fh:
                    self._idx = json.load(fh)
            else:
                self._idx = self.build_index()
        return self._idx

    def callers(self, pat, crates=None):
        """All call sites in the given crates (default: all) whose callee/resolved matches."""
        r = rx(pat) if isinstance(pat, str) else pat
        out = []
        if crates is None:
            cs = set()
            for n, lst in self.call_index().items():
                if r.search(n):
                    cs.update(lst)
            crates = sorted(cs)
        for c in crates:
            for b in self.bodies_of_crate(c):
                for call in b.calls:
                    if call.matches(r):
                        out.append(call)
        return out


class AnchorLost(Exception):
    pass
