"""Rule kinds (DESIGN section 3) over the fact base. Every helper records what it inspected in the
Report and returns True when the instance holds."""
import re
from collections import defaultdict

from facts import AnchorLost, rx

CMP_OPS = {"Lt": "lt", "Le": "le", "Gt": "gt", "Ge": "ge", "Eq": "eq", "Ne": "ne"}
CMP_CALLS = {
    "core::cmp::PartialOrd::lt": "lt", "core::cmp::PartialOrd::le": "le", "core::cmp::PartialOrd::gt": "gt",
    "core::cmp::PartialOrd::ge": "ge", "core::cmp::PartialEq::eq": "eq", "core::cmp::PartialEq::ne": "ne",
}
# truth of `A op B` under the three orderings A<B, A=B, A>B
TRUTH = {
    "lt": (True, False, False), "le": (True, True, False), "gt": (False, False, True),
    "ge": (False, True, True), "eq": (False, True, False), "ne": (True, False, True),
}
SWAP = {"lt": "gt", "le": "ge", "gt": "lt", "ge": "le", "eq": "eq", "ne": "ne"}


def pats(p):
    if isinstance(p, (list, tuple, set)):
        return [rx(x) if isinstance(x, str) else x for x in p]
    return [rx(p) if isinstance(p, str) else p]


def call_matches_any(c, ps):
    return any(c.matches(p) for p in ps)


# ------------------------------------------------------------------ summaries

class Summ:
    """Interprocedural must-call / may-call summaries with an inlining bound."""

    def __init__(self, F, depth=3):
        self.F = F
        self.depth = depth
        self._must = {}
        self._may = {}

    def callee_bodies(self, call):
        out = []
        for n in (call.res, call.callee):
            if n:
                b = self.F.body(n)
                if b is not None and b not in out:
                    out.append(b)
                    break
        return out

    def closure_args(self, call):
        """closure bodies passed (by value or by ref) as arguments of this call"""
        out = []
        body = call.body
        for a in call.args:
            if "p" in a:
                for cb in closure_of_local(body, a["p"][0]):
                    out.append(cb)
            elif a.get("c", "") and str(a.get("c", "")).startswith("fn:"):
                fb = self.F.body(a["c"][3:])
                if fb is not None:
                    out.append(fb)
        return out

    def must_call(self, body, ps, depth=None, extra_err=()):
        """True if every success path of `body` passes a call matching ps (interprocedural)."""
        depth = self.depth if depth is None else depth
        key = (body.path, tuple(p.pattern for p in ps), depth, tuple(extra_err))
        if key in self._must:
            return self._must[key]
        self._must[key] = False  # recursion guard
        hit = self.hit_blocks(body, ps, depth, extra_err)
        err = body.error_exit_blocks(extra_err)
        rets = set(body.return_blocks())
        reach = body.reachable(0, avoid=hit | err)
        res = not (reach & rets) and bool(rets or hit)
        if 0 in hit:
            res = True
        self._must[key] = res
        return res

    def hit_blocks(self, body, ps, depth=None, extra_err=()):
        """Blocks whose terminator is a call that (transitively, on all its success paths) calls ps."""
        depth = self.depth if depth is None else depth
        hit = set()
        for c in body.calls:
            if call_matches_any(c, ps):
                hit.add(c.bb)
                continue
            if depth > 0:
                done = False
                for cb in self.callee_bodies(c):
                    if self.must_call(cb, ps, depth - 1, extra_err):
                        hit.add(c.bb)
                        done = True
                        break
                if done:
                    continue
                if COMBINATORS.search(c.callee):
                    for cl in self.closure_args(c):
                        if self.must_call(cl, ps, depth - 1, extra_err):
                            hit.add(c.bb)
                            break
        return hit

    def may_call(self, body, ps, depth=None, seen=None):
        """True if some call matching ps is reachable through the call graph from body."""
        depth = self.depth if depth is None else depth
        return bool(self.may_sites(body, ps, depth))

    def may_sites(self, body, ps, depth=None, seen=None):
        depth = self.depth if depth is None else depth
        seen = set() if seen is None else seen
        if body.path in seen:
            return []
        seen.add(body.path)
        out = []
        for c in body.calls:
            if call_matches_any(c, ps):
                out.append(c)
            elif depth > 0:
                for cb in self.callee_bodies(c):
                    out += self.may_sites(cb, ps, depth - 1, seen)
                for cl in self.closure_args(c):
                    out += self.may_sites(cl, ps, depth - 1, seen)
        return out


COMBINATORS = rx(r"::(and_then|map|map_err|ok_or_else|try_fold|for_each|try_for_each|unwrap_or_else|then|filter_map|with_lock|or_else|inspect|fold|all|any|find|filter|flat_map|scope|block_in_place|spawn|write|read)$")


def closure_of_local(body, local, depth=0, seen=None):
    """Bodies of closures that `local` may hold (closure aggregate, or a reference to one)."""
    seen = set() if seen is None else seen
    if local in seen or depth > 4:
        return []
    seen.add(local)
    out = []
    for d in body.defs().get(local, []):
        if d[0] != "assign":
            continue
        rv = d[3]
        if rv.get("k") == "agg" and rv.get("ak") == "closure":
            b = body.facts.body(rv["adt"], body.crate)
            if b is not None:
                out.append(b)
        elif rv.get("k") in ("use", "cast") and "p" in rv["o"]:
            out += closure_of_local(body, rv["o"]["p"][0], depth + 1, seen)
        elif rv.get("k") == "ref":
            out += closure_of_local(body, rv["p"][0], depth + 1, seen)
    return out


# ------------------------------------------------------------------ guard assumptions

def assumed_edges(body, assume):
    """assume: list of (call_pattern, bool). Returns set of (from_bb, to_bb) edges to drop:
    the switch edge contradicting the assumed value of the call's result (through Not/copies)."""
    drop = set()
    if not assume:
        return drop
    for pat, val in assume:
        for c in body.calls_to(pat):
            if c.dest is None or c.dest[1]:
                continue
            for (bb, truth_when_nonzero) in bool_uses_through(body, c.dest[0]):
                t = body.term(bb)
                zero_t = None
                for v in t["vals"]:
                    if v[0] == "0":
                        zero_t = v[1]
                nz_t = t["else"]
                if zero_t is None:
                    continue
                # value==val  => take edge accordingly
                actual_nonzero = (val == truth_when_nonzero)
                if actual_nonzero:
                    if zero_t != nz_t:
                        drop.add((bb, zero_t))
                else:
                    if zero_t != nz_t:
                        drop.add((bb, nz_t))
    return drop


def bool_uses_through(body, local):
    """bool_uses of `local` and of the values obtained from it through `?`, unwrap/expect and payload reads
    (`let b = call()?; if b {..}`)"""
    out = list(bool_uses(body, local))
    frontier = [local]
    seen = {local}
    while frontier:
        l = frontier.pop()
        nxt = []
        for c in body.calls:
            if TRANSPARENT.search(c.callee) and c.args and "p" in c.args[0] and c.args[0]["p"][0] == l and c.dest and not c.dest[1]:
                nxt.append(c.dest[0])
        for blk in body.blocks:
            for st in blk["s"]:
                rv = st[1]
                if st[0][1]:
                    continue
                if rv.get("k") == "use" and "p" in rv["o"] and rv["o"]["p"][0] == l and rv["o"]["p"][1]:
                    # payload read: (x as Continue).0 / (x as Some).0 / (x as Ok).0
                    if any(pr.startswith("as ") for pr in rv["o"]["p"][1]):
                        nxt.append(st[0][0])
        for n in nxt:
            if n not in seen:
                seen.add(n)
                frontier.append(n)
                out += bool_uses(body, n)
    return out


def bool_uses(body, local, parity=True, seen=None):
    """Switch terminators whose discriminant derives from bool `local` through copies and Not.
    Yields (bb, truth): truth = value of `local` when the switch takes its non-zero edge."""
    seen = set() if seen is None else seen
    if local in seen:
        return []
    seen.add(local)
    out = []
    for i, b in enumerate(body.blocks):
        t = b["t"]
        if t.get("k") == "switch" and "p" in t["d"] and t["d"]["p"][0] == local and not t["d"]["p"][1]:
            out.append((i, parity))
        for st in b["s"]:
            rv = st[1]
            if st[0][1]:
                continue
            if rv.get("k") == "use" and "p" in rv["o"] and rv["o"]["p"][0] == local and not rv["o"]["p"][1]:
                out += bool_uses(body, st[0][0], parity, seen)
            elif rv.get("k") == "un" and rv["op"] == "Not" and "p" in rv["a"] and rv["a"]["p"][0] == local:
                out += bool_uses(body, st[0][0], not parity, seen)
    return out


def same_bool_edges(body, local, val):
    """edges to drop when bool `local` is known to be `val`"""
    drop = set()
    for (bb, truth) in bool_uses(body, local):
        t = body.term(bb)
        zero_t = None
        for v in t["vals"]:
            if v[0] == "0":
                zero_t = v[1]
        nz_t = t["else"]
        if zero_t is None or zero_t == nz_t:
            continue
        nonzero = (val == truth)
        drop.add((bb, zero_t) if nonzero else (bb, nz_t))
    return drop


def reach_with(body, start, avoid=(), drop_edges=()):
    avoid = set(avoid)
    drop_edges = set(drop_edges)
    starts = [start] if isinstance(start, int) else list(start)
    seen = set(s for s in starts if s not in avoid)
    stack = list(seen)
    prev = {s: None for s in seen}
    while stack:
        b = stack.pop()
        for s in body.succs(b):
            if s in seen or s in avoid or (b, s) in drop_edges:
                continue
            seen.add(s)
            prev[s] = b
            stack.append(s)
    return seen, prev


def path_lines(body, prev, end):
    out = []
    b = end
    while b is not None:
        out.append(b)
        b = prev.get(b)
    out = out[::-1]
    lines = []
    for b in out:
        t = body.blocks[b]["t"]
        ln = t.get("line") or t.get("l")
        if ln and (not lines or lines[-1] != ln):
            lines.append(ln)
    return ["%s:%d" % (body.file, l) for l in lines[:40]]


# ------------------------------------------------------------------ MUSTCALL / ORDER

def mustcall(R, key, body, required, S, start=None, extra_err=(), assume=(), depth=None, allow_err_exits=True, what="", ends=None, drop_edges=()):
    """Every success path from `start` (default entry) to Return passes a call matching each
    element of `required` (each element: pattern or list of alternative patterns)."""
    R.fn(body)
    ok = True
    drop = assumed_edges(body, assume) | set(drop_edges)
    err = body.error_exit_blocks(extra_err) if allow_err_exits else set()
    rets = set(body.return_blocks()) if ends is None else set(ends)
    for req in required:
        ps = pats(req)
        hit = S.hit_blocks(body, ps, depth, extra_err)
        R.sites += len(hit)
        starts = [0] if start is None else ([start] if isinstance(start, int) else list(start))
        starts = [s for s in starts]
        reach, prev = reach_with(body, [s for s in starts if s not in hit], avoid=hit | err, drop_edges=drop)
        bad = reach & rets
        ikey = "%s/%s" % (key, label(req))
        if not hit:
            R.bad(ikey, "%s: no call to %s in %s (%s)" % (what or "mustcall", label(req), body.path, body.where()), [body.where()])
            ok = False
        elif bad:
            r = sorted(bad)[0]
            R.bad(ikey, "%s: a success path of %s reaches return without %s" % (what or "mustcall", body.path, label(req)), path_lines(body, prev, r))
            ok = False
        else:
            R.ok(ikey, "%s: every success path of %s passes %s (%d call blocks)" % (what or "mustcall", body.path, label(req), len(hit)),
                 [body.where(b) for b in sorted(hit)[:4]])
    return ok


def label(req):
    if isinstance(req, (list, tuple, set)):
        return "|".join(label(x) for x in req)
    s = req if isinstance(req, str) else req.pattern
    s = s.replace("\\", "").rstrip("$")
    parts = s.split("::")
    return "::".join(parts[-2:]) if len(parts) > 1 else s


def order_dom(R, key, body, a, b, S=None, what="", need_b=1, depth=0, a_success_only=True):
    """Every call matching b is dominated by (the success edge of) some call matching a."""
    R.fn(body)
    pa, pb = pats(a), pats(b)
    if S is not None and depth:
        ablocks = S.hit_blocks(body, pa, depth)
    else:
        ablocks = {c.bb for c in body.calls if call_matches_any(c, pa)}
    bcalls = [c for c in body.calls if call_matches_any(c, pb)]
    R.sites += len(ablocks) + len(bcalls)
    if len(bcalls) < need_b:
        R.bad(key, "%s: expected >=%d call(s) to %s in %s, found %d" % (what or "order", need_b, label(b), body.path, len(bcalls)), [body.where()])
        return False
    if not ablocks:
        R.bad(key, "%s: no call to %s in %s" % (what or "order", label(a), body.path), [body.where()])
        return False
    ok = True
    for c in bcalls:
        if not any(body.dominates(x, c.bb) and x != c.bb for x in ablocks):
            R.bad(key, "%s: call to %s at %s is not dominated by %s" % (what or "order", label(b), c.where(), label(a)), [c.where()])
            ok = False
    if ok:
        R.ok(key, "%s: %d call(s) to %s each dominated by %s in %s" % (what or "order", len(bcalls), label(b), label(a), body.path),
             [c.where() for c in bcalls[:4]])
    return ok


def never_after(R, key, body, a, x, S=None, depth=0, what=""):
    """No call matching x is reachable from the success edge of a call matching a."""
    R.fn(body)
    pa, px = pats(a), pats(x)
    acalls = [c for c in body.calls if call_matches_any(c, pa)]
    if not acalls:
        R.bad(key, "%s: no call to %s in %s" % (what or "never-after", label(a), body.path), [body.where()])
        return False
    if S is not None and depth:
        xblocks = set()
        for c in body.calls:
            if call_matches_any(c, px):
                xblocks.add(c.bb)
            else:
                for cb in S.callee_bodies(c):
                    if S.may_call(cb, px, depth - 1):
                        xblocks.add(c.bb)
    else:
        xblocks = {c.bb for c in body.calls if call_matches_any(c, px)}
    R.sites += len(acalls) + len(xblocks)
    ok = True
    for c in acalls:
        if c.target is None:
            continue
        reach = body.reachable(c.target)
        badb = sorted(reach & xblocks)
        if badb:
            R.bad(key, "%s: %s at %s is reachable after %s at %s" % (what or "never-after", label(x), body.where(badb[0]), label(a), c.where()),
                  [c.where(), body.where(badb[0])])
            ok = False
    if ok:
        R.ok(key, "%s: no %s reachable after %s in %s (%d sites)" % (what or "never-after", label(x), label(a), body.path, len(acalls)), [c.where() for c in acalls[:4]])
    return ok


def follows(R, key, body, a, required, S, depth=None, extra_err=(), what="", min_sites=1, stop_at_next=True):
    """After every call matching `a`, each element of `required` is called on every success path
    before the function returns or `a` is called again (loop iteration discipline)."""
    R.fn(body)
    pa = pats(a)
    acalls = [c for c in body.calls if call_matches_any(c, pa)]
    R.sites += len(acalls)
    if len(acalls) < min_sites:
        R.bad(key + "/anchor-lost", "%s: expected >=%d call(s) to %s in %s, found %d" % (what or "follows", min_sites, label(a), body.path, len(acalls)), [body.where()])
        return False
    err = body.error_exit_blocks(extra_err)
    rets = set(body.return_blocks())
    ablocks = {c.bb for c in acalls}
    ok = True
    for req in required:
        ps = pats(req)
        hit = S.hit_blocks(body, ps, depth, extra_err)
        for c in acalls:
            if c.target is None:
                continue
            if c.target in hit:
                continue
            reach, prev = reach_with(body, c.target, avoid=hit | err)
            badb = reach & (rets | (ablocks if stop_at_next else set()))
            if badb:
                r = sorted(badb)[0]
                R.bad("%s/%s" % (key, label(req)), "%s: after %s at %s a success path reaches %s without %s" % (
                    what or "follows", label(a), c.where(), "return" if r in rets else "the next " + label(a), label(req)), path_lines(body, prev, r))
                ok = False
        if ok:
            R.ok("%s/%s" % (key, label(req)), "%s: each of %d call(s) to %s in %s is followed by %s on every success path" % (
                what or "follows", len(acalls), label(a), body.path, label(req)), [c.where() for c in acalls[:4]])
    return ok


# ------------------------------------------------------------------ WHOCALLS

def whocalls(R, key, F, callee, allowed, crates=None, min_sites=1, what="", exclude_crates=("ckb_test", "ckb_benches", "ckb_test_chain_utils")):
    """All workspace call sites of `callee` lie in bodies matching the allow-list
    (dict: body-path regex -> reason)."""
    sites = [c for c in F.callers(callee, crates) if c.body.crate not in exclude_crates]
    R.sites += len(sites)
    allow = [(rx(p), why) for p, why in allowed.items()]
    ok = True
    seen_bodies = set()
    for c in sites:
        R.fn(c.body)
        root = c.body.root or c.body.path
        seen_bodies.add(root)
        if not any(p.search(c.body.path) or p.search(root) for p, _ in allow):
            R.bad("%s/%s" % (key, short(root)), "%s: %s is called from %s (%s), which is not on the allow-list" % (what or "whocalls", label(callee), c.body.path, c.where()), [c.where()])
            ok = False
    if len(sites) < min_sites:
        R.bad(key + "/anchor-lost", "%s: expected >=%d call sites of %s, found %d" % (what or "whocalls", min_sites, label(callee), len(sites)), [])
        return False
    if ok:
        R.ok(key, "%s: %d call sites of %s, all inside %d allow-listed bodies" % (what or "whocalls", len(sites), label(callee), len(seen_bodies)), [c.where() for c in sites[:4]])
    return ok


def effect_sites(R, key, F, callee, table, arg=None, crates=None, what="", exclude_crates=("ckb_test", "ckb_benches", "ckb_test_chain_utils")):
    """EFFECTSITES: count-aware who-may-call for a mutator of state the property protects. `table`: {caller-root regex: (reviewed number of
    call sites, reason)}. A call site (optionally only those whose argument #arg[0] has a source matching arg[1]) must lie in a listed root and
    the root must not have more sites than were reviewed. A site in an unlisted function is attributed to that function's callers (a helper that
    was extracted): fine when every workspace caller of it, up to two levels up, is listed and the listed root's budget is not exceeded.
    Additive slips ("also mark these blocks invalid", "also delete ...") have no lost fact; this is what sees them."""
    sites = [c for c in F.callers(callee, crates) if c.body.crate not in exclude_crates]
    if arg is not None:
        sites = [c for c in sites if len(c.args) > arg[0] and src_match(c.body.operand_sources(c.args[arg[0]]), [arg[1]])]
    R.sites += len(sites)
    allow = [(rx(p), n, why, p) for p, (n, why) in table.items()]

    def listed(path):
        for p, n, why, raw in allow:
            if p.search(path):
                return raw
        return None

    def roots_of(path, depth):
        """listed roots a function is (transitively) called from; None when some caller chain ends in an unlisted function"""
        hit = listed(path)
        if hit:
            return {hit}
        if depth == 0:
            return None
        cs = [c for c in F.callers("^" + re.escape(path) + "$") if c.body.crate not in exclude_crates]
        if not cs:
            return None
        out = set()
        for c in cs:
            r = roots_of(c.body.root or c.body.path, depth - 1)
            if r is None:
                return None
            out |= r
        return out
    count = {}
    ok = True
    for c in sites:
        R.fn(c.body)
        root = c.body.root or c.body.path
        rs = roots_of(root, 2)
        if rs is None:
            R.bad("%s/%s" % (key, short(root)), "%s: %s is called from %s (%s); the reviewed call sites are in %s" % (
                what or "effect sites", label(callee), c.body.path, c.where(), ", ".join(short(raw.strip("^$").replace("\\", "")) for _, _, _, raw in allow)), [c.where()])
            ok = False
            continue
        for r in (rs if listed(root) is None else {listed(root)}):
            count.setdefault(r, []).append(c)
    for p, n, why, raw in allow:
        have = count.get(raw, [])
        if len(have) > n:
            R.bad("%s/%s/more-sites" % (key, short(raw.strip("^$").replace("\\", ""))), "%s: %s has %d call sites of %s, %d were reviewed (%s): a new place changes this state" % (
                what or "effect sites", raw, len(have), label(callee), n, why), [c.where() for c in have])
            ok = False
    if not sites and any(n for _, n, _, _ in allow):
        R.bad(key + "/anchor-lost", "%s: no call site of %s found" % (what or "effect sites", label(callee)), [])
        return False
    if ok:
        R.ok(key, "%s: %d call sites of %s, all in reviewed places and none beyond the reviewed number" % (what or "effect sites", len(sites), label(callee)), [c.where() for c in sites[:6]])
    return ok


def panicking_arith(body, ops=("Add", "Sub", "Mul", "Shl", "Shr"), widths=r"\b[iu](64|128|size|32)\b"):
    """NOOVERFLOW: (op, destination type, line) of every overflow-checked arithmetic statement of the body (and nested closures): `a + b`
    on integers is `AddWithOverflow` + Assert in mir_built of a profile with overflow checks (dev, and ckb's release profile sets
    overflow-checks = true), and a shift is `Shl`/`Shr` with an Assert on the shift amount. Used only for functions whose operands are chosen
    by a peer / a transaction author (a panic there is a remote crash): the rule demands checked / saturating / wider arithmetic instead."""
    out = []
    for b in [body] + list(body.nested()):
        locs = b.rec.get("locals") or []
        for blk in b.blocks:
            for st in blk["s"]:
                rv = st[1]
                if rv.get("k") != "bin":
                    continue
                op = str(rv.get("op", ""))
                base = op.replace("WithOverflow", "").replace("Unchecked", "")
                if base not in ops:
                    continue
                ty = str(locs[st[0][0]]) if st[0][0] < len(locs) else "?"
                if not re.search(widths, ty):
                    continue
                if base in ("Add", "Sub", "Mul") and "WithOverflow" not in op:
                    continue      # wrapping form emitted for pointer / index arithmetic without a check
                out.append((op, ty, "%s:%s" % (b.file, st[2] if len(st) > 2 else "?")))
    return out


def no_panicking_arith(R, key, bodies, ops, what, allow=0):
    """no (more than `allow`) overflow-checked `ops` in the given bodies"""
    found = []
    for b in bodies:
        R.fn(b)
        found += panicking_arith(b, ops)
    R.sites += len(found) + len(bodies)
    if len(found) > allow:
        return R.bad(key, "%s: %d panicking arithmetic operation(s) on attacker-chosen operands (%s); use checked / saturating arithmetic" % (
            what, len(found), ", ".join("%s -> %s" % (o, t) for o, t, _ in found[:4])), [w for _, _, w in found[:6]])
    return R.ok(key, "%s: no overflow-checked %s in %s" % (what, "/".join(ops), ", ".join(short(b.path) for b in bodies)), [b.where() for b in bodies])


def short(path):
    parts = path.split("::")
    return "::".join(parts[-2:])


# ------------------------------------------------------------------ REQERR

def count_variant(bodies, adt, variant, reachable_only=True):
    sites = []
    for b in bodies:
        reach = b.reachable(0) if reachable_only else None
        for i, blk in enumerate(b.blocks):
            if reach is not None and i not in reach:
                continue
            for st in blk["s"]:
                rv = st[1]
                if rv.get("k") == "agg" and rv.get("adt") == adt and (variant is None or rv.get("variant") == variant):
                    sites.append((b, i, st[2]))
    return sites


def with_nested(body):
    return [body] + body.nested()


def same_crate_helpers(body, depth=2):
    """functions of the body's own crate that it calls (directly or through one more level), outermost first: where a refactor that splits a
    verifier into per-item helpers puts its checks"""
    out, seen, frontier = [], {body.path}, [body]
    for _ in range(depth):
        nxt = []
        for b in frontier:
            for x in [b] + list(b.nested()):
                for c in x.calls:
                    for n in (c.res, c.callee):
                        hb = body.facts.body(n) if n else None
                        if hb is not None:
                            if hb.crate == body.crate and hb.path not in seen and not getattr(hb, "generated", False):
                                seen.add(hb.path)
                                out.append(hb)
                                nxt.append(hb)
                            break
        frontier = nxt
    return out


def reqerr(R, key, bodies, table, what=""):
    """table: {(adt, variant): min_count}. Each listed error variant is constructed at >= min reachable sites (counted in the named bodies and,
    when they fall short, in the same-crate helpers they call: a rejection moved into a per-item helper is still made)."""
    ok = True
    for b in bodies:
        R.fn(b)
    wide = None
    for (adt, variant), n in table.items():
        sites = count_variant(bodies, adt, variant)
        if len(sites) < n:
            if wide is None:
                wide = list(bodies)
                for b in bodies:
                    if b.kind in ("Fn", "AssocFn"):
                        wide += [h for h in same_crate_helpers(b) if h not in wide]
            sites = count_variant(wide, adt, variant)
        R.sites += len(sites)
        ikey = "%s/%s" % (key, variant)
        if len(sites) < n:
            R.bad(ikey, "%s: %s::%s constructed at %d reachable site(s) in %s, expected >=%d" % (what or "reqerr", adt.split("::")[-1], variant, len(sites), bodies[0].path, n), [bodies[0].where()])
            ok = False
        else:
            R.ok(ikey, "%s: %s::%s has %d rejection site(s) in %s" % (what or "reqerr", adt.split("::")[-1], variant, len(sites), bodies[0].path),
                 ["%s:%d" % (b.file, ln) for b, _, ln in sites[:4]])
    return ok


# ------------------------------------------------------------------ CMP

class CmpSite:
    def __init__(self, body, bb, op, a, b, result_local, line, kind):
        self.body, self.bb, self.op, self.a, self.b, self.result, self.line, self.kind = body, bb, op, a, b, result_local, line, kind

    def where(self):
        return "%s:%d" % (self.body.file, self.line)


def quiet_region(body):
    """blocks that only evaluate log arguments or a `debug_assert!` condition (fingerprint.log_region): never a decision of the program"""
    r = getattr(body, "_quiet", None)
    if r is None:
        try:
            import fingerprint as _FP
            r = _FP.log_region(body)
        except Exception:
            r = set()
        body._quiet = r
    return r


def cmp_sites(body):
    out = []
    quiet = quiet_region(body)
    for i, blk in enumerate(body.blocks):
        if i in quiet:
            continue
        for st in blk["s"]:
            rv = st[1]
            if rv.get("k") == "bin" and rv["op"] in CMP_OPS and not st[0][1]:
                out.append(CmpSite(body, i, CMP_OPS[rv["op"]], rv["a"], rv["b"], st[0][0], st[2], "binop"))
        t = blk["t"]
        if t.get("k") == "call" and (t.get("callee") in CMP_CALLS) and len(t["args"]) == 2 and not t["dest"][1]:
            out.append(CmpSite(body, i, CMP_CALLS[t["callee"]], t["args"][0], t["args"][1], t["dest"][0], t.get("line") or 0, "call"))
    return out


def src_match(srcs, want):
    """want: list of regex strings, all must match some source"""
    for w in pats(want):
        if not any(w.search(s) for s in srcs):
            return False
    return True


def find_cmp(body, A, B, ops=None):
    """Comparison sites where one side's provenance matches A and the other matches B.
    Returns list of (site, swapped)."""
    out = []
    for s in cmp_sites(body):
        if ops and s.op not in ops and SWAP[s.op] not in ops:
            pass
        sa = body.operand_sources(s.a)
        sb = body.operand_sources(s.b)
        if src_match(sa, A) and src_match(sb, B):
            out.append((s, False))
        elif src_match(sb, A) and src_match(sa, B):
            out.append((s, True))
    return out


def cmp_truth(site, swapped):
    op = SWAP[site.op] if swapped else site.op
    return TRUTH[op]  # (A<B, A=B, A>B) -> bool result


def branch_targets(body, site):
    """Where control goes when the comparison result is True / False.
    Returns list of (switch_bb, true_target, false_target); empty if the result is not branched on."""
    out = []
    for (bb, truth) in bool_uses(body, site.result):
        t = body.term(bb)
        zero_t = None
        for v in t["vals"]:
            if v[0] == "0":
                zero_t = v[1]
        nz_t = t["else"]
        if zero_t is None:
            continue
        if truth:
            out.append((bb, nz_t, zero_t))
        else:
            out.append((bb, zero_t, nz_t))
    return out


def side_is_error(body, start_bb, other_bb, extra_err=()):
    """True if from start_bb no Return is reachable except through error exits (or not at all)."""
    err = body.error_exit_blocks(extra_err)
    if start_bb in err:
        return True
    reach = body.reachable(start_bb, avoid=err)
    return not (reach & set(body.return_blocks()))


def pattern_lits(ps):
    """literals a rule's source patterns name explicitly (`lit:96$`) are part of the frozen form"""
    import re as _re
    out = []
    for p in ps:
        p = p if isinstance(p, str) else p.pattern
        m = _re.fullmatch(r"lit:(-?\d+)\$?", p)
        if m:
            out.append("lit:" + m.group(1))
    return out


def extra_arith(srcs, declared):
    """op:/lit: sources of an operand that the rule's pattern does not mention: an undeclared `+ 1`,
    `* 2`, `- k` on a boundary operand changes the boundary although the named sources still match"""
    dp = pats(declared)
    out = []
    for s in sorted(srcs):
        if s.startswith("op:") or s.startswith("lit:"):
            if s in ("op:Not",):
                continue
            if not any(p.search(s) for p in dp):
                out.append(s)
    return out


def cmp_table(R, key, body, A, B, expect, classify, what="", min_sites=1, max_sites=None, S=None, strict=True, arith=((), ()), only_ops=None):
    """expect: dict {'<': label, '=': label, '>': label}; classify(body, site, true_t, false_t) -> (label_true, label_false)
    or None when the site is irrelevant."""
    R.fn(body)
    found = find_cmp(body, A, B)
    if not found and body.kind in ("Fn", "AssocFn"):
        # the comparison may have moved into a helper of the same crate that this function calls (a verifier split into per-item checks)
        for hb in same_crate_helpers(body):
            try:
                if find_cmp(hb, A, B):
                    return cmp_table(R, key, hb, A, B, expect, classify, what=(what or "cmp") + " (in helper %s)" % short(hb.path), min_sites=min_sites, max_sites=max_sites, S=S, strict=strict, arith=arith, only_ops=only_ops)
            except AnchorLost:
                continue
    R.sites += len(found)
    good = 0
    ok = True
    for site, swapped in found:
        if only_ops and site.op not in only_ops:
            continue
        tr = cmp_truth(site, swapped)
        for (sw, tt, ft) in branch_targets(body, site) or [(None, None, None)]:
            labs = classify(body, site, tt, ft)
            if labs is None:
                continue
            if strict:
                sa, sb = arith_of(body, site.a), arith_of(body, site.b)
                if swapped:
                    sa, sb = sb, sa
                da = sorted(list(arith[0]) + pattern_lits(A))
                db = sorted(list(arith[1]) + pattern_lits(B))
                if sa != da or sb != db:
                    # the same boundary written with a named constant instead of the literal the rule names
                    va, vb_ = arith_of(body, site.a, True), arith_of(body, site.b, True)
                    if swapped:
                        va, vb_ = vb_, va
                    if va == da:
                        sa = va
                    if vb_ == db:
                        sb = vb_
                if sa != da or sb != db:
                    R.bad(key, "%s: the operands of the comparison at %s carry arithmetic %s / %s, the frozen form is %s / %s: the boundary moved" % (
                        what or "cmp", site.where(), sa, sb, da, db), [site.where()])
                    ok = False
                    continue
            lt, lf = labs
            table = {"<": lt if tr[0] else lf, "=": lt if tr[1] else lf, ">": lt if tr[2] else lf}
            if table == expect:
                good += 1
                R.ok(key, "%s: comparison at %s has table %s" % (what or "cmp", site.where(), fmt_table(table)), [site.where()])
            else:
                R.bad(key, "%s: comparison at %s has table %s, expected %s" % (what or "cmp", site.where(), fmt_table(table), fmt_table(expect)), [site.where()])
                ok = False
    if good < min_sites and ok:
        R.bad(key + "/anchor-lost", "%s: expected >=%d comparison site(s) between [%s] and [%s] in %s, found %d" % (what or "cmp", min_sites, A, B, body.path, good), [body.where()])
        ok = False
    return ok


def fmt_table(t):
    return "{A<B:%s, A=B:%s, A>B:%s}" % (t["<"], t["="], t[">"])


def classify_err(extra_err=()):
    """label 'ERR' for the side from which no success return is reachable, 'CONT' otherwise"""
    def f(body, site, tt, ft):
        if tt is None:
            return None
        return ("ERR" if side_is_error(body, tt, ft, extra_err) else "CONT", "ERR" if side_is_error(body, ft, tt, extra_err) else "CONT")
    return f


def classify_reach(target_pats, yes="HIT", no="MISS", S=None, depth=2, stop_pats=None):
    """label by whether a call matching target_pats is reachable from that side but not from the other"""
    ps = pats(target_pats)

    def f(body, site, tt, ft):
        if tt is None:
            return None
        if S is not None:
            hit = S.hit_blocks(body, ps, depth)
        else:
            hit = {c.bb for c in body.calls if call_matches_any(c, ps)}
        # path-sensitive in the compared boolean itself: later branches on the same value keep their side
        dt, df = same_bool_edges(body, site.result, True), same_bool_edges(body, site.result, False)
        stop = set()
        if stop_pats:
            sp = pats(stop_pats)
            stop = {c.bb for c in body.calls if call_matches_any(c, sp)}
        rt = bool(reach_with(body, tt, drop_edges=dt, avoid=stop)[0] & hit)
        rf = bool(reach_with(body, ft, drop_edges=df, avoid=stop)[0] & hit)
        if not rt and not rf:
            return None
        return (yes if rt else no, yes if rf else no)
    return f


def classify_value():
    """for predicates returned as values: label = the bool the function returns"""
    def f(body, site, tt, ft):
        return None
    return f


def value_table(R, key, body, A, B, expect, what="", min_sites=1):
    """Comparison whose result flows (through Not/copies) into the return place or is otherwise used as a value:
    expect maps orderings to booleans."""
    R.fn(body)
    found = find_cmp(body, A, B)
    R.sites += len(found)
    good = 0
    ok = True
    for site, swapped in found:
        tr = cmp_truth(site, swapped)
        par = value_parity(body, site.result)
        if par is None:
            continue
        table = {"<": tr[0] == par, "=": tr[1] == par, ">": tr[2] == par}
        if table == expect:
            good += 1
            R.ok(key, "%s: predicate at %s has table %s" % (what or "cmp-value", site.where(), fmt_table(table)), [site.where()])
        else:
            R.bad(key, "%s: predicate at %s has table %s, expected %s" % (what or "cmp-value", site.where(), fmt_table(table), fmt_table(expect)), [site.where()])
            ok = False
    if good < min_sites and ok:
        R.bad(key + "/anchor-lost", "%s: expected >=%d value comparison(s) between [%s] and [%s] in %s, found %d" % (what or "cmp-value", min_sites, A, B, body.path, good), [body.where()])
        ok = False
    return ok


def value_parity(body, local, parity=True, seen=None):
    """parity with which `local` flows to _0 (True: as is, False: negated); None if it does not."""
    seen = set() if seen is None else seen
    if local == 0:
        return parity
    if local in seen:
        return None
    seen.add(local)
    for blk in body.blocks:
        for st in blk["s"]:
            rv = st[1]
            if st[0][1]:
                continue
            if rv.get("k") == "use" and "p" in rv["o"] and rv["o"]["p"][0] == local and not rv["o"]["p"][1]:
                r = value_parity(body, st[0][0], parity, seen)
                if r is not None:
                    return r
            elif rv.get("k") == "un" and rv["op"] == "Not" and "p" in rv["a"] and rv["a"]["p"][0] == local:
                r = value_parity(body, st[0][0], not parity, seen)
                if r is not None:
                    return r
    return None


# ------------------------------------------------------------------ effects (INVPAIR)

def const_of_operand(body, op, depth=0):
    """Named constant an operand resolves to (through copies/refs), or None."""
    if op.get("c") and not str(op["c"]).startswith("fn:"):
        return op["c"]
    if "p" in op and depth < 6:
        loc = op["p"][0]
        ds = body.defs().get(loc, [])
        if len(ds) == 1 and ds[0][0] == "assign":
            rv = ds[0][3]
            if rv.get("k") in ("use", "cast"):
                return const_of_operand(body, rv["o"], depth + 1)
            if rv.get("k") == "ref":
                return const_of_operand(body, {"p": rv["p"]}, depth + 1)
    return None


def effects(F, S, body, table, depth=4, seen=None):
    """table: {call-pattern: (verb, arg_index)}. Collects (verb, CONST) effects of body and its callees."""
    seen = set() if seen is None else seen
    if body.path in seen:
        return set()
    seen.add(body.path)
    out = set()
    tp = [(rx(p), v) for p, v in table.items()]
    for c in body.calls:
        matched = False
        for p, (verb, ai) in tp:
            if c.matches(p):
                matched = True
                if ai < len(c.args):
                    k = const_of_operand(body, c.args[ai])
                    out.add((verb, k.split("::")[-1] if k else "?"))
        if matched:
            continue
        if depth > 0:
            for cb in S.callee_bodies(c):
                out |= effects(F, S, cb, table, depth - 1, seen)
            for cl in S.closure_args(c):
                out |= effects(F, S, cl, table, depth - 1, seen)
    return out


# ------------------------------------------------------------------ aggregates / enum arms

def agg_sites(body, adt, variant=None):
    """[(bb, rvalue, line)] for aggregate constructions of adt(::variant) in body."""
    out = []
    for i, blk in enumerate(body.blocks):
        for st in blk["s"]:
            rv = st[1]
            if rv.get("k") == "agg" and rv.get("adt") == adt and (variant is None or rv.get("variant") == variant):
                out.append((i, rv, st[2]))
    return out


def agg_field_sources(body, rv, field):
    fs = rv.get("fields") or []
    if field not in fs:
        return None
    i = fs.index(field)
    ops = rv.get("ops", [])
    if i >= len(ops):
        return None
    return body.operand_sources(ops[i])


def enum_arms(body, adt, src_pats=None):
    """Switches on the discriminant of a value of enum `adt` (optionally: whose provenance matches src_pats).
    Returns list of (switch_bb, {variant_name: target_bb}, otherwise_bb)."""
    out = []
    for i, blk in enumerate(body.blocks):
        t = blk["t"]
        if t.get("k") != "switch" or "p" not in t["d"]:
            continue
        dl = t["d"]["p"][0]
        for d in body.defs().get(dl, []):
            if d[0] != "assign":
                continue
            rv = d[3]
            if rv.get("k") == "discr" and rv.get("adt") == adt:
                if src_pats is not None:
                    srcs = body.operand_sources({"p": rv["p"]})
                    if not src_match(srcs, src_pats):
                        continue
                names = {v[0]: v[1] for v in rv.get("vars", [])}
                arms = {}
                for val, tgt in t["vals"]:
                    arms[names.get(val, val)] = tgt
                out.append((i, arms, t["else"]))
    return out


def dominated_by_block(body, bb, call_pat):
    """all calls matching call_pat are dominated by block bb"""
    cs = body.calls_to(call_pat)
    return cs and all(body.dominates(bb, c.bb) for c in cs)


NARROWING = rx(r"call:.*(Iterator::(skip|take|filter|step_by|skip_while|take_while|filter_map|nth|last)|::(split_off|truncate|drain|split_at|pop|pop_front|pop_back|first|last))$")


def loop_over_all(R, key, body, inner_call, must_src, what=""):
    """The loop whose body performs `inner_call` iterates a collection derived from `must_src`
    without a narrowing adaptor (skip/take/filter/...)."""
    R.fn(body)
    inner = body.calls_to(inner_call)
    nxt = [c for c in body.calls if c.callee.endswith("Iterator::next")]
    R.sites += len(inner) + len(nxt)
    if not inner:
        R.bad(key + "/anchor-lost", "%s: no call to %s in %s" % (what or "loop", label(inner_call), body.path), [body.where()])
        return False
    ok = True
    for c in inner:
        loops = [n for n in nxt if body.dominates(n.bb, c.bb)]
        if not loops:
            R.bad(key, "%s: %s at %s is not inside a loop" % (what or "loop", label(inner_call), c.where()), [c.where()])
            ok = False
            continue
        n = loops[-1]
        srcs = body.operand_sources(n.args[0])
        narrowing = sorted(s for s in srcs if NARROWING.search(s))
        if not src_match(srcs, must_src):
            R.bad(key, "%s: the loop around %s does not iterate %s" % (what or "loop", label(inner_call), must_src), [n.where()])
            ok = False
        elif narrowing:
            R.bad(key, "%s: the loop around %s narrows its input with %s" % (what or "loop", label(inner_call), narrowing[0]), [n.where()])
            ok = False
    if ok:
        R.ok(key, "%s: the loop around %s covers every element of %s" % (what or "loop", label(inner_call), must_src), [c.where() for c in inner[:3]])
    return ok


def variant_edges(body, adt, src_pats, variant):
    """edges to drop when every value of enum `adt` whose provenance matches src_pats is known to be `variant`"""
    drop = set()
    for (bb, arms, other) in enum_arms(body, adt, src_pats):
        keep = arms.get(variant, other)
        for s in body.succs(bb):
            if s != keep:
                drop.add((bb, s))
    return drop


# ------------------------------------------------------------------ value expression trees (AFFINE / strict CMP)

TRANSPARENT = rx(r"(::to_owned|::clone|Deref::deref|DerefMut::deref_mut|::as_ref|::borrow|::into|::from|::unwrap|::expect|::copied|::cloned|::to_entity|::as_reader|"
                 r"Try::branch|::unpack|::pack|::shannons|Arc::<.*>::new|Atomic(U64|::<u64>)::new|::into_inner|::get_ref|::as_slice|::as_u64|::to_vec|::full_value)$")
ARITH_CALL = rx(r"(arith::(Add|Sub|Mul|Div|Rem)(<.*>)?::(add|sub|mul|div|rem)|::(saturating|checked|wrapping|overflowing)_(add|sub|mul|div|pow)|cmp::(max|min)|Ord::(max|min)|"
                r"::(safe_add|safe_sub|safe_mul|safe_div|safe_mul_ratio)|::(pow|abs_diff))$")
VALUE_COMB_CANON = rx(r"(Result|Option)::<.*>::(map_or|map_or_else|is_some_and|is_none_or|is_ok_and|is_err_and|filter|or|and|xor|zip|unwrap_or|ok_or)$|bool::then(_some)?$")
VALUE_COMB = rx(r"(Result|Option)::<.*>::(and_then|map|map_err|ok_or|ok_or_else|or_else|unwrap_or|unwrap_or_else|unwrap_or_default)$|::try_from$|::try_into$")
ARITH_OPS = {"Add", "Sub", "Mul", "Div", "Rem", "AddWithOverflow", "SubWithOverflow", "MulWithOverflow", "AddUnchecked", "SubUnchecked", "MulUnchecked", "Shl", "Shr", "BitAnd", "BitOr", "BitXor"}


def _proj_compatible(a, b):
    a = [x for x in a if x != "*"]
    b = [x for x in b if x != "*"]
    n = min(len(a), len(b))
    return a[:n] == b[:n]


_FORM_FIELDS = False
CONST_AS_VALUE = False      # atoms mode: a named scalar constant is its value (`96` -> `MAX_BLOCK_EXTENSION_BYTES` is no change, a changed value is)


def expr_sig(body, op, depth=0, seen=None, out=None):
    """Arithmetic signature of the value an operand holds: the multiset of arithmetic operators and integer literals
    met while walking back through copies, refs, casts, field reads, value-preserving calls and arithmetic itself;
    every other call / parameter / field of a parameter is a leaf. Returns list of strings ('op:add', 'lit:1', 'leaf:<callee>')."""
    if out is None:
        out = []
    if seen is None:
        seen = set()
    if depth > 24:
        return out
    if "p" not in op:
        if op.get("c") and not str(op["c"]).startswith("fn:"):
            if CONST_AS_VALUE and op.get("v") is not None and op.get("ty") not in ("bool", "()"):
                out.append("lit:" + str(op["v"]))
            else:
                out.append("leaf:const:" + op["c"])
        elif op.get("v") is not None and op.get("ty") not in ("bool", "()"):
            out.append("lit:" + str(op["v"]))
        return out
    local = op["p"][0]
    projs = op["p"][1]
    # tuple field .#1 of a WithOverflow result is the overflow flag: not a value
    if local in seen and not (_FORM_FIELDS and 1 <= local <= body.argc and not body.defs().get(local)):
        return out
    seen.add(local)
    if CONST_AS_VALUE and local == 1 and body.kind not in ("Fn", "AssocFn") and body.parent and not body.defs().get(1):
        # atoms mode: a captured variable is the value the parent body captured (so `let store = self.store();` hoisted out of a closure,
        # or a loop turned into a closure, keeps its form)
        idx = None
        for pr in projs:
            m_ = re.search(r"#(\d+)$", str(pr))
            if m_:
                idx = int(m_.group(1))
                break
        par = body.facts.body(body.parent, body.crate) if idx is not None else None
        if par is not None:
            for blk in par.blocks:
                for st in blk["s"]:
                    rv = st[1]
                    if rv.get("k") == "agg" and rv.get("ak") == "closure" and rv.get("adt") == body.path:
                        ops = rv.get("ops", [])
                        if idx < len(ops):
                            sub = expr_sig(par, ops[idx], depth + 1, None, [])
                            pinv = {v: k for k, v in par.local_names().items() if 1 <= k <= par.argc}
                            rest = [str(x).split(".")[-1] for x in projs if str(x).startswith(".") and not re.search(r"#\d+$", str(x))]
                            for x in sub:
                                if x.startswith("leaf:param:"):
                                    n, _, fld = x[11:].partition(".")
                                    x = "leaf:param:%s%s" % (pinv.get(n, n), ("." + fld) if fld else "")
                                    if rest and _FORM_FIELDS:
                                        x += "".join("." + r for r in rest)
                                out.append(x)
                            return out
    if 1 <= local <= body.argc and not body.defs().get(local):
        fld = ""
        if _FORM_FIELDS:
            fs = [str(x).split(".")[-1] for x in projs if str(x).startswith(".")]
            fld = "".join("." + x for x in fs if x)
        out.append("leaf:param:%s%s" % (body.local_names().get(local) or local, fld))
        return out
    ds = body.defs().get(local, [])
    if not ds:
        if body.kind != "Fn" and local == 1:
            out.append("leaf:upvar")
        return out
    for d in ds:
        if d[0] == "assign":
            if d[2][1] and not projs:
                # partial write into an aggregate: ignore for scalar value chains
                continue
            if d[2][1] and projs and not _proj_compatible(d[2][1], projs):
                # write to a different field of the same aggregate
                continue
            rv = d[3]
            k = rv.get("k")
            if k in ("use", "cast", "repeat"):
                if _FORM_FIELDS and "p" in rv["o"] and not (1 <= rv["o"]["p"][0] <= body.argc and not body.defs().get(rv["o"]["p"][0])):
                    fl = [str(x) for x in rv["o"]["p"][1] if str(x).startswith(".")]
                    if fl and not body._is_overflow_tuple(rv["o"]["p"][0]):
                        out.append("fld:" + fl[-1].split("::")[-1].lstrip("."))
                expr_sig(body, rv["o"], depth + 1, seen, out)
            elif k == "ref":
                expr_sig(body, {"p": rv["p"]}, depth + 1, seen, out)
            elif k == "bin":
                if rv["op"] in ARITH_OPS:
                    out.append("op:" + rv["op"].replace("WithOverflow", "").replace("Unchecked", "").lower())
                    expr_sig(body, rv["a"], depth + 1, seen, out)
                    expr_sig(body, rv["b"], depth + 1, seen, out)
                else:
                    out.append("leaf:cmp")
            elif k == "un":
                if rv["op"] == "Neg":
                    out.append("op:neg")
                expr_sig(body, rv["a"], depth + 1, seen, out)
            elif k == "agg":
                if rv.get("ak") == "tuple" or rv.get("variant") in ("Some", "Ok") or (rv.get("ak") == "adt" and len(rv.get("ops", [])) == 1):
                    # tuples and single-payload wrappers (Some(x), SeekFrom::Start(x), Capacity(x)) carry their payload's form
                    for o in rv.get("ops", []):
                        expr_sig(body, o, depth + 1, seen, out)
                elif _FORM_FIELDS and rv.get("ak") == "adt" and rv.get("ops"):
                    out.append("agg:%s%s" % (str(rv.get("adt")).split("::")[-1], ("::" + rv["variant"]) if rv.get("variant") else ""))
                    for o in rv.get("ops", []):
                        expr_sig(body, o, depth + 1, seen, out)
                else:
                    out.append("leaf:agg:" + str(rv.get("adt")))
            elif k == "discr":
                out.append("leaf:discr")
        else:
            c = d[2]
            nm = c.res or c.callee
            if c.dest and c.dest[1] and projs and not _proj_compatible(c.dest[1], projs):
                continue
            if ARITH_CALL.search(c.callee) or (c.res and ARITH_CALL.search(c.res)):
                m = ARITH_CALL.search(c.callee) or ARITH_CALL.search(c.res)
                out.append("op:" + c.callee.split("::")[-1])
                for a in c.args:
                    expr_sig(body, a, depth + 1, seen, out)
            elif TRANSPARENT.search(c.callee):
                if c.args:
                    expr_sig(body, c.args[0], depth + 1, seen, out)
            elif VALUE_COMB.search(c.callee) or (CANON_TRY and VALUE_COMB_CANON.search(c.callee)):
                # x.and_then(|v| f(v)) / x.map(..) / x.ok_or(e): the value is the receiver pushed through the closure
                if c.args:
                    expr_sig(body, c.args[0], depth + 1, seen, out)
                # atoms mode: what `ok_or(e)` / `ok_or_else(|| e)` / `map_err(f)` build is the error, not the value
                rest = [] if (CONST_AS_VALUE and re.search(r"::(ok_or|ok_or_else|map_err)$", c.callee)) else c.args[1:]
                for a in rest:
                    cbs = closure_of_local(body, a["p"][0]) if "p" in a else []
                    for cb in cbs:
                        expr_sig(cb, {"p": [0, []]}, depth + 1, None, out)
                    if CANON_TRY and not cbs:
                        # the default of `unwrap_or(d)` / `map_or(d, f)` / `ok_or(e)` is part of the value
                        expr_sig(body, a, depth + 1, seen, out)
            elif re.search(r"::(len|count)$", c.callee) and c.args and not (c.res or c.callee).startswith("ckb_"):
                # the size of a collection: name the collection as well (`indexes().len()` and `distinct_indexes.len()` are different quantities)
                out.append("leaf:call:" + nm)
                expr_sig(body, c.args[0], depth + 1, seen, out)
            else:
                # collecting into a set deduplicates: `xs.iter().collect::<HashSet<_>>().len()` is not `xs.len()` (atoms drop a plain `collect`
                # as plumbing, this one is a narrowing step)
                if nm.endswith("::collect") and re.search(r"(Hash|BTree)Set<", str(getattr(c, "ga", "") or "") + " " + str((body.rec.get("locals") or [""] * (c.dest[0] + 1))[c.dest[0]] if c.dest else "")):
                    nm = nm + "_into_set"
                out.append("leaf:call:" + nm)
    return out


def arith_of(body, op, const_values=False):
    """ops and literals only (sorted). const_values: a named scalar constant counts as its value (`96` vs `MAX_EXTENSION_BYTES = 96`)"""
    global CONST_AS_VALUE
    prev = CONST_AS_VALUE
    CONST_AS_VALUE = bool(const_values)
    try:
        return sorted(x for x in expr_sig(body, op) if x.startswith("op:") or x.startswith("lit:"))
    finally:
        CONST_AS_VALUE = prev


def must_fail(R, key, body, assume=(), drop_edges=(), what="", start=0, extra_err=()):
    """Under the assumptions no success return is reachable (every path ends in an error exit or diverges)."""
    R.fn(body)
    drop = assumed_edges(body, assume) | set(drop_edges)
    if assume and not assumed_edges(body, assume):
        R.bad(key + "/anchor-lost", "%s: no branch on %s found in %s" % (what or "must-fail", [a[0] for a in assume], body.path), [body.where()])
        return False
    err = body.error_exit_blocks(extra_err)
    reach, prev = reach_with(body, start, avoid=err, drop_edges=drop)
    bad = reach & set(body.return_blocks())
    R.sites += len(err)
    if bad:
        R.bad(key, "%s: %s can still return successfully" % (what or "must-fail", body.path), path_lines(body, prev, sorted(bad)[0]))
        return False
    R.ok(key, "%s: %s has no success path under %s" % (what or "must-fail", short(body.path), [(label(a[0]), a[1]) for a in assume]), [body.where(b) for b in sorted(err)[:3]])
    return True


def def_sig(body, d):
    """arithmetic signature (ops, literals, leaves) of one definition (as returned by body.defs())"""
    out = []
    if d[0] == "assign":
        rv = d[3]
        k = rv.get("k")
        if k in ("use", "cast"):
            expr_sig(body, rv["o"], 0, None, out)
        elif k == "ref":
            expr_sig(body, {"p": rv["p"]}, 0, None, out)
            for pr in rv["p"][1]:
                if pr.startswith(".") and not pr.startswith(".#"):
                    out.append("field:" + pr.split(".")[-1])
        elif k == "bin":
            if rv["op"] in ARITH_OPS:
                out.append("op:" + rv["op"].replace("WithOverflow", "").replace("Unchecked", "").lower())
            expr_sig(body, rv["a"], 0, None, out)
            expr_sig(body, rv["b"], 0, None, out)
        elif k == "agg":
            for o in rv.get("ops", []):
                expr_sig(body, o, 0, None, out)
    else:
        c = d[2]
        if ARITH_CALL.search(c.callee):
            out.append("op:" + c.callee.split("::")[-1])
            for a in c.args:
                expr_sig(body, a, 0, None, out)
        elif TRANSPARENT.search(c.callee) and c.args:
            expr_sig(body, c.args[0], 0, None, out)
        else:
            out.append("leaf:call:" + (c.res or c.callee))
            # literal arguments of a leaf call are part of its form (new_proposed(header, 1))
            for a in c.args:
                if "p" not in a and a.get("v") is not None:
                    out.append("lit:" + str(a["v"]))
    return sorted(out)


def arm_defs(body, start_bb, local, stop=()):
    """definitions of `local` reachable from start_bb before control merges into `stop` blocks"""
    out = []
    reach = body.reachable(start_bb, avoid=stop)
    for d in body.defs().get(local, []):
        if d[1] in reach:
            out.append(d)
    return out


def field_writes(body, field_suffix):
    """[(bb, rvalue-sources)] for reachable statements/calls that write a place ending in `.field_suffix`"""
    live = body.reachable(0)
    out = []
    for i, blk in enumerate(body.blocks):
        if i not in live:
            continue
        for st in blk["s"]:
            if st[0][1] and st[0][1][-1].endswith(field_suffix):
                out.append((i, body.rvalue_sources(st[1], set())))
        t = blk["t"]
        if t.get("k") == "call" and t.get("dest") and t["dest"][1] and t["dest"][1][-1].endswith(field_suffix):
            c = [x for x in body.calls if x.bb == i][0]
            srcs = {"call:" + c.callee}
            for a in c.args:
                srcs |= body.operand_sources(a)
            out.append((i, srcs))
    return out


def enum_arms_of_call(body, adt, call_pat):
    """enum_arms restricted to switches on the *direct* result of a call matching call_pat
    (through plain copies/moves and `.await` plumbing only), not on values merely derived from it"""
    out = []
    dests = set()
    for c in body.calls_to(call_pat):
        if c.dest and not c.dest[1]:
            dests.add(c.dest[0])
    changed = True
    while changed:
        changed = False
        for blk in body.blocks:
            for st in blk["s"]:
                rv = st[1]
                if not st[0][1] and rv.get("k") == "use" and "p" in rv["o"] and rv["o"]["p"][0] in dests and st[0][0] not in dests:
                    # plain copy, or payload of Poll::Ready(x) produced by awaiting the call's future
                    dests.add(st[0][0])
                    changed = True
        for c in body.calls:
            if c.dest and not c.dest[1] and c.dest[0] not in dests and c.args and "p" in c.args[0] and c.args[0]["p"][0] in dests and rx(r"(IntoFuture::into_future|Future::poll|Pin::<.*>::new_unchecked|get_context)$").search(c.callee):
                dests.add(c.dest[0])
                changed = True
        # `&mut fut` passed to Pin::new_unchecked
        for blk in body.blocks:
            for st in blk["s"]:
                rv = st[1]
                if not st[0][1] and rv.get("k") == "ref" and rv["p"][0] in dests and st[0][0] not in dests:
                    dests.add(st[0][0])
                    changed = True
    for (sw, arms, other) in enum_arms(body, adt):
        dl = body.blocks[sw]["t"]["d"]["p"][0]
        for d in body.defs().get(dl, []):
            if d[0] == "assign" and d[3].get("k") == "discr" and d[3]["p"][0] in dests:
                out.append((sw, arms, other))
    return out


def direct_aggs(body, op, adt_prefix, depth=0, seen=None):
    """ADT aggregates (path::Variant) the operand's value is built from, following only copies, refs, casts and
    value-preserving calls (into_vec/into/clone/..): the *direct* construction, not everything it was derived from"""
    seen = set() if seen is None else seen
    out = set()
    if "p" not in op or depth > 12:
        return out
    l = op["p"][0]
    if l in seen:
        return out
    seen.add(l)
    for d in body.defs().get(l, []):
        if d[0] == "assign":
            if d[2][1]:
                continue
            rv = d[3]
            k = rv.get("k")
            if k in ("use", "cast"):
                out |= direct_aggs(body, rv["o"], adt_prefix, depth + 1, seen)
            elif k == "ref":
                out |= direct_aggs(body, {"p": rv["p"]}, adt_prefix, depth + 1, seen)
            elif k == "agg" and str(rv.get("adt", "")).startswith(adt_prefix):
                out.add(rv["adt"].split("::")[-1] + "::" + str(rv.get("variant")))
                for o in rv.get("ops", []):
                    out |= direct_aggs(body, o, adt_prefix, depth + 1, seen)
        else:
            c = d[2]
            if rx(r"(::into_vec|::into|::clone|::to_owned|::as_ref|::to_vec|Deref::deref|::as_slice)$").search(c.callee) and c.args:
                out |= direct_aggs(body, c.args[0], adt_prefix, depth + 1, seen)
    return out


# ------------------------------------------------------------------ FORM: value forms and returned-value classification

CANON_TRY = False     # set by the fingerprint engine: `x?` and the explicit `match x { Ok(v) => v, Err(e) => return Err(e) }` get one form
_TRY_FLD = {"fld:Continue.0": "fld:ok.0", "fld:Ok.0": "fld:ok.0", "fld:Some.0": "fld:ok.0", "fld:Break.0": "fld:err.0", "fld:Err.0": "fld:err.0"}


def _short_leaf(x):
    if CANON_TRY and x in _TRY_FLD:
        return _TRY_FLD[x]
    if x.startswith("leaf:call:"):
        p = re.sub(r"<[^<>]*>", "", re.sub(r"<[^<>]*>", "", x[10:]))
        return "call:" + "::".join(p.split("::")[-2:])
    if x.startswith("leaf:const:"):
        return "const:" + x[11:].split("::")[-1]
    return x


def form(body, op):
    """Multiset (sorted tuple) of operators, literals and leaves of the expression an operand holds; parameters are
    positional (P1, P2, ..), callee paths are cut to `Type::method`. Insensitive to operand order and temporaries."""
    global _FORM_FIELDS
    inv = {v: k for k, v in body.local_names().items() if 1 <= k <= body.argc}
    out = []
    _FORM_FIELDS = True
    try:
        sig = expr_sig(body, op)
    finally:
        _FORM_FIELDS = False
    for x in sig:
        if x.startswith("leaf:param:"):
            n, _, fld = x[11:].partition(".")
            out.append("P%s%s" % (inv.get(n, n), ("." + fld) if fld else ""))
        else:
            out.append(_short_leaf(x))
    return tuple(sorted(out))


def rvalue_label(body, rv):
    k = rv.get("k")
    if k in ("use", "cast"):
        o = rv["o"]
        if "p" not in o:
            return "lit:%s" % o.get("v") if o.get("v") is not None else "const:%s" % str(o.get("c")).split("::")[-1]
        return form(body, o)
    if k == "agg":
        if rv.get("ak") == "tuple":
            return tuple(rvalue_label(body, {"k": "use", "o": o}) for o in rv.get("ops", []))
        return ("agg:%s%s" % (str(rv.get("adt")).split("::")[-1], ("::" + rv["variant"]) if rv.get("variant") else ""),) + tuple(
            rvalue_label(body, {"k": "use", "o": o}) for o in rv.get("ops", []))
    if k == "bin":
        if rv["op"] in CMP_OPS:
            n = norm_cmp(CMP_OPS[rv["op"]], form(body, rv["a"]), form(body, rv["b"]), (), ())
            return ("cmp:" + n[0], n[1], n[2])
        return ("bin:" + rv["op"].lower(),) + form(body, rv["a"]) + form(body, rv["b"])
    return (str(k),)


def ret_labels(body, start, local=0):
    """Labels of the first assignment to `local` (default: the return place) met on each path from block `start`."""
    out = set()
    seen = set()
    work = [start]
    while work:
        bb = work.pop()
        if bb in seen or bb is None:
            continue
        seen.add(bb)
        blk = body.blocks[bb]
        hit = False
        for st in blk["s"]:
            if st[0][0] == local and not st[0][1]:
                out.add(rvalue_label(body, st[1]))
                hit = True
                break
        if hit:
            continue
        t = blk["t"]
        if t.get("k") == "call" and t.get("dest") and t["dest"][0] == local and not t["dest"][1]:
            c = [x for x in body.calls if x.bb == bb][0]
            nm = "call:" + "::".join(re.sub(r"<[^<>]*>", "", c.callee).split("::")[-2:])
            if CANON_TRY and nm == "call:FromResidual::from_residual":
                nm = "agg:Result::Err"        # `return Err(e.into())` written as `?`
            fa = tuple(form(body, a) for a in c.args)
            if CANON_TRY and nm in ("call:PartialOrd::gt", "call:PartialOrd::ge") and len(fa) == 2:
                nm, fa = ("call:PartialOrd::lt" if nm.endswith("gt") else "call:PartialOrd::le"), (fa[1], fa[0])     # `b > a` is `a < b`
            out.add((nm,) + fa)
            continue
        if t.get("k") == "return":
            out.add("<unset>")
            continue
        work.extend(body.succs(bb))
    return out


def norm_cmp(op, a, b, t, f):
    """normal form of a decided comparison: ops lt/le/eq only"""
    if op in ("gt", "ge"):
        op, a, b = SWAP[op], b, a
    if op == "ne":
        op, t, f = "eq", f, t
    if op == "eq" and b < a:
        a, b = b, a
    return (op, a, b, frozenset(t), frozenset(f))


class _BoolSite:
    def __init__(self, body, bb, local, line):
        self.body, self.bb, self.result, self.line = body, bb, local, line

    def where(self):
        return "%s:%d" % (self.body.file, self.line)


def _callname(c):
    return "call:" + "::".join(re.sub(r"<[^<>]*>", "", re.sub(r"<[^<>]*>", "", c.callee)).split("::")[-2:])


def decision_sites(body, local=0, ignore=None, matches=False):
    """[(normalised (op, A-form, B-form, labels-if-true, labels-if-false), site)] for every decision of `body`:
    comparisons that are branched on or returned as the value of `local`, and bool-valued calls / flags that are branched on
    (op 'if', A = (callee, receiver form..) or the flag's form). Labels are the forms of the first value assigned to `local`
    on each side (see ret_labels). Sites whose operand forms match `ignore` (regex) are skipped (logging macros)."""
    out = []
    ig = re.compile(ignore) if ignore else None

    def skip(*forms):
        return ig is not None and any(ig.search(x) for f in forms for x in f)
    cmp_results = set()
    for s in cmp_sites(body):
        cmp_results.add(s.result)
        fa, fb = form(body, s.a), form(body, s.b)
        if skip(fa, fb):
            continue
        bts = [(tt, ft) for (_, tt, ft) in branch_targets(body, s) if tt is not None and ft is not None]
        for tt, ft in bts:
            out.append((norm_cmp(s.op, fa, fb, ret_labels(body, tt, local), ret_labels(body, ft, local)), s))
        if not bts:
            par = value_parity(body, s.result) if local == 0 else None
            if par is not None:
                out.append((norm_cmp(s.op, fa, fb, {"lit:1" if par else "lit:0"}, {"lit:0" if par else "lit:1"}), s))
    locs = body.rec.get("locals") or []
    for c in body.calls:
        if c.callee in CMP_CALLS or not c.dest or c.dest[1]:
            continue
        d = c.dest[0]
        if d >= len(locs) or locs[d] != "bool" or c.exp:
            continue
        site = _BoolSite(body, c.bb, d, c.line)
        fs = tuple(form(body, a) for a in c.args)
        if skip((_callname(c),), *fs):
            continue
        for (_, tt, ft) in branch_targets(body, site):
            if tt is None or ft is None:
                continue
            out.append((("if", (_callname(c),) + (fs[0] if fs else ()), tuple(x for f in fs[1:] for x in f), frozenset(ret_labels(body, tt, local)), frozenset(ret_labels(body, ft, local))), site))
    # bool flags: parameters and values read out of tuples / fields
    for d, ty in enumerate(locs):
        if ty != "bool" or d == 0 or d in cmp_results:
            continue
        ds = body.defs().get(d, [])
        is_param = 1 <= d <= body.argc
        is_flag = any(x[0] == "assign" and x[3].get("k") == "use" and "p" in x[3]["o"] and x[3]["o"]["p"][1] for x in ds)
        if not (is_param or is_flag):
            continue
        f = form(body, {"p": [d, []]})
        if skip(f):
            continue
        site = _BoolSite(body, 0, d, body.line)
        for (sw, tt, ft) in branch_targets(body, site):
            if tt is None or ft is None:
                continue
            site = _BoolSite(body, sw, d, body.blocks[sw]["t"].get("line") or body.line)
            out.append((("if", ("flag",) + f, (), frozenset(ret_labels(body, tt, local)), frozenset(ret_labels(body, ft, local))), site))
    if matches:
        # enum matches: one decision per variant arm (error propagation through `?` = ControlFlow is left out)
        for i, blk in enumerate(body.blocks):
            t = blk["t"]
            if t.get("k") != "switch" or "p" not in t["d"] or t["d"]["p"][1]:
                continue
            for d in body.defs().get(t["d"]["p"][0], []):
                if d[0] != "assign" or d[3].get("k") != "discr":
                    continue
                rv = d[3]
                adt = str(rv.get("adt"))
                names = {v[0]: v[1] for v in rv.get("vars", [])}
                if adt.endswith("ops::control_flow::ControlFlow"):
                    if not CANON_TRY or rv["p"][1]:
                        continue
                    # `x?`: the same decision as `match x { Err(e) => return Err(e.into()), Ok(v) => v }` (None / Some for an Option)
                    tb = [dd[2] for dd in body.defs().get(rv["p"][0], []) if dd[0] == "call" and re.search(r"Try::branch$", dd[2].callee)]
                    if len(tb) != 1 or not tb[0].args:
                        continue
                    selfty = str((tb[0].ga or [""])[0])
                    kind = "Option::None" if re.match(r"^(core::option::|std::option::)?Option<", selfty) else "Result::Err"
                    arms = {names.get(val, val): tgt for val, tgt in t["vals"]}
                    if t.get("else") is not None and len(arms) == 1 and not _is_unreachable(body, t["else"]):
                        arms["Break" if "Continue" in arms else "Continue"] = t["else"]
                    if "Break" not in arms or "Continue" not in arms:
                        continue
                    scrut = form(body, tb[0].args[0])
                    if skip(scrut):
                        continue
                    site = _BoolSite(body, i, t["d"]["p"][0], d[4] if len(d) > 4 and isinstance(d[4], int) else (t.get("line") or body.line))
                    site.arm_target = arms["Break"]
                    site.other_targets = [arms["Continue"]]
                    out.append((("match", (kind,), scrut, frozenset(ret_labels(body, arms["Break"], local)), frozenset(ret_labels(body, arms["Continue"], local))), site))
                    continue
                scrut = form(body, {"p": rv["p"]})
                if skip(scrut):
                    continue
                targets = [(names.get(val, val), tgt) for val, tgt in t["vals"]]
                allv = [v[1] for v in rv.get("vars", [])]
                rest = [v for v in allv if v not in [n for n, _ in targets]]
                if t.get("else") is not None and rest:
                    targets.append(("|".join(sorted(rest)), t["else"]))
                for nm, tgt in targets:
                    others = set()
                    for n2, t2 in targets:
                        if t2 != tgt:
                            others |= ret_labels(body, t2, local)
                    site = _BoolSite(body, i, t["d"]["p"][0], d[4] if len(d) > 4 and isinstance(d[4], int) else (t.get("line") or body.line))
                    site.arm_target = tgt
                    site.other_targets = [t2 for _, t2 in targets if t2 != tgt]
                    out.append((("match", (adt.split("::")[-1] + "::" + nm,), scrut, frozenset(ret_labels(body, tgt, local)), frozenset(others)), site))
    return out


def _is_unreachable(body, bb):
    return body.blocks[bb]["t"].get("k") == "unreachable"


def decision_table(R, key, body, expect, what="", local=0, ignore=None, matches=False):
    """The set of branched comparisons of body equals the frozen table `expect`
    (list of (op, A-form, B-form, labels-if-true, labels-if-false), op in lt/le/eq after normalisation)."""
    R.fn(body)
    have = decision_sites(body, local, ignore)
    R.sites += len(have)
    want = [norm_cmp(*e) if e[0] != "if" else (e[0], tuple(e[1]), tuple(e[2]), frozenset(e[3]), frozenset(e[4])) for e in expect]
    ok = True
    for w in want:
        if not any(h == w for h, _ in have):
            near = [(h, s) for h, s in have if h[1] == w[1] and h[2] == w[2]] or [(h, s) for h, s in have if h[0] == w[0] and (h[1] == w[1] or h[2] == w[2])]
            R.bad(key, "%s: the decision `%s %s %s -> %s else %s` is no longer made%s" % (
                what or short(body.path), sorted(w[1]), w[0], sorted(w[2]), sorted(map(str, w[3])), sorted(map(str, w[4])),
                "; closest: `%s %s %s -> %s else %s`" % (sorted(near[0][0][1]), near[0][0][0], sorted(near[0][0][2]), sorted(map(str, near[0][0][3])), sorted(map(str, near[0][0][4]))) if near else ""),
                [near[0][1].where()] if near else [body.where()])
            ok = False
    for h, s in have:
        if h not in want:
            R.bad(key, "%s: a decision outside the frozen table: `%s %s %s -> %s else %s`" % (what or short(body.path), sorted(h[1]), h[0], sorted(h[2]), sorted(map(str, h[3])), sorted(map(str, h[4]))), [s.where()])
            ok = False
    if ok:
        R.ok(key, "%s: all %d decisions match the frozen table" % (what or short(body.path), len(want)), [s.where() for _, s in have[:4]])
    return ok


def origin_sites(body, op, limit=64):
    """Call sites (block ids) a value originates from, following the *receiver* (first argument) of every call on the way
    (`x.iter().map(f).next()` originates from whatever produced `x`). Site identity, not value equality."""
    out, seen = set(), set()
    work = list(body.call_sites(op))
    by_bb = {c.bb: c for c in body.calls}
    while work and len(seen) < limit:
        bb = work.pop()
        if bb in seen:
            continue
        seen.add(bb)
        out.add(bb)
        c = by_bb.get(bb)
        if c is not None and c.args and "p" in c.args[0]:
            work.extend(body.call_sites(c.args[0]))
    return out
