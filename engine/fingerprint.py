"""Rule kind FINGERPRINT: semantic fingerprints of every function defined in a property's anchor files.

For each function (closures folded into their root function) of the files a property is anchored in, the pinned, reviewed tree
is the reference (guidance: "the instances confirmed on today's tree are the reference for any later change"):
  dec   - the multiset of normalised decisions (comparisons, bool tests, enum match arms; see kinds.decision_sites / DESIGN 3.12)
  calls - the multiset of *significant* callees: functions of the workspace (ckb_*, logging / metrics excluded), checked / saturating /
          wrapping arithmetic, min/max, narrowing or reordering iterator adaptors, and container mutators
The check recomputes both from the current MIR and reports every function whose fingerprint changed, naming the decisions and calls
that disappeared or appeared. Insensitive to renames, statement order, temporaries, `a > b` vs `b < a`, if/else swaps, logging,
clone/into/unwrap plumbing and closure numbering; sensitive to any change of an operator, operand, bound, branch outcome, dropped
or added step. Stated limit: extracting or inlining a helper changes the fingerprint of the functions involved.
"""
import json
import os
import re
from collections import Counter

import kinds as K

V = os.path.dirname(os.path.dirname(os.path.abspath(__file__)))
IGNORE = r"log::Level|STATIC_MAX_LEVEL|log::max_level|ckb_logger|ckb_metrics"
NOISE_CALLS = re.compile(r"::(as_reader|to_entity|as_slice|as_bytes|as_builder|clone|to_owned|into|from|default|fmt|eq|ne|hash|borrow|as_ref|deref)$")
NOISE_CRATES = re.compile(r"^(ckb_logger|ckb_metrics|ckb_error|ckb_stop_handler|ckb_async_runtime|ckb_channel|ckb_util::(shrink_to_fit|Mutex|RwLock)|ckb_fixed_hash|ckb_systemtime)")
STD_SIGNIFICANT = re.compile(
    r"(::(checked|saturating|wrapping|overflowing)_(add|sub|mul|div|pow|rem)$|cmp::(min|max)$|Ord::(min|max|clamp)$|"
    r"Iterator::(skip|take|filter|rev|step_by|skip_while|take_while|filter_map|nth|last|zip|chain|all|any|find|position|max_by_key|min_by_key)$|"
    r"::(insert|remove|push|push_back|push_front|pop|pop_back|pop_front|extend|extend_from_slice|clear|retain|truncate|drain|split_off|swap_remove|sort\w*|dedup\w*|reverse|entry|or_insert\w*|"
    r"contains|contains_key|get|get_mut|first|last|difference|intersection|union|is_disjoint|is_subset)$|"
    r"::(sync_all|sync_data|set_len|write_all|seek|flush|read_exact|rename|remove_file|create|open)$|"
    r"Atomic\w*::(load|store|fetch_add|fetch_sub|fetch_update|swap|compare_exchange)$|"
    r"(Mutex|RwLock)(<.*>)?::(lock|read|write)$|::(send|try_send|recv|try_recv|blocking_send)$|::(from_slice|from_compatible_slice|new_unchecked|from_slice_should_be_ok|as_slice|as_bytes|raw_data)$)")
COMMUTATIVE = re.compile(r"(cmp::(min|max)|Ord::(min|max)|::(checked|saturating|wrapping|overflowing)_(add|mul)|::safe_add|::safe_mul|Add::add|Mul::mul|::eq|::ne|::is_disjoint|::union|::intersection)$")
EXTRA_SCOPES = {
    "C05": ["script/src/syscalls/", "script/src/verify_env.rs"],
    "C16": ["sync/src/relayer/", "sync/src/synchronizer/", "sync/src/filter/", "network/src/protocols/", "util/light-client-protocol-server/src/", "util/network-alert/src/"],
    "C11": ["tx-pool/src/component/"],
    "C12": ["tx-pool/src/component/pool_map.rs"],
    "C18": ["util/indexer/src/"],
    "C09": ["freezer/src/"],
    "C07": ["verification/contextual/src/contextual_block_verifier.rs", "chain/src/tests/"],
    # files outside the listed anchors in which round-3 seeds broke the property (the commit position the pool verifies for, the store's
    # MMR node reader and its caches, the filter's element collector)
    "C13": ["tx-pool/src/process.rs", "tx-pool/src/util.rs"],
    "C19": ["store/src/store.rs", "store/src/cache.rs", "util/types/src/utilities/block_filter.rs"],
    "C01": ["chain/src/lib.rs"],
}
EXCLUDE = re.compile(r"/generated/|/tests/|/tests\.rs$|_test(s)?\.rs$|/benches/|/examples/")


def scope_of(prop):
    files = []
    for l in open(os.path.join(V, "properties.jsonl")):
        p = json.loads(l)
        if p["id"] == prop:
            files = list(p["anchors"]["files"])
    out = []
    for f in files + EXTRA_SCOPES.get(prop, []):
        if f.endswith("/mod.rs"):
            out.append(f[:-len("mod.rs")])
        out.append(f)
    return sorted(set(out))


def in_scope(path, scope):
    if not path or EXCLUDE.search(path):
        return False
    for s in scope:
        if path == s or (s.endswith("/") and path.startswith(s)) or (not s.endswith(".rs") and path.startswith(s.rstrip("/") + "/")):
            return True
    return False


def callee_name(c):
    nm = c.res or c.callee
    short = re.sub(r"<[^<>]*>", "", re.sub(r"<[^<>]*>", "", re.sub(r"<[^<>]*>", "", c.callee)))
    return nm, "::".join(short.split("::")[-2:])


def significant(c):
    if c.exp or NOISE_CALLS.search(c.callee):
        return None
    nm, short = callee_name(c)
    full = c.callee
    if full.startswith("ckb_") or (c.res and c.res.startswith("ckb_")) or re.match(r"^<?ckb_", full):
        base = c.res if (c.res and c.res.startswith("ckb_")) else full
        if NOISE_CRATES.search(base.lstrip("<")):
            return None
        return short
    if STD_SIGNIFICANT.search(full) or (c.res and STD_SIGNIFICANT.search(c.res)):
        return short
    return None


def fkey(path):
    """stable, readable instance key of a function: generics stripped, last three path segments"""
    p = path
    for _ in range(4):
        # `<mod::Type<..> as path::Trait<..>>::f` -> `Type-as-Trait::f`
        p = re.sub(r"<([^<>]*?) as ([^<>]*?)>", lambda m: m.group(1).strip().split("::")[-1] + "-as-" + m.group(2).strip().split("::")[-1], p)
        p = re.sub(r"<[^<>]*>", "", p)
    p = re.sub(r"\s+as\s+", "-as-", p).replace(" ", "")
    segs = [x for x in p.split("::") if x]
    return "::".join(segs[-3:])


def show_dec(h):
    if isinstance(h, list) and h and h[0] in ("write-then-call", "call-then-write"):
        return "%s: %s, %s" % tuple(h[:3])
    return "%s %s %s -> %s else %s%s" % (list(h[1]), h[0], list(h[2]), sorted(map(str, h[3]))[:3], sorted(map(str, h[4]))[:3], (" effects %s" % (h[5],)) if len(h) > 5 else "")


def jd(x):
    """canonical JSON-able form of a decision tuple"""
    def conv(v):
        if isinstance(v, (tuple, list)):
            return [conv(y) for y in v]
        if isinstance(v, (set, frozenset)):
            return sorted((conv(y) for y in v), key=lambda z: json.dumps(z))
        return v
    return re.sub(r"\{closure#\d+\}", "{closure}", json.dumps(conv(x), sort_keys=True))


def canon(h):
    """one canonical form per predicate: `a <= b [T,F]` is `b < a [F,T]`; a clamp test whose true side returns the very bound it compares
    against while the other operand's value is among the false side's results is boundary-neutral (`<` and `<=` give the same value)."""
    op, a, b, t, f = h
    # Option / Result tests: `x.is_none()`, `x.is_some()`, `match x {None => .., Some(..) => ..}`, `if let Some(..) = x` are one predicate
    if op == "if" and a and re.search(r"^call:(Option|Result)?:*(is_none|is_some|is_ok|is_err)$", a[0]):
        kind = a[0].rsplit("is_", 1)[1]
        var, flip = {"none": ("Option::None", False), "some": ("Option::None", True), "err": ("Result::Err", False), "ok": ("Result::Err", True)}[kind]
        return ("match", (var,), tuple(a[1:]) + tuple(b), f if flip else t, t if flip else f)
    if op == "match" and a and a[0] in ("Option::Some", "Result::Ok"):
        return ("match", ("Option::None" if a[0] == "Option::Some" else "Result::Err",), b, f, t)
    # `x.len() == 0` is `x.is_empty()`
    if op == "eq" and (("lit:0",) in (a, b)):
        other = a if b == ("lit:0",) else b
        lens = [x for x in other if re.search(r"^call:.*::len$|^call:len$", x)]
        if len(lens) == 1 and len(other) == 1:
            return ("if", ("call:::is_empty",), (), t, f)
    if op == "if" and a and re.search(r"^call:.*is_empty$", a[0]):
        a = ("call:::is_empty",)      # the receiver is not part of the form: `x.len() == 0` does not expose it either
    if op == "le":
        op, a, b, t, f = "lt", b, a, f, t
    if op == "lt":
        ts, fs = set(t), set(f)
        if (ts == {a} and b in fs) or (ts == {b} and a in fs) or (fs == {a} and b in ts) or (fs == {b} and a in ts):
            lo, hi = sorted([a, b], key=str)
            return ("cmp~", lo, hi, frozenset(ts | fs), frozenset())
    return (op, a, b, t, f)


def _self_receiver(c):
    """does the call take `self` as its first argument? (type of arg 0 names the callee's type)"""
    if not c.args or not c.atys:
        return False
    segs = re.sub(r"<[^<>]*>", "", re.sub(r"<[^<>]*>", "", re.sub(r"<[^<>]*>", "", c.callee))).split("::")
    if len(segs) < 2:
        return False
    ty = re.sub(r"<.*$", "", str(c.atys[0]).replace("&mut ", "").replace("&", "").strip()).split("::")[-1]
    tseg = segs[-2].strip("<>").split(" as ")[0].split("::")[-1]
    return bool(ty) and (ty == tseg or tseg in ("Self",) or (c.res and ("::" + ty + "::") in re.sub(r"<[^<>]*>", "", c.res)))


def is_getter(b, c):
    """a call of a workspace function that takes nothing but `&self` and returns a value: how often it is evaluated is not behaviour
    (`let store = self.shared.store();` hoisted out of a loop)"""
    if len(c.args) != 1 or not c.atys or not _self_receiver(c):
        return False
    rty = str(c.atys[0]).strip()
    if not rty.startswith("&") or rty.startswith("&mut"):
        return False
    base = c.res if (c.res and c.res.startswith("ckb_")) else c.callee
    if not re.match(r"^<?ckb_", base):
        return False
    locs = b.rec.get("locals") or []
    dty = locs[c.dest[0]] if c.dest and c.dest[0] < len(locs) else ""
    return not (dty in ("()", "!") or re.match(r"^(core::result::|std::result::)?Result<\(\)", str(dty)))


def call_entry(b, c, S):
    """significant call with the forms of its (non-receiver) arguments"""
    name = through_wrappers(c, S) if S is not None else significant(c)
    args = c.args[1:] if _self_receiver(c) else c.args
    try:
        forms = [list(K.form(b, a)) for a in args]
    except Exception:
        forms = ["?"]
    if COMMUTATIVE.search(name or ""):
        forms = sorted(forms, key=lambda x: json.dumps(x))
    return jd([name, forms])


def side_effects(b, sw, tts, fts, sig_by_bb):
    """significant callees reachable only from the true side / only from the false side of a decision made in block `sw`, within the
    same loop iteration (the walk stops at every block that dominates the decision, i.e. at the enclosing loop heads)"""
    stop = {x for x in range(len(b.blocks)) if b.dominates(x, sw)}
    # ... and at the point where the two sides join again (the immediate post-dominator of the decision): what follows the
    # join happens on both sides whatever the statement order
    join = b.ipdom().get(sw)
    if join is not None and join >= 0:
        stop = stop | {join}
    rt, rf = set(), set()
    for t in tts:
        if t is not None and t not in stop:
            rt |= b.reachable(t, avoid=stop)
    for t in fts:
        if t is not None and t not in stop:
            rf |= b.reachable(t, avoid=stop)
    ct = {sig_by_bb[x] for x in rt if x in sig_by_bb}
    cf = {sig_by_bb[x] for x in rf if x in sig_by_bb}
    return sorted(ct - cf), sorted(cf - ct)


def mem_order(b, sig_calls):
    """dependence order through memory: a write to a field of X and a significant call that takes X (or part of X): which dominates which"""
    out = Counter()
    writes = []
    for i, blk in enumerate(b.blocks):
        for st in blk["s"]:
            pl = st[0]
            fl = [str(x).split(".")[-1] for x in pl[1] if str(x).startswith(".")]
            if fl:
                writes.append((i, pl[0], fl[-1]))
    if not writes:
        return out
    roots = {}

    def root(l, seen=()):
        if l in roots:
            return roots[l]
        r = l
        ds = [d for d in b.defs().get(l, []) if d[0] == "call" or not d[2][1]]     # whole-local definitions only (not writes through it)
        if len(ds) == 1 and ds[0][0] == "assign" and l not in seen:
            rv = ds[0][3]
            if rv.get("k") in ("use", "cast") and "p" in rv["o"]:
                r = root(rv["o"]["p"][0], seen + (l,))
            elif rv.get("k") == "ref":
                r = root(rv["p"][0], seen + (l,))
        elif len(ds) == 1 and ds[0][0] == "call" and l not in seen:
            c = ds[0][2]
            # a guard / smart pointer dereferenced again: same object
            if re.search(r"(Deref::deref|DerefMut::deref_mut|::as_ref|::as_mut|::borrow|::borrow_mut)$", c.callee) and c.args and "p" in c.args[0]:
                r = root(c.args[0]["p"][0], seen + (l,))
        roots[l] = r
        return r
    for (wb, wl, fld) in writes:
        wr = root(wl)
        for c, name in sig_calls:
            if c.bb == wb:
                continue
            if any("p" in a and root(a["p"][0]) == wr for a in c.args):
                if b.dominates(wb, c.bb):
                    out[jd(["write-then-call", fld, name])] += 1
                elif b.dominates(c.bb, wb):
                    out[jd(["call-then-write", name, fld])] += 1
    return out


def log_region(b):
    """blocks that only run when a log level is enabled: the `log` macros expand to `if lvl <= STATIC_MAX_LEVEL && lvl <= log::max_level()
    { ..evaluate the arguments, call the logger.. }`; everything dominated by the enabled side of the test that follows the `max_level()`
    call is argument evaluation for a log line (by convention free of effects) and is not part of the fingerprint"""
    out = set()
    for c in b.calls:
        if not re.search(r"(^|::)log::max_level$", c.callee):
            continue
        x = c.target
        for _ in range(4):
            if x is None or x >= len(b.blocks):
                break
            t = b.blocks[x]["t"]
            if t.get("k") == "switch":
                en = t.get("else")
                if en is not None:
                    out |= {y for y in range(len(b.blocks)) if b.dominates(en, y)}
                break
            x = t.get("t")
    # `debug_assert!(c)` is `if cfg!(debug_assertions) { assert!(c) }`: the evaluation of `c` and the panic are reachable from the enabled
    # side only, up to the block both sides join in; a debug assertion never changes what a run that does not panic does
    for i, blk in enumerate(b.blocks):
        t = blk["t"]
        if t.get("k") == "switch" and re.search(r"cfg>debug_assert(_eq|_ne)?$", str(t.get("mac") or "")) and t.get("vals") and t.get("else") is not None:
            join = set()
            for v in t["vals"]:          # the disabled side is an empty goto chain into the block both sides join in
                j = v[1]
                join.add(j)
                for _ in range(6):
                    tj = b.blocks[j]["t"]
                    if tj.get("k") == "goto" and tj.get("t") is not None:     # (`_x = ()` is all such a block holds)
                        j = tj["t"]
                        join.add(j)
                    else:
                        break
            en = t["else"]
            if en not in join:
                reg = b.reachable(en, avoid=join)
                if not any(b.blocks[x]["t"].get("k") == "return" for x in reg):      # never swallow a path that returns
                    out |= reg
    return out


def fingerprint(root, bodies, S=None):
    K.CANON_TRY = True
    try:
        return _fingerprint(root, bodies, S)
    finally:
        K.CANON_TRY = False


def _fingerprint(root, bodies, S=None):
    dec = Counter()
    calls = Counter()
    getters = set()
    for b in bodies:
        try:
            logb = log_region(b)
        except Exception:
            logb = set()
        sig_calls = [(c, significant(c)) for c in b.calls if c.bb not in logb and significant(c)]
        sig_by_bb = {c.bb: n for c, n in sig_calls}
        try:
            for k, n in mem_order(b, sig_calls).items():
                dec[k] += n
        except Exception:
            dec["<mem-order-error>"] += 1
        try:
            seen_sites = set()
            for h, site in K.decision_sites(b, ignore=IGNORE, matches=True):
                if not h[3] or not h[4]:
                    continue
                if site.bb in logb:
                    continue
                hc = canon(h)
                # effects that depend on the decision: significant callees reachable only from one side
                try:
                    if h[0] == "match" and hasattr(site, "arm_target"):
                        et, ef = side_effects(b, site.bb, [site.arm_target], site.other_targets, sig_by_bb)
                    else:
                        bts = K.branch_targets(b, site)
                        et, ef = side_effects(b, bts[0][0], [x[1] for x in bts], [x[2] for x in bts], sig_by_bb) if bts else ((), ())
                    # keep the effects aligned with the canonical sides: `!=` was normalised to `==` (sides swapped) by decision_sites;
                    # canon() swaps again for le -> lt, is_some / is_ok, and the Some / Ok arm of a match
                    flips = 0
                    if getattr(site, "op", None) == "ne":
                        flips += 1
                    if h[0] == "le":
                        flips += 1
                    if h[0] == "if" and h[1] and str(h[1][0]).endswith(("is_some", "is_ok")):
                        flips += 1
                    if h[0] == "match" and h[1] and h[1][0] in ("Option::Some", "Result::Ok"):
                        flips += 1
                    if hc[0] != "cmp~":
                        hc = tuple(hc) + (((tuple(ef), tuple(et)) if flips % 2 else (tuple(et), tuple(ef))),)
                except Exception:
                    pass
                ch = jd(hc)
                if h[0] == "match":
                    # both arms of a two-variant match canonicalise to the same predicate: count the switch once
                    if (site.bb, ch) in seen_sites:
                        continue
                    seen_sites.add((site.bb, ch))
                dec[ch] += 1
        except Exception as e:  # a body the form analysis cannot handle is fingerprinted by its calls only
            dec["<analysis-error:%s>" % type(e).__name__] += 1
        for c, s in sig_calls:
            ce = call_entry(b, c, S)
            if is_getter(b, c):
                getters.add(ce)
            calls[ce] += 1
        # values of workspace types built here: struct / enum literals with the forms of their fields (MIR lists fields in declaration order)
        for bi, blk in enumerate(b.blocks):
            if bi in logb:
                continue
            for st in blk["s"]:
                rv = st[1]
                if rv.get("k") == "agg" and rv.get("ak") == "adt" and str(rv.get("adt", "")).startswith("ckb_") and rv.get("ops"):
                    if NOISE_CRATES.search(str(rv["adt"])):
                        continue
                    try:
                        forms = [list(K.form(b, o)) for o in rv["ops"]]
                    except Exception:
                        forms = ["?"]
                    name = "new:" + str(rv["adt"]).split("::")[-1] + (("::" + rv["variant"]) if rv.get("variant") and rv.get("variant") != str(rv["adt"]).split("::")[-1] else "")
                    calls[jd([name, rv.get("fields") or [], forms])] += 1
    for g in getters:       # presence only
        calls[g] = 1
    return {"dec": dict(dec), "calls": dict(calls)}


_THIN = {}


def through_wrappers(c, S, depth=0):
    """the callee a call finally delegates to: `Header::calc_header_hash` is `self.as_reader().calc_header_hash()`, so calling the wrapper and
    calling its target are the same step (thin wrapper: no decision, exactly one significant call). Keeps inlining / introducing such
    delegations silent."""
    s = significant(c)
    if depth >= 3:
        return s
    key = c.res or c.callee
    if key in _THIN:
        t = _THIN[key]
        return t if t is not None else s
    _THIN[key] = None
    try:
        cbs = [cb for cb in S.callee_bodies(c) if cb.kind in ("Fn", "AssocFn")]
    except Exception:
        cbs = []
    if len(cbs) == 1:
        cb = cbs[0]
        sig = [x for x in cb.calls if significant(x)]
        if len(sig) == 1 and len(cb.blocks) <= 6 and not any(blk["t"].get("k") == "switch" for blk in cb.blocks) and not cb.nested():
            t = through_wrappers(sig[0], S, depth + 1)
            _THIN[key] = t
            return t
    return s


def collect(F, scope, S=None):
    """{function path: (root body, fingerprint)} for every root function defined in the scope files"""
    fidx = F.file_index()
    crates = sorted({c for f, cs in fidx.items() if in_scope(f, scope) for c in cs})
    out = {}
    for crate in crates:
        groups = {}
        for b in F.bodies_of_crate(crate):
            if not in_scope(b.file, scope):
                continue
            groups.setdefault(b.root or b.path, []).append(b)
        for root, bodies in groups.items():
            rb = [b for b in bodies if b.path == root]
            fp = fingerprint(root, bodies, S)
            if not fp["dec"] and not fp["calls"]:
                continue
            import atoms as _A
            fp["atoms"] = _A.atoms(bodies, S)
            if root in out:      # same path defined twice (several impls): merge
                for k in ("dec", "calls"):
                    for x, n in fp[k].items():
                        out[root][1][k][x] = out[root][1][k].get(x, 0) + n
                for k, v in fp["atoms"].items():
                    out[root][1]["atoms"][k] = sorted(set(out[root][1]["atoms"].get(k, [])) | set(v))
            else:
                out[root] = (rb[0] if rb else bodies[0], fp)
    return out


def frozen_path(prop):
    return os.path.join(V, "rules", "fp", prop + ".json")


# atom categories whose LOSS raises an alarm (engine/atoms.py; chosen on the seeded and benign corpora, DESIGN 3.13)
ALARM_CATS = tuple((os.environ.get("CKB_VERIF_ATOM_CATS") or "call,recv,arg,dec,must,new,fld,set,grd,arm,grdn").split(","))
_CAT_TEXT = {"call": "no longer calls", "recv": "no longer applies (receiver)", "arg": "no longer passes (argument form)", "dec": "no longer tests",
             "must": "rejection test no longer on every successful path:", "mustcall": "no longer on every successful path: call of", "mustq": "fallible step no longer on every successful path:", "new": "no longer builds",
             "fld": "no longer initialises (field form)", "set": "no longer assigns (field form)",
             "grd": "is no longer made / called under exactly the reviewed conditions:", "arm": "no longer yields, for this variant,", "grdn": "is made / called at fewer places under the same conditions:", "byp": "can now be skipped after other tests than the reviewed ones:", "ord": "no longer completes the first before it calls the second:"}


def _crate(path):
    return path.split("::", 1)[0].lstrip("<")


def _head(x):
    """`callee #i` / `T::V.f` / `.f` part of an arg / recv / fld / set atom (everything before the JSON form)"""
    i = x.find(" [")
    return x[:i] if i > 0 else x


def _dec_head(x):
    """operator and error tag of a dec atom"""
    try:
        i = x.rfind("]")
        return json.loads(x[:i + 1])[0] + x[i + 1:]
    except Exception:
        return x


def via_new_call(c, x, have, gained_calls):
    """some atom the function has now has the same head as the lost atom `x` and mentions a workspace function that the function did not call
    in the reference (`start + length - 1` became `epoch.last_block_number()`; three `collect()`s became `split_body(..)`)"""
    if not gained_calls:
        return False
    hd = _dec_head(x) if c == "dec" else _head(x)
    for y in have:
        if y == x or (_dec_head(y) if c == "dec" else _head(y)) != hd:
            continue
        for g in gained_calls:
            if ('"call:%s"' % g) in y or ('"call:::%s"' % g.split("::")[-1]) in y:
                return True
    return False


def _form_of(x):
    i = x.find(" [")
    if i < 0:
        return None
    try:
        return json.loads(x[i + 1:])
    except Exception:
        return None


def _flat(f, out=None):
    out = set() if out is None else out
    for y in f:
        if isinstance(y, (list, tuple)):
            _flat(y, out)
        else:
            out.add(str(y))
    return out


def shrunk_into_helper(x, have, gain_new_cr):
    """the lost atom `x` has a sibling in `have` with the same head whose form is a strict subset, and every leaf that is missing occurs in an
    atom of a function of the crate that did not exist in the reference. Forms are flow-insensitive: a value read from `self.f` carries what
    the function itself assigns to `self.f`; when those assignments move into a helper the reader's form shrinks although nothing changed."""
    fx = _form_of(x)
    if not fx:
        return False
    sx = _flat(fx)
    hd = _head(x)
    pool = None
    for y in have:
        if y == x or _head(y) != hd:
            continue
        fy = _form_of(y)
        if fy is None:
            continue
        sy = _flat(fy)
        if not sy < sx:
            continue
        if pool is None:
            pool = set()
            for atoms_ in gain_new_cr.values():
                for a in atoms_:
                    fa = _form_of(a)
                    if fa:
                        pool |= _flat(fa)
        if (sx - sy) <= pool:
            return True
    return False


def _eq_became_match(l, hatoms):
    """`opt.map(|m| *m == T::V).unwrap_or(false)` / `x == T::V` rewritten as `matches!(x, Some(T::V))` / `match x { T::V => .. }`: the comparison
    (dec / must / grd atoms naming the field) and the constant it was compared with (`new T::V`) are lost, a `match` arm on exactly T::V over the
    same field appears. Forgiven only as that pair (another variant in the new match is a different test)."""
    news = [x for c, x in l if c == "new" and "::" in x]
    if not news:
        return l
    drop = set()
    for v in news:
        for y in hatoms.get("dec", []) + hatoms.get("arm", []):
            if not y.startswith('["match", ["%s"' % v):
                continue
            flds = set(re.findall(r'"(\.[A-Za-z_]\w*)"', y))
            if not flds:
                continue
            hit = [(c, x) for c, x in l if c in ("dec", "must", "grd", "grdn") and ('"eq"' in x or "call:::eq" in x) and flds & set(re.findall(r'"(\.[A-Za-z_]\w*)"', x.replace('\\"', '"')))]
            if hit:
                drop.update(hit)
                drop.add(("new", v))
    return [e for e in l if e not in drop]


def atom_losses(ref, cur, cats, reach=None):
    """`reach(path)`: {directly called workspace function: names reachable from it} of the current function (atoms.callee_reach), or None.
    ref / cur: {function path: {category: [atoms]}}. Returns (lost, gone_missing, gone_ok):
      lost[path]         atoms of a function still present that it no longer has and that did not move
      gone_missing[path] atoms of a function that no longer exists which are found nowhere among what the crate's functions gained
      gone_ok            functions that no longer exist but whose atoms were all found again (renamed / inlined)
    An atom *moved* when a new function of the same crate has it (parameters erased: a helper sees its caller's values as parameters) or
    another existing function has it that did not have it in the reference (exact match)."""
    import atoms as A
    gain_new, gain_old = {}, {}
    for path, have in cur.items():
        cr = _crate(path)
        for c in cats:
            hv = set(have.get(c, []))
            if path not in ref:
                gn = gain_new.setdefault(cr, {}).setdefault(c, set())
                for x in hv:
                    gn.add(A.erase_params(x))
                    if A.PARAM.search(x):       # the helper applies the step to a value its caller hands in: any form the caller had is compatible
                        gn.add(_head(x) + " ?")
            else:
                g = hv - set(ref[path].get(c, []))
                if g:
                    gain_old.setdefault(cr, {}).setdefault(c, {}).setdefault(path, set()).update(g)
    new_fn_names = {re.sub(r"<[^<>]*>", "", p_).split("::")[-1] for p_ in cur if p_ not in ref}
    gone = [path for path in ref if path not in cur]
    gone_short = set()
    for g in gone:
        segs = [x for x in re.sub(r"<[^<>]*>", "", re.sub(r"<[^<>]*>", "", g)).split("::") if x]
        gone_short.add("::".join(segs[-2:]))

    def moved(cr, c, x, own):
        gn = gain_new.get(cr, {}).get(c, ())
        if A.erase_params(x) in gn or (_head(x) + " ?") in gn:
            return True
        if c in ("dec", "must", "grd", "grdn"):
            # an emptiness test whose receiver is named by provenance (`data.is_empty()` on a value the caller got from getters): inside a new
            # helper the receiver is a parameter and the name is gone; the same predicate in a new function of the crate is the moved test
            m = re.match(r'^\["if", \["(call:::(?:is_empty|is_zero|is_none|is_some|is_ok|is_err))"', x)
            if m and any(y.startswith('["if", ["%s"' % m.group(1)) for y in gain_new.get(cr, {}).get("dec", ())):
                return True
        for path, g in gain_old.get(cr, {}).get(c, {}).items():
            if path != own and x in g:
                return True
        return False
    lost, gone_missing, gone_ok = {}, {}, []
    for path, watoms in ref.items():
        cr = _crate(path)
        if path not in cur:
            missing = []
            for c in cats:
                pool_old = set()
                for g in gain_old.get(cr, {}).get(c, {}).values():
                    pool_old |= {A.erase_params(y) for y in g}
                for x in watoms.get(c, []):
                    ex = A.erase_params(x)
                    if ex in gain_new.get(cr, {}).get(c, ()) or ex in pool_old or (_head(x) + " ?") in gain_new.get(cr, {}).get(c, ()):
                        continue
                    if c in ("call", "arg", "recv", "mustcall", "mustq") and x.split(" ")[0] in gone_short:
                        continue
                    missing.append((c, x))
            if missing:
                gone_missing[path] = missing
            elif any(watoms.get(c) for c in cats):
                gone_ok.append(path)
            continue
        hatoms = cur[path]
        gained_calls = set(hatoms.get("call", [])) - set(watoms.get("call", []))
        l = []
        for c in cats:
            hv = set(hatoms.get(c, []))
            for x in watoms.get(c, []):
                if x in hv or x.endswith(" ?"):
                    continue
                if c in ("call", "arg", "recv", "mustcall", "mustq") and x.split(" ")[0] in gone_short:
                    continue      # a call of a function that no longer exists: decided where that function's atoms are looked for
                if moved(cr, c, x, path):
                    continue
                if c in ("call", "mustq", "mustcall") and reach is not None and gained_calls and any(x in reach(path).get(g, ()) for g in gained_calls):
                    continue      # no longer called directly, but a function this one did not call before reaches it (the step moved behind a helper)
                if c in ("grd", "arg", "recv", "mustq", "mustcall") and reach is not None and gained_calls and not x.startswith("["):
                    # the same fact holds for a function this one did not call before and which reaches the callee the fact was about: a thin
                    # wrapper (resolved through in the reference) got a body of its own, or the step moved behind a helper
                    nm = x.split(" ")[0]
                    if any(nm in reach(path).get(g, ()) and (g + x[len(nm):]) in hv for g in gained_calls):
                        continue
                if c in ("grd", "grdn", "byp") and not x.startswith("["):
                    # the callee stopped being a step with conditions of its own (a procedure that now returns a count / a bool is a value-returning
                    # call and has no guard atoms at all any more): the call is still made (`call` atom), only its classification changed
                    nm = x.split(" <= ")[0]
                    if nm in set(hatoms.get("call", [])) and not any(y.split(" <= ")[0] == nm for y in hatoms.get("grd", [])):
                        continue
                if c == "ord":
                    ea, _, eb = x.partition(" < ")
                    hc_ = set(hatoms.get("call", []))
                    if ea not in hc_ or eb not in hc_:
                        continue      # one of the two steps is no longer called here: that loss (or its move into a helper) is decided by its `call` atom
                if c == "arg" and (_head(x) + " ?") in hv:
                    continue      # the same argument is still passed; its value is opaque to the form analysis now
                if c in ("dec", "must", "grd", "grdn") and gained_calls and re.match(r'^\["if", \["call:::(?:is_empty|is_zero|is_none|is_some|is_ok|is_err)"', x) \
                        and any(g.split("::")[-1] in new_fn_names for g in gained_calls):
                    continue      # an emptiness test named by provenance, and the function now calls a function that did not exist: the test moved there
                if c in ("arg", "recv", "fld", "set", "dec") and via_new_call(c, x, hv, gained_calls):
                    continue      # the same step / test is still there and its operand now comes out of a function this one did not call before
                if c in ("arg", "recv", "fld", "set") and shrunk_into_helper(x, hv, gain_new.get(cr, {})):
                    continue      # the form lost leaves that a NEW function of the crate now has (the statements that fed the value moved into a helper)
                l.append((c, x))
        if l:
            l = _eq_became_match(l, hatoms)
        if l:
            lost[path] = l
    return lost, gone_missing, gone_ok


def check(R, F, prop, S=None):
    """Alarm: a function of the anchor files lost an atom of the reviewed reference (engine/atoms.py) and the atom did not move into a new
    helper / a caller. Everything else the first-generation fingerprint sees (values yielded per side, effects per side, multiplicities,
    added steps) is reported as a REVIEW note only: it differs from the reviewed reference but is not evidence that the property is broken."""
    import atoms as A
    p = frozen_path(prop)
    if not os.path.exists(p):
        return
    with open(p) as fh:
        frozen = json.load(fh)
    scope = frozen["scope"]
    cur = collect(F, scope, S)
    fz = frozen["functions"]
    R.sites += len(cur)
    cats = [c for c in ALARM_CATS if c]
    groups = {}

    def reach(path):
        if path not in groups:
            b0 = cur[path][0]
            groups[path] = A.callee_reach([b0] + list(b0.nested()), S) if S is not None else {}
        return groups[path]
    lost_by_fn, gone_missing, gone_ok = atom_losses({p_: (v.get("atoms") or {}) for p_, v in fz.items()}, {p_: (v[1].get("atoms") or {}) for p_, v in cur.items()}, cats, reach)

    n_ok = n_review = 0
    for path, want in sorted(fz.items()):
        key = "fp/%s" % fkey(path)
        cr = _crate(path)
        if path not in cur:
            missing = gone_missing.get(path)
            if missing:
                R.bad(key, "function %s (anchor file %s) no longer exists and %d of its checks / steps are found nowhere in the crate's new or changed functions: %s" % (
                    fkey(path), want.get("file"), len(missing), "; ".join("%s %s" % (_CAT_TEXT[c], x[:140]) for c, x in missing[:4])), [want.get("file") or ""])
            elif path in gone_ok:
                n_review += 1
                R.review(key, "function %s no longer exists under this name; all its checks / steps were found in new or changed functions of the crate (renamed / inlined)" % fkey(path))
            continue
        body, have = cur[path]
        R.fn(body)
        lost = lost_by_fn.get(path, [])
        gone_d = [d for d, n in want["dec"].items() if have["dec"].get(d, 0) < n]
        new_d = [d for d, n in have["dec"].items() if want["dec"].get(d, 0) < n]
        gone_c = [c for c, n in want["calls"].items() if have["calls"].get(c, 0) < n]
        new_c = [c for c, n in have["calls"].items() if want["calls"].get(c, 0) < n]
        if lost:
            R.bad(key, ("%s (%s) lost %d fact(s) of the reviewed reference: " % (fkey(path), body.file, len(lost)) + "; ".join("%s %s" % (_CAT_TEXT[c], x[:200]) for c, x in lost[:5]))[:1500], [body.where()])
            continue
        if not (gone_d or new_d or gone_c or new_c):
            n_ok += 1
            continue
        n_review += 1
        parts = []
        if gone_d:
            parts.append("decision(s) no longer made in this form: " + "; ".join(show_dec(json.loads(d)) for d in gone_d[:2]))
        if new_d:
            parts.append("decision(s) now made: " + "; ".join(show_dec(json.loads(d)) for d in new_d[:2]))
        if gone_c:
            parts.append("step(s) dropped or changed: " + ", ".join("%s x%d" % (c[:160], want["calls"][c] - have["calls"].get(c, 0)) for c in gone_c[:4]))
        if new_c:
            parts.append("step(s) added or changed: " + ", ".join("%s x%d" % (c[:160], have["calls"][c] - want["calls"].get(c, 0)) for c in new_c[:4]))
        R.review(key, ("%s differs from the reviewed reference in %s (no reference fact lost; not an alarm): %s" % (fkey(path), body.file, " | ".join(parts)))[:1200])
    R.fp_stats = {"reference": os.path.relpath(p, V), "scope": scope, "functions_in_reference": len(fz), "functions_found": len(cur), "functions_unchanged": n_ok,
                  "functions_changed_without_loss": n_review, "alarm_categories": cats,
                  "atoms_in_reference": {c: sum(len((v.get("atoms") or {}).get(c, [])) for v in fz.values()) for c in cats},
                  "decisions_in_reference": sum(sum(v["dec"].values()) for v in fz.values()), "significant_calls_in_reference": sum(sum(v["calls"].values()) for v in fz.values())}
    if n_ok:
        R.ok("fp/unchanged", "%d of %d functions of the anchor files have the reference decisions and significant calls" % (n_ok, len(fz)), [])
    if len(cur) < 0.85 * len(fz):
        R.bad("fp/floor", "only %d functions found in the anchor files, the reference has %d" % (len(cur), len(fz)), [])


def freeze(F, prop, S=None):
    scope = scope_of(prop)
    cur = collect(F, scope, S)
    out = {"property": prop, "scope": scope, "functions": {path: {"file": b.file, "dec": fp["dec"], "calls": fp["calls"], "atoms": fp["atoms"]} for path, (b, fp) in sorted(cur.items())}}
    os.makedirs(os.path.dirname(frozen_path(prop)), exist_ok=True)
    with open(frozen_path(prop), "w") as fh:
        json.dump(out, fh, indent=0, sort_keys=True)
    return len(cur), sum(sum(v[1]["dec"].values()) for v in cur.values()), sum(sum(v[1]["calls"].values()) for v in cur.values())


if __name__ == "__main__":
    import sys
    sys.path.insert(0, os.path.dirname(os.path.abspath(__file__)))
    import run as _run
    from facts import Facts
    F = Facts(os.environ.get("CKB_VERIF_FACTS") or _run.ensure_facts()[0])
    S = K.Summ(F, depth=3)
    props = sys.argv[1:] or ["C%02d" % i for i in range(1, 21)]
    for p in props:
        print(p, "functions=%d decisions=%d calls=%d" % freeze(F, p, S))
