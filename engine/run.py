#!/usr/bin/env python3
"""./check entry point: facts (re)extraction keyed by the working tree, rule evaluation, evidence.
Exit codes: 0 held (known findings printed), 1 violation(s), 2 machinery error."""
import fcntl
import hashlib
import importlib.util
import json
import os
import subprocess
import sys
import time
import traceback

V = os.path.dirname(os.path.dirname(os.path.abspath(__file__)))
sys.path.insert(0, os.path.join(V, "engine"))
sys.path.insert(0, os.path.join(V, "rules"))
from facts import Facts, AnchorLost  # noqa: E402
import kinds  # noqa: E402

REPO = os.environ.get("CKB_VERIF_REPO", "/repo")
CACHE = os.path.join(V, ".cache")
EVDIR = os.environ.get("CKB_VERIF_EVIDENCE_DIR", os.path.join(V, "evidence"))

# crates that must have a fact file, with the minimum number of bodies counted on the pinned tree
# (floors are 85% of the numbers measured on the pinned tree: fail closed if extraction silently shrinks)
CRATE_FLOORS = {
    "ckb_chain": 118, "ckb_store": 168, "ckb_shared": 232, "ckb_snapshot": 34, "ckb_verification": 194,
    "ckb_verification_contextual": 45, "ckb_verification_traits": 91, "ckb_types": 642, "ckb_gen_types": 5985, "ckb_tx_pool": 688,
    "ckb_script": 439, "ckb_reward_calculator": 14, "ckb_dao": 37, "ckb_dao_utils": 17, "ckb_chain_spec": 301,
    "ckb_pow": 20, "ckb_freezer": 38, "ckb_db": 73, "ckb_sync": 473, "ckb_network": 785, "ckb_indexer": 91,
    "ckb_indexer_sync": 67, "ckb_rich_indexer": 224, "ckb_proposal_table": 17, "ckb_block_filter": 11,
    "ckb_light_client_protocol_server": 57, "ckb_jsonrpc_types": 1740, "ckb_rpc": 699, "ckb_traits": 6,
    "ckb_db_schema": 0, "ckb_launcher": 23, "ckb_migrate": 50, "ckb_rational": 50, "ckb_occupied_capacity_core": 45,
    "ckb_db_migration": 42, "ckb_bin": 141,
}


def tree_hash():
    h = hashlib.sha256()
    n = 0
    for root, dirs, files in os.walk(REPO):
        dirs[:] = sorted(d for d in dirs if d not in ("target", ".git", "node_modules"))
        for f in sorted(files):
            if f.endswith((".rs", ".toml", ".lock", ".mol")):
                p = os.path.join(root, f)
                try:
                    with open(p, "rb") as fh:
                        data = fh.read()
                except OSError:
                    continue
                h.update(os.path.relpath(p, REPO).encode())
                h.update(b"\0")
                h.update(hashlib.sha256(data).digest())
                n += 1
    for extra in (os.path.join(V, "driver/src/main.rs"), os.path.join(V, "bin/extract.sh")):
        with open(extra, "rb") as fh:
            h.update(hashlib.sha256(fh.read()).digest())
    try:
        h.update(subprocess.run(["rustc", "+nightly", "-vV"], capture_output=True).stdout)
    except OSError:
        pass
    return h.hexdigest()[:24], n


def ensure_facts():
    os.makedirs(os.path.join(CACHE, "facts"), exist_ok=True)
    lock = open(os.path.join(CACHE, "lock"), "w")
    fcntl.flock(lock, fcntl.LOCK_EX)
    try:
        th, nfiles = tree_hash()
        d = os.path.join(CACHE, "facts", th)
        if not os.path.exists(os.path.join(d, "COMPLETE")):
            # drop older fact stores (disk), then extract
            base = os.path.join(CACHE, "facts")
            olds = [os.path.join(base, o) for o in os.listdir(base) if o != th]
            olds = sorted((p for p in olds if os.path.isdir(p) and not os.path.islink(p)), key=os.path.getmtime, reverse=True)
            # keep the 3 newest stores and anything used in the last 5 minutes (a concurrent check may still be reading it)
            for p in olds[3:]:
                try:
                    age = time.time() - os.path.getmtime(os.path.join(p, "COMPLETE"))
                except OSError:
                    age = 1e9
                if age > 300:
                    subprocess.run(["rm", "-rf", p])
            t0 = time.time()
            r = subprocess.run([os.path.join(V, "bin/extract.sh"), d, REPO, os.path.join(CACHE, "target")], capture_output=True, text=True)
            if r.returncode != 0:
                sys.stderr.write(r.stderr[-6000:])
                raise RuntimeError("fact extraction failed (the tree does not type-check on the analysis toolchain?)")
            Facts(d).build_index()
            with open(os.path.join(d, "COMPLETE"), "w") as fh:
                fh.write("%s files hashed; extracted in %.1fs\n" % (nfiles, time.time() - t0))
        try:
            os.utime(os.path.join(d, "COMPLETE"))
        except OSError:
            pass
        cur = os.path.join(CACHE, "facts", "current")
        try:
            if os.path.islink(cur) or os.path.exists(cur):
                os.remove(cur)
            os.symlink(th, cur)
        except OSError:
            pass
        return d, th
    finally:
        fcntl.flock(lock, fcntl.LOCK_UN)
        lock.close()


class Report:
    def __init__(self, prop, tier):
        self.prop = prop
        self.tier = tier
        self.instances = []  # (key, ok, text, where)
        self.fns = set()
        self.sites = 0
        self.notes = []
        self.reviews = []

    def fn(self, body):
        self.fns.add(body.path)

    def ok(self, key, text, where=()):
        self.instances.append((self.full(key), True, text, list(where)))
        return True

    def bad(self, key, text, where=()):
        self.instances.append((self.full(key), False, text, list(where)))
        return False

    def full(self, key):
        return key if key.startswith(self.prop + "/") else "%s/%s" % (self.prop, key)

    def note(self, text):
        self.notes.append(text)

    def review(self, key, text):
        """differs from the reviewed reference without losing any of its facts: printed and recorded, never an alarm"""
        self.reviews.append((self.full(key), text))

    def guard(self, key, fn):
        """Run a rule; a lost anchor or an analysis exception is a finding of that instance (fail closed)."""
        try:
            fn()
        except AnchorLost as e:
            self.bad(key + "/anchor-lost", "anchor no longer resolves: %s" % e)
        except Exception as e:  # fail closed
            tb = traceback.format_exc().strip().splitlines()[-3:]
            self.bad(key + "/rule-error", "rule raised %s: %s | %s" % (type(e).__name__, e, " / ".join(tb)))


def load_known():
    p = os.path.join(V, "known_findings.json")
    if not os.path.exists(p):
        return {}
    with open(p) as fh:
        data = json.load(fh)
    return {k["key"]: k for k in data.get("known", [])}


def main():
    args = sys.argv[1:]
    if not args:
        print("usage: check Cxx [--tier quick|thorough] [--replay file]")
        return 2
    prop = args[0]
    tier = os.environ.get("VERIF_TIER", "quick")
    if "--tier" in args:
        tier = args[args.index("--tier") + 1]
    replay = args[args.index("--replay") + 1] if "--replay" in args else None
    seed = int(os.environ.get("VERIF_SEED", "0") or 0)
    t0 = time.time()
    try:
        if os.environ.get("CKB_VERIF_FACTS"):      # development harness only (bin/corpus_*.py): facts extracted earlier from a patched scratch copy
            fdir, th = os.environ["CKB_VERIF_FACTS"], "corpus:" + os.path.basename(os.environ["CKB_VERIF_FACTS"])
        else:
            fdir, th = ensure_facts()
        F = Facts(fdir)
        for c, floor in CRATE_FLOORS.items():
            if c not in F.files:
                raise RuntimeError("facts incomplete: no fact file for crate %s" % c)
        S = kinds.Summ(F, depth=3 if tier == "quick" else 6)
        R = Report(prop, tier)
        spec = importlib.util.spec_from_file_location("rule_" + prop, os.path.join(V, "rules", prop + ".py"))
        mod = importlib.util.module_from_spec(spec)
        spec.loader.exec_module(mod)
        for c in getattr(mod, "CRATES", []):
            n = len(F.bodies_of_crate(c))
            if n < CRATE_FLOORS.get(c, 0):
                raise RuntimeError("facts incomplete: crate %s has %d bodies, floor %d" % (c, n, CRATE_FLOORS[c]))
        try:
            mod.run(F, S, R, tier)
        except AnchorLost as e:
            # a top-level anchor of the rule file no longer resolves: fail closed as a finding, not as a pass
            R.bad("anchor-lost", "anchor no longer resolves: %s" % e)
        # FINGERPRINT (DESIGN 3.13): every function of the property's anchor files against the reviewed reference (rules/fp/<prop>.json)
        import fingerprint
        R.guard("fp", lambda: fingerprint.check(R, F, prop, S))
    except Exception as e:
        sys.stderr.write(traceback.format_exc())
        print("ERROR machinery failure for %s: %s" % (prop, e))
        return 2

    if "-v" in args:
        for key, ok, text, where in R.instances:
            print("%s %s: %s %s" % ("ok " if ok else "BAD", key, text, where[:2]))
    known = load_known()
    findings = {}
    for key, ok, text, where in R.instances:
        if not ok:
            findings.setdefault(key, []).append((text, where))
    only = None
    if replay:
        with open(replay) as fh:
            only = json.load(fh).get("key")
    os.makedirs(os.path.join(EVDIR, "replay"), exist_ok=True)
    nviol = 0
    nknown = 0
    for i, (key, lst) in enumerate(sorted(findings.items())):
        if only and key != only:
            continue
        text, where = lst[0]
        if key in known:
            nknown += 1
            print("KNOWN-FINDING: property=%s %s %s" % (prop, key, known[key].get("what", text)))
            continue
        nviol += 1
        rp = os.path.join(EVDIR, "replay", "%s-%d.json" % (prop, nviol))
        with open(rp, "w") as fh:
            json.dump({"property": prop, "key": key, "reports": [{"text": t, "where": w} for t, w in lst], "facts": th}, fh, indent=1)
        print("REPORT %s: %s" % (key, text))
        for w in where[:12]:
            print("    at %s" % w)
        print("VIOLATION property=%s replay=%s" % (prop, rp))

    for key, text in R.reviews:
        print("REVIEW %s: %s" % (key, text))

    # evidence
    okkeys = {}
    for key, ok, text, where in R.instances:
        okkeys.setdefault(key, []).append((ok, text, where))
    distinct = sorted(k for k, v in okkeys.items() if any(w for _, _, w in v))
    samples = []
    step = max(1, len(R.instances) // 6)
    for key, ok, text, where in R.instances[::step][:6]:
        samples.append({"instance": key, "verdict": "holds" if ok else "violated", "what": text, "sites": where[:6]})
    ev = {
        "property_id": prop,
        "tier": tier,
        "seed": seed,
        "level": "other",
        "coverage": {
            "explanation": getattr(mod, "EXPLANATION", "") + " Static analysis of rustc MIR (mir_built) of the current /repo working tree; no CKB code is executed.",
            "evaluations": len(R.instances),
            "distinct_nontrivial": len(distinct),
            "rule": "one evaluation = one rule instance (a frozen obligation about a named function, call site set or comparison site) decided on the MIR facts; an instance is non-trivial when it inspected at least one concrete site (file:line) in the current tree; distinct = distinct instance keys",
            "obligations": len(okkeys),
            "discharged": len([k for k, v in okkeys.items() if all(o for o, _, _ in v)]),
            "samples": samples,
            "functions_analysed": len(R.fns | F.touched),
            "call_sites_inspected": R.sites,
            "bodies_loaded": F.loaded_bodies,
            "crates_loaded": sorted(F._crates),
            "facts_tree_hash": th,
            "not_decided": getattr(mod, "NOT_DECIDED", ""),
            "known_findings_matched": nknown,
            "notes": R.notes[:20],
            "review_notes": [{"key": k, "text": t[:400]} for k, t in R.reviews[:40]],
            "instances": [{"key": k, "ok": all(o for o, _, _ in v), "n": len(v)} for k, v in sorted(okkeys.items())],
            "fingerprint": getattr(R, "fp_stats", None),
        },
        "assumptions": [
            "rustc's mir_built for `cargo +nightly check --workspace` (dev profile, default features) is the program; cfg(test) code is not analysed",
            "calls through dyn/generic receivers are matched by trait method path; external crates (RocksDB, tokio, lru, ckb-vm, molecule runtime) are leaves",
            "unwind edges are ignored (a panic is a crash)",
            "decides only the structural necessary conditions listed in DESIGN.md section 5 for this property",
        ],
        "wall_s": round(time.time() - t0, 2),
        "violations": nviol,
    }
    # thorough tier: the checker is itself exercised on this tree - every mutation twin of the property (selftest/mutants/<prop>.json)
    # is applied to a scratch copy of the *current* /repo and must fire (or, for behaviour-preserving twins, stay silent).
    # Twins whose snippet no longer occurs in the tree are skipped. Only run when the tree itself is clean, so a twin's outcome is attributable.
    st_fail = 0
    if tier == "thorough" and nviol == 0 and not os.environ.get("CKB_VERIF_NO_SELFTEST") and not os.environ.get("CKB_VERIF_REPO"):
        import subprocess
        scratch = "/scratch/ckb-verif-selftest-%s-%d" % (prop, os.getpid())
        env = dict(os.environ, CKB_VERIF_SCRATCH=scratch, CKB_VERIF_NO_SELFTEST="1")
        env.pop("VERIF_TIER", None)
        r = subprocess.run([sys.executable, os.path.join(V, "selftest", "run.py"), "--prop", prop, "--json"], capture_output=True, text=True, env=env)
        res = []
        for line in r.stdout.splitlines():
            if line.startswith("[{") or line == "[]":
                try:
                    res = json.loads(line)
                except ValueError:
                    pass
        skipped = [x for x in res if x.get("skipped")]
        ran = [x for x in res if not x.get("skipped")]
        st_fail = len([x for x in ran if not x["ok"]])
        ev["coverage"]["selftest"] = {"twins": len(res), "ran": len(ran), "as_expected": len(ran) - st_fail, "skipped_snippet_gone": len(skipped),
                                      "failed": [{"id": x["id"], "why": x["why"][:300]} for x in ran if not x["ok"]]}
        print("SELFTEST %s: %d twins, %d ran, %d as expected, %d skipped (snippet no longer in the tree)" % (prop, len(res), len(ran), len(ran) - st_fail, len(skipped)))
        for x in ran:
            if not x["ok"]:
                print("SELFTEST-FAIL %s %s: %s" % (prop, x["id"], x["why"][:300]))
    os.makedirs(EVDIR, exist_ok=True)
    with open(os.path.join(EVDIR, prop + ".json"), "w") as fh:
        json.dump(ev, fh, indent=1)
    print("%s: %d instances, %d hold, %d known finding(s), %d violation(s); %d functions, %d sites; %.1fs" % (
        prop, len(okkeys), ev["coverage"]["discharged"], nknown, nviol, len(R.fns | F.touched), R.sites, time.time() - t0))
    if st_fail:
        print("ERROR machinery failure for %s: %d mutation twin(s) did not behave as expected - the checker can no longer be trusted on this tree" % (prop, st_fail))
        return 2
    return 1 if nviol else 0


if __name__ == "__main__":
    sys.exit(main())
