"""Frozen decision tables (rule kind TABLE).

A table entry names one function (crate + path regex) and freezes, in a normal form that is insensitive to operand
order, temporaries, `a > b` vs `b < a`, and `!=` vs `==`:
  * every decision the function makes (comparisons and bool-valued calls/flags that are branched on or returned),
    as (op, A-form, B-form, values-if-true, values-if-false);
  * optionally the value forms the function returns from its entry (`entry`), and the forms of selected call arguments (`args`).
Forms are multisets of operators, literals and leaves (callee `Type::method`, positional parameters `P1.field`, consts).
The tables are generated once from the tree (`tables.py freeze`), *reviewed by reading the code*, and committed; the check
recomputes them from the current MIR facts and reports every decision that appeared, disappeared or changed.
"""
import json
import os
import re
import sys

sys.path.insert(0, os.path.dirname(os.path.abspath(__file__)))
import kinds as K  # noqa: E402

IGNORE = r"log::Level|STATIC_MAX_LEVEL|log::max_level"


def tup(x):
    if isinstance(x, (list, tuple)):
        return tuple(tup(y) for y in x)
    return x


def lst(x):
    if isinstance(x, (tuple, list, set, frozenset)):
        return [lst(y) for y in (sorted(x, key=str) if isinstance(x, (set, frozenset)) else x)]
    return x


def locate(F, spec):
    kind = tuple(spec.get("kind", ["Fn", "AssocFn"]))
    return F.one(spec["crate"], spec["fn"], kind=kind)


def root_local(body, op):
    l = op["p"][0]
    while True:
        ds = body.defs().get(l, [])
        if len(ds) == 1 and ds[0][0] == "assign":
            rv = ds[0][3]
            if rv.get("k") in ("use", "cast") and "p" in rv["o"] and not rv["o"]["p"][1]:
                l = rv["o"]["p"][0]
                continue
            if rv.get("k") == "ref" and not rv["p"][1]:
                l = rv["p"][0]
                continue
        return l


def pick_local(body, sel):
    """0 | 'dest:<callee regex>' | 'arg:<callee regex>:<i>' (root local the argument is moved from)"""
    if not sel:
        return 0
    kind, _, rest = sel.partition(":")
    if kind == "dest":
        cs = body.calls_to(rest)
        if not cs:
            raise K.AnchorLost("no call to %s in %s" % (rest, body.path))
        return cs[0].dest[0]
    if kind == "arg":
        pat, _, i = rest.rpartition(":")
        cs = body.calls_to(pat)
        if not cs:
            raise K.AnchorLost("no call to %s in %s" % (pat, body.path))
        return root_local(body, cs[0].args[int(i)])
    raise ValueError(sel)


def actual(body, spec):
    out = {}
    for view in spec.get("views", [{"local": None}]):
        loc = pick_local(body, view.get("local"))
        ds = K.decision_sites(body, local=loc, ignore=IGNORE, matches=bool(spec.get("matches") or view.get("matches")))
        only = view.get("only")
        ops = view.get("ops")
        rows = []
        for h, s in ds:
            if only and not any(re.search(only, x) for x in h[1] + h[2]):
                continue
            if ops and h[0] not in ops:
                continue
            if not h[3] or not h[4]:
                continue    # one side never produces a value (assert / debug_assert / unreachable): not a decision about the result
            rows.append((h, s))
        out[view.get("name", "return")] = rows
    return out


def have_pre(act, name):
    return act[name]


def entry_forms(body):
    return K.ret_labels(body, 0, 0)


def arg_forms(body, pat, skip=0):
    """sorted [callee, arg forms...] of every call matching pat (the first `skip` arguments - builder receivers - are left out)"""
    out = []
    for c in body.calls_to(pat):
        out.append([K._callname(c)] + [K.form(body, a) for a in c.args[skip:]])
    return sorted(lst(out), key=str)


def check(R, prefix, F, spec):
    key = "%s/%s" % (prefix, spec["id"])
    try:
        body = locate(F, spec)
    except K.AnchorLost as e:
        R.bad(key + "/anchor-lost", "function of table %s no longer resolves: %s" % (spec["id"], e), [])
        return
    R.fn(body)
    what = spec.get("what", spec["id"])
    try:
        act = actual(body, spec)
        # the same decisions with named constants read as their values: a literal of the frozen table that became a named constant of the same
        # value (or the other way round) is the same decision
        prev = K.CONST_AS_VALUE
        K.CONST_AS_VALUE = True
        try:
            act_v = actual(body, spec)
        finally:
            K.CONST_AS_VALUE = prev
    except K.AnchorLost as e:
        R.bad(key + "/anchor-lost", "%s: %s" % (what, e), [body.where()])
        return
    for view in spec.get("views", [{"local": None}]):
        name = view.get("name", "return")
        # an op written "lt|le" marks a reviewed boundary-neutral decision (both sides yield the same value at equality)
        want = [(op, tup(r[1]), tup(r[2]), frozenset(tup(r[3])), frozenset(tup(r[4]))) for r in view["decisions"] for op in [r[0]]]
        want = [w if w[0] not in ("if", "match") else w for w in want]
        alts = {}
        for w in list(want):
            if "|" in w[0]:
                want.remove(w)
                hit = [h for h, _ in have_pre(act, name) if h[0] in w[0].split("|") and h[1:] == w[1:]]
                want.append(hit[0] if hit else (w[0].split("|")[0],) + w[1:])
        have = act[name]
        have_v = act_v.get(name, [])
        twin = {i: have_v[i][0] for i in range(len(have))} if len(have_v) == len(have) else {}
        R.sites += len(have)
        k2 = key if name == "return" else key + "/" + name
        ok = True
        for w in want:
            if any(h == w for h, _ in have) or any(v == w for v in twin.values()):
                continue
            near = [(h, s) for h, s in have if h[1] == w[1] and h[2] == w[2]] or [(h, s) for h, s in have if h[0] == w[0] and (h[1] == w[1] or h[2] == w[2])]
            R.bad(k2, "%s: the decision `%s` is no longer made%s" % (what, show(w), "; closest now: `%s`" % show(near[0][0]) if near else ""), [near[0][1].where()] if near else [body.where()])
            ok = False
        for i, (h, s) in enumerate(have):
            if h not in want and twin.get(i) not in want:
                R.bad(k2, "%s: a decision outside the frozen table: `%s`" % (what, show(h)), [s.where()])
                ok = False
        if ok:
            R.ok(k2, "%s: all %d decision(s) match the frozen table" % (what, len(want)), [s.where() for _, s in have[:4]] or [body.where()])
    if "entry" in spec:
        have = entry_forms(body)
        want = set(tup(spec["entry"]))
        R.sites += 1
        if have == want:
            R.ok(key + "/value", "%s: returns %s" % (what, sorted(map(str, want))[:2]), [body.where()])
        else:
            R.bad(key + "/value", "%s: returns %s, the frozen form is %s" % (what, sorted(map(str, have)), sorted(map(str, want))), [body.where()])
    for ent in spec.get("args") or []:
        pat = ent["pat"]
        have = arg_forms(body, pat, ent.get("skip", 0))
        want = ent["calls"]
        R.sites += len(have)
        k3 = "%s/args/%s" % (key, ent.get("name") or re.sub(r"[^\w:]", "", pat.split("::")[-1]))
        sites = [c.where() for c in body.calls_to(pat)][:4] or [body.where()]
        if lst(have) == lst(want):
            R.ok(k3, "%s: the %d call(s) of %s take the frozen argument forms" % (what, len(have), pat), sites)
        else:
            gone = [w for w in lst(want) if w not in lst(have)]
            new = [h for h in lst(have) if h not in lst(want)]
            R.bad(k3, "%s: argument forms of %s changed: now %s, frozen %s" % (what, pat, new[:2], gone[:2]), sites)


def show(h):
    return "%s %s %s -> %s else %s" % (list(h[1]), h[0], list(h[2]), sorted(map(str, h[3])), sorted(map(str, h[4])))


def run_tables(R, prefix, F, path):
    with open(path) as fh:
        specs = json.load(fh)
    for spec in specs:
        R.guard("%s/%s" % (prefix, spec["id"]), lambda spec=spec: check(R, prefix, F, spec))
    return len(specs)


def freeze(path, only=None):
    """fill `decisions` / `entry` / `args` of every table entry from the current tree (review the diff before committing!)"""
    from facts import Facts
    import run as _run
    fdir, _ = _run.ensure_facts()      # the facts of /repo's current tree (never the `current` link: a selftest may have moved it)
    F = Facts(fdir)
    with open(path) as fh:
        specs = json.load(fh)
    for spec in specs:
        if only and spec["id"] != only:
            continue
        body = locate(F, spec)
        act = actual(body, spec)
        views = spec.setdefault("views", [{"local": None}])
        for view in views:
            rows = act[view.get("name", "return")]
            neutral = [d for d in view.get("decisions", []) if "|" in d[0]]
            new = []
            for h, _ in rows:
                row = [h[0], lst(h[1]), lst(h[2]), lst(h[3]), lst(h[4])]
                for d in neutral:
                    if h[0] in d[0].split("|") and row[1:] == d[1:]:
                        row[0] = d[0]
                new.append(row)
            view["decisions"] = new
        if "entry" in spec:
            spec["entry"] = lst(entry_forms(body))
        for ent in spec.get("args") or []:
            ent["calls"] = arg_forms(body, ent["pat"], ent.get("skip", 0))
    with open(path, "w") as fh:
        json.dump(specs, fh, indent=1)
    print("froze %d tables into %s" % (len(specs), path))


if __name__ == "__main__":
    if len(sys.argv) >= 3 and sys.argv[1] == "freeze":
        freeze(sys.argv[2], sys.argv[3] if len(sys.argv) > 3 else None)
    else:
        print("usage: tables.py freeze <tables.json> [id]")
