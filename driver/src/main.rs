// ckb-facts: rustc_private fact extractor.
//
// Injected as RUSTC_WORKSPACE_WRAPPER under `cargo +nightly check`; for every workspace crate it
// dumps, from the type-checked program (`mir_built`), one JSON-lines file
// `$CKB_FACTS_DIR/<crate>-<pid>.jsonl` holding bodies (CFG, statements, resolved calls), ADTs
// and impl tables. One write per process. Nothing is executed; the compilation then continues
// normally so that dependants get their metadata.
#![feature(rustc_private)]
#![allow(clippy::all)]

extern crate rustc_abi;
extern crate rustc_driver;
extern crate rustc_hir;
extern crate rustc_interface;
extern crate rustc_middle;
extern crate rustc_session;
extern crate rustc_span;

use rustc_driver::Compilation;
use rustc_hir::def::DefKind;
use rustc_hir::def_id::{DefId, LocalDefId};
use rustc_middle::mir::{
    self, AggregateKind, BasicBlock, Body, Const, ConstValue, Operand, Place, ProjectionElem,
    Rvalue, StatementKind, TerminatorKind,
};
use rustc_middle::ty::print::{with_no_trimmed_paths, with_no_visible_paths};
use rustc_middle::ty::{self, Instance, Ty, TyCtxt, TypingEnv};
use rustc_span::Span;
use std::fmt::Write as _;

struct Cb;

impl rustc_driver::Callbacks for Cb {
    fn after_expansion<'tcx>(
        &mut self,
        _compiler: &rustc_interface::interface::Compiler,
        tcx: TyCtxt<'tcx>,
    ) -> Compilation {
        if let Ok(dir) = std::env::var("CKB_FACTS_DIR") {
            let out = with_no_trimmed_paths!(with_no_visible_paths!(extract(tcx)));
            if let Some(out) = out {
                let name = tcx.crate_name(rustc_hir::def_id::LOCAL_CRATE).to_string();
                let path = format!("{}/{}-{}.jsonl", dir, name, std::process::id());
                std::fs::write(&path, out).expect("write facts");
            }
        }
        Compilation::Continue
    }
}

fn main() {
    let mut args: Vec<String> = std::env::args().collect();
    // RUSTC_WORKSPACE_WRAPPER: argv[1] is the real rustc path.
    if args.len() > 1 && (args[1].ends_with("rustc") || args[1].contains("/rustc")) {
        args.remove(1);
    }
    rustc_driver::run_compiler(&args, &mut Cb);
}

// ---------------------------------------------------------------- JSON helpers

fn js(s: &str) -> String {
    let mut o = String::with_capacity(s.len() + 2);
    o.push('"');
    for c in s.chars() {
        match c {
            '"' => o.push_str("\\\""),
            '\\' => o.push_str("\\\\"),
            '\n' => o.push_str("\\n"),
            '\r' => o.push_str("\\r"),
            '\t' => o.push_str("\\t"),
            c if (c as u32) < 0x20 => {
                let _ = write!(o, "\\u{:04x}", c as u32);
            }
            c => o.push(c),
        }
    }
    o.push('"');
    o
}

fn jlist(items: &[String]) -> String {
    let mut o = String::from("[");
    for (i, it) in items.iter().enumerate() {
        if i > 0 {
            o.push(',');
        }
        o.push_str(it);
    }
    o.push(']');
    o
}

// ---------------------------------------------------------------- naming

fn path_of(tcx: TyCtxt<'_>, did: DefId) -> String {
    let p = tcx.def_path_str(did);
    if did.is_local() {
        format!("{}::{}", tcx.crate_name(rustc_hir::def_id::LOCAL_CRATE), p)
    } else {
        p
    }
}

fn span_loc(tcx: TyCtxt<'_>, span: Span) -> (String, usize) {
    let sp = span.source_callsite();
    let sm = tcx.sess.source_map();
    let loc = sm.lookup_char_pos(sp.lo());
    let f = match &loc.file.name {
        rustc_span::FileName::Real(r) => match r.local_path() {
            Some(p) => p.to_string_lossy().to_string(),
            None => format!("{:?}", loc.file.name),
        },
        other => format!("{:?}", other),
    };
    (f, loc.line)
}

// ---------------------------------------------------------------- extraction

fn extract<'tcx>(tcx: TyCtxt<'tcx>) -> Option<String> {
    let krate = tcx.crate_name(rustc_hir::def_id::LOCAL_CRATE).to_string();
    if krate.starts_with("build_script") {
        return None;
    }
    let mut out = String::new();
    let _ = writeln!(out, "{{\"k\":\"crate\",\"crate\":{}}}", js(&krate));

    // bodies. Phase 1: snapshot every `mir_built` body BEFORE any query that could steal it
    // (type/instance resolution may run borrowck of an opaque type's defining function, which
    // steals mir_built of that function and its closures; which ones depends on query order and
    // on the incremental cache, so the snapshot is what keeps the facts deterministic).
    let mut owners: Vec<(LocalDefId, &'static str, Option<(Body<'tcx>, &'static str)>)> = Vec::new();
    for ldid in tcx.hir_body_owners() {
        let did = ldid.to_def_id();
        let kind = tcx.def_kind(did);
        let kname = match kind {
            DefKind::Fn => "Fn",
            DefKind::AssocFn => "AssocFn",
            DefKind::Closure => "Closure",
            DefKind::SyntheticCoroutineBody => "CoroutineBody",
            _ => continue,
        };
        let steal = tcx.mir_built(ldid);
        let snap = if !steal.is_stolen() {
            Some((steal.borrow().clone(), "built"))
        } else {
            // stolen by an earlier body's MIR build (e.g. the hidden type of an awaited async fn was needed):
            // mir_promoted is the same CFG before drop elaboration and before the coroutine state transform
            let prom = tcx.mir_promoted(ldid).0;
            if !prom.is_stolen() { Some((prom.borrow().clone(), "promoted")) } else { None }
        };
        owners.push((ldid, kname, snap));
    }
    // ADTs, impls, consts (const evaluation may steal: after the snapshot)
    for ldid in tcx.hir_crate_items(()).definitions() {
        let did = ldid.to_def_id();
        match tcx.def_kind(did) {
            DefKind::Struct | DefKind::Enum | DefKind::Union => emit_adt(tcx, did, &mut out),
            DefKind::Impl { .. } => emit_impl(tcx, did, &mut out),
            DefKind::Trait => emit_trait(tcx, did, &mut out),
            DefKind::Const { .. } | DefKind::AssocConst { .. } => emit_const(tcx, did, &mut out),
            _ => {}
        }
    }
    // Phase 2: emit from the snapshots
    for (ldid, kname, snap) in owners.iter() {
        emit_body(tcx, *ldid, kname, &krate, snap.as_ref(), &mut out);
    }
    Some(out)
}

fn emit_adt<'tcx>(tcx: TyCtxt<'tcx>, did: DefId, out: &mut String) {
    let adt = tcx.adt_def(did);
    let mut variants = Vec::new();
    for (vi, v) in adt.variants().iter_enumerated() {
        let mut fields = Vec::new();
        for f in v.fields.iter() {
            let fty = tcx.type_of(f.did).instantiate_identity().skip_norm_wip();
            let vis = if tcx.visibility(f.did).is_public() { "pub" } else { "priv" };
            fields.push(format!(
                "{{\"n\":{},\"ty\":{},\"vis\":{}}}",
                js(f.name.as_str()),
                js(&fty.to_string()),
                js(vis)
            ));
        }
        let discr = if adt.is_enum() {
            adt.discriminant_for_variant(tcx, vi).val.to_string()
        } else {
            "0".to_string()
        };
        variants.push(format!(
            "{{\"n\":{},\"d\":{},\"f\":{}}}",
            js(v.name.as_str()),
            js(&discr),
            jlist(&fields)
        ));
    }
    let (f, l) = span_loc(tcx, tcx.def_span(did));
    let _ = writeln!(
        out,
        "{{\"k\":\"adt\",\"path\":{},\"enum\":{},\"variants\":{},\"file\":{},\"line\":{}}}",
        js(&path_of(tcx, did)),
        adt.is_enum(),
        jlist(&variants),
        js(&f),
        l
    );
}

fn emit_impl<'tcx>(tcx: TyCtxt<'tcx>, did: DefId, out: &mut String) {
    let self_ty = tcx.type_of(did).instantiate_identity().skip_norm_wip();
    let tr = tcx
        .impl_opt_trait_ref(did)
        .map(|t| t.instantiate_identity().skip_norm_wip());
    let mut items = Vec::new();
    for it in tcx.associated_items(did).in_definition_order() {
        if matches!(it.kind, ty::AssocKind::Fn { .. }) {
            let vis = if tcx.visibility(it.def_id).is_public() { "pub" } else { "priv" };
            items.push(format!(
                "{{\"n\":{},\"path\":{},\"vis\":{}}}",
                js(it.name().as_str()),
                js(&path_of(tcx, it.def_id)),
                js(vis)
            ));
        }
    }
    let (f, l) = span_loc(tcx, tcx.def_span(did));
    let _ = writeln!(
        out,
        "{{\"k\":\"impl\",\"self\":{},\"trait\":{},\"trait_full\":{},\"items\":{},\"file\":{},\"line\":{}}}",
        js(&self_ty.to_string()),
        match &tr {
            Some(t) => js(&path_of(tcx, t.def_id)),
            None => "null".to_string(),
        },
        match &tr {
            Some(t) => js(&t.to_string()),
            None => "null".to_string(),
        },
        jlist(&items),
        js(&f),
        l
    );
}

fn emit_trait<'tcx>(tcx: TyCtxt<'tcx>, did: DefId, out: &mut String) {
    let mut items = Vec::new();
    for it in tcx.associated_items(did).in_definition_order() {
        if matches!(it.kind, ty::AssocKind::Fn { .. }) {
            items.push(format!(
                "{{\"n\":{},\"path\":{},\"default\":{}}}",
                js(it.name().as_str()),
                js(&path_of(tcx, it.def_id)),
                it.defaultness(tcx).has_value()
            ));
        }
    }
    let _ = writeln!(
        out,
        "{{\"k\":\"trait\",\"path\":{},\"items\":{}}}",
        js(&path_of(tcx, did)),
        jlist(&items)
    );
}

fn emit_const<'tcx>(tcx: TyCtxt<'tcx>, did: DefId, out: &mut String) {
    // only non-generic consts with scalar value
    if tcx.generics_of(did).count() != 0 {
        return;
    }
    if let DefKind::AssocConst { .. } = tcx.def_kind(did) {
        // assoc consts of traits without value cannot be evaluated
        let parent = tcx.parent(did);
        if matches!(tcx.def_kind(parent), DefKind::Trait) {
            return;
        }
    }
    let ty = tcx.type_of(did).instantiate_identity().skip_norm_wip();
    let val = match tcx.const_eval_poly(did) {
        Ok(cv) => constvalue_str(tcx, cv, ty),
        Err(_) => None,
    };
    let _ = writeln!(
        out,
        "{{\"k\":\"const\",\"path\":{},\"ty\":{},\"val\":{}}}",
        js(&path_of(tcx, did)),
        js(&ty.to_string()),
        match val {
            Some(v) => js(&v),
            None => "null".to_string(),
        }
    );
}

fn constvalue_str<'tcx>(tcx: TyCtxt<'tcx>, cv: ConstValue, ty: Ty<'tcx>) -> Option<String> {
    match cv {
        ConstValue::Scalar(mir::interpret::Scalar::Int(si)) => {
            let size = si.size();
            if ty.is_signed() {
                Some(si.to_int(size).to_string())
            } else {
                Some(si.to_uint(size).to_string())
            }
        }
        ConstValue::ZeroSized => None,
        _ => {
            // string literal?
            if let ty::Ref(_, inner, _) = ty.kind() {
                if inner.is_str() {
                    if let Some(bytes) = cv.try_get_slice_bytes_for_diagnostics(tcx) {
                        return Some(String::from_utf8_lossy(bytes).to_string());
                    }
                }
            }
            None
        }
    }
}

struct Cx<'a, 'tcx> {
    tcx: TyCtxt<'tcx>,
    body: &'a Body<'tcx>,
    tenv: TypingEnv<'tcx>,
}

impl<'a, 'tcx> Cx<'a, 'tcx> {
    fn place(&self, p: &Place<'tcx>) -> String {
        let mut projs = Vec::new();
        for (base, elem) in p.iter_projections() {
            let s = match elem {
                ProjectionElem::Deref => "\"*\"".to_string(),
                ProjectionElem::Field(f, _) => {
                    let pty = base.ty(&self.body.local_decls, self.tcx);
                    let name = match pty.ty.kind() {
                        ty::Adt(adt, _) => {
                            let v = match pty.variant_index {
                                Some(vi) => adt.variant(vi),
                                None => {
                                    if adt.is_enum() {
                                        // field on un-downcast enum: should not happen
                                        adt.variants().iter().next().unwrap()
                                    } else {
                                        adt.non_enum_variant()
                                    }
                                }
                            };
                            let owner = path_of(self.tcx, adt.did());
                            if pty.variant_index.is_some() && adt.is_enum() {
                                format!("{}::{}.{}", owner, v.name, v.fields[f].name)
                            } else {
                                format!("{}.{}", owner, v.fields[f].name)
                            }
                        }
                        _ => format!("#{}", f.index()),
                    };
                    js(&format!(".{}", name))
                }
                ProjectionElem::Index(l) => js(&format!("[_{}]", l.index())),
                ProjectionElem::ConstantIndex { offset, from_end, .. } => {
                    js(&format!("[c{}{}]", if from_end { "-" } else { "" }, offset))
                }
                ProjectionElem::Subslice { from, to, from_end } => {
                    js(&format!("[{}..{}{}]", from, if from_end { "-" } else { "" }, to))
                }
                ProjectionElem::Downcast(name, vi) => {
                    let n = match name {
                        Some(s) => s.to_string(),
                        None => format!("{}", vi.index()),
                    };
                    js(&format!("as {}", n))
                }
                ProjectionElem::OpaqueCast(_) => "\"opaque\"".to_string(),
                ProjectionElem::UnwrapUnsafeBinder(_) => "\"unbind\"".to_string(),
            };
            projs.push(s);
        }
        format!("[{},{}]", p.local.index(), jlist(&projs))
    }

    fn konst(&self, c: &Const<'tcx>) -> String {
        let ty = c.ty();
        let mut def: Option<String> = None;
        let mut val: Option<String> = None;
        if let ty::FnDef(did, args) = ty.kind() {
            let mut s = format!("fn:{}", path_of(self.tcx, *did));
            if let Some(r) = self.resolve(*did, args) {
                s = format!("fn:{}", r);
            }
            def = Some(s);
        }
        match c {
            Const::Unevaluated(uv, _) => {
                if uv.promoted.is_none() {
                    def = Some(path_of(self.tcx, uv.def));
                }
                if let Ok(cv) = self.tcx.const_eval_resolve(self.tenv, *uv, rustc_span::DUMMY_SP) {
                    val = constvalue_str(self.tcx, cv, ty);
                }
            }
            Const::Val(cv, _) => {
                val = constvalue_str(self.tcx, *cv, ty);
            }
            Const::Ty(_, ct) => {
                if let Some(si) = ct.try_to_scalar() {
                    let _ = si;
                }
                val = ct.try_to_target_usize(self.tcx).map(|v| v.to_string());
            }
        }
        format!(
            "{{\"c\":{},\"v\":{},\"ty\":{}}}",
            match def {
                Some(d) => js(&d),
                None => "null".to_string(),
            },
            match val {
                Some(v) => js(&v),
                None => "null".to_string(),
            },
            js(&ty.to_string())
        )
    }

    fn operand(&self, o: &Operand<'tcx>) -> String {
        match o {
            Operand::Copy(p) | Operand::Move(p) => format!("{{\"p\":{}}}", self.place(p)),
            Operand::Constant(c) => self.konst(&c.const_),
            #[allow(unreachable_patterns)]
            _ => "{\"o\":\"other\"}".to_string(),
        }
    }

    fn resolve(&self, did: DefId, args: ty::GenericArgsRef<'tcx>) -> Option<String> {
        // normalise first; unresolved generic params make try_resolve return Ok(None)
        let args = self.tcx.try_normalize_erasing_regions(self.tenv, ty::Unnormalized::new_wip(args)).ok()?;
        match Instance::try_resolve(self.tcx, self.tenv, did, args) {
            Ok(Some(inst)) => {
                let rd = inst.def_id();
                Some(path_of(self.tcx, rd))
            }
            _ => None,
        }
    }

    fn rvalue(&self, rv: &Rvalue<'tcx>) -> String {
        match rv {
            Rvalue::Use(o, ..) => format!("{{\"k\":\"use\",\"o\":{}}}", self.operand(o)),
            Rvalue::Repeat(o, _) => format!("{{\"k\":\"repeat\",\"o\":{}}}", self.operand(o)),
            Rvalue::Ref(_, bk, p) => format!(
                "{{\"k\":\"ref\",\"m\":{},\"p\":{}}}",
                matches!(bk, mir::BorrowKind::Mut { .. }),
                self.place(p)
            ),
            Rvalue::RawPtr(_, p) => format!("{{\"k\":\"ref\",\"m\":true,\"raw\":true,\"p\":{}}}", self.place(p)),
            Rvalue::Cast(kind, o, ty) => format!(
                "{{\"k\":\"cast\",\"ck\":{},\"o\":{},\"ty\":{}}}",
                js(&format!("{:?}", kind)),
                self.operand(o),
                js(&ty.to_string())
            ),
            Rvalue::BinaryOp(op, ab) => format!(
                "{{\"k\":\"bin\",\"op\":{},\"a\":{},\"b\":{}}}",
                js(&format!("{:?}", op)),
                self.operand(&ab.0),
                self.operand(&ab.1)
            ),
            Rvalue::UnaryOp(op, o) => format!(
                "{{\"k\":\"un\",\"op\":{},\"a\":{}}}",
                js(&format!("{:?}", op)),
                self.operand(o)
            ),
            Rvalue::Discriminant(p) => {
                let pty = p.ty(&self.body.local_decls, self.tcx).ty;
                let mut adt_s = "null".to_string();
                let mut vars = Vec::new();
                if let ty::Adt(adt, _) = pty.kind() {
                    if adt.is_enum() {
                        adt_s = js(&path_of(self.tcx, adt.did()));
                        for (vi, v) in adt.variants().iter_enumerated() {
                            let d = adt.discriminant_for_variant(self.tcx, vi).val;
                            vars.push(format!("[{},{}]", js(&d.to_string()), js(v.name.as_str())));
                        }
                    }
                }
                format!(
                    "{{\"k\":\"discr\",\"p\":{},\"adt\":{},\"vars\":{}}}",
                    self.place(p),
                    adt_s,
                    jlist(&vars)
                )
            }
            Rvalue::Aggregate(kind, ops) => {
                let opsv: Vec<String> = ops.iter().map(|o| self.operand(o)).collect();
                match &**kind {
                    AggregateKind::Adt(did, vi, _, _, active) => {
                        let adt = self.tcx.adt_def(*did);
                        let v = adt.variant(*vi);
                        let names: Vec<String> = match active {
                            Some(f) => vec![js(v.fields[*f].name.as_str())],
                            None => v.fields.iter().map(|f| js(f.name.as_str())).collect(),
                        };
                        format!(
                            "{{\"k\":\"agg\",\"ak\":\"adt\",\"adt\":{},\"variant\":{},\"fields\":{},\"ops\":{}}}",
                            js(&path_of(self.tcx, *did)),
                            js(v.name.as_str()),
                            jlist(&names),
                            jlist(&opsv)
                        )
                    }
                    AggregateKind::Closure(did, _)
                    | AggregateKind::Coroutine(did, _)
                    | AggregateKind::CoroutineClosure(did, _) => format!(
                        "{{\"k\":\"agg\",\"ak\":\"closure\",\"adt\":{},\"ops\":{}}}",
                        js(&path_of(self.tcx, *did)),
                        jlist(&opsv)
                    ),
                    AggregateKind::Tuple => {
                        format!("{{\"k\":\"agg\",\"ak\":\"tuple\",\"ops\":{}}}", jlist(&opsv))
                    }
                    AggregateKind::Array(_) => {
                        format!("{{\"k\":\"agg\",\"ak\":\"array\",\"ops\":{}}}", jlist(&opsv))
                    }
                    AggregateKind::RawPtr(..) => {
                        format!("{{\"k\":\"agg\",\"ak\":\"rawptr\",\"ops\":{}}}", jlist(&opsv))
                    }
                }
            }
            Rvalue::CopyForDeref(p) => format!("{{\"k\":\"use\",\"o\":{{\"p\":{}}}}}", self.place(p)),
            Rvalue::ThreadLocalRef(did) => {
                format!("{{\"k\":\"tls\",\"def\":{}}}", js(&path_of(self.tcx, *did)))
            }
            Rvalue::WrapUnsafeBinder(o, _) => format!("{{\"k\":\"use\",\"o\":{}}}", self.operand(o)),
            #[allow(unreachable_patterns)]
            other => format!("{{\"k\":\"other\",\"dbg\":{}}}", js(&format!("{:?}", other))),
        }
    }

    fn call(
        &self,
        func: &Operand<'tcx>,
        args: &[rustc_span::Spanned<Operand<'tcx>>],
        fn_span: Span,
    ) -> String {
        let mut callee = "null".to_string();
        let mut resolved = "null".to_string();
        let mut gargs = "[]".to_string();
        let mut fnop = "null".to_string();
        let fty = func.ty(&self.body.local_decls, self.tcx);
        match fty.kind() {
            ty::FnDef(did, ga) => {
                callee = js(&path_of(self.tcx, *did));
                if let Some(r) = self.resolve(*did, ga) {
                    resolved = js(&r);
                }
                let gv: Vec<String> = ga.iter().map(|a| js(&a.to_string())).collect();
                gargs = jlist(&gv);
            }
            _ => {
                fnop = self.operand(func);
            }
        }
        let av: Vec<String> = args.iter().map(|a| self.operand(&a.node)).collect();
        let atys: Vec<String> = args
            .iter()
            .map(|a| js(&a.node.ty(&self.body.local_decls, self.tcx).to_string()))
            .collect();
        let (_f, line) = span_loc(self.tcx, fn_span);
        format!(
            "\"callee\":{},\"res\":{},\"ga\":{},\"fnop\":{},\"args\":{},\"atys\":{},\"line\":{},\"exp\":{}",
            callee,
            resolved,
            gargs,
            fnop,
            jlist(&av),
            jlist(&atys),
            line,
            fn_span.from_expansion()
        )
    }

    fn terminator(&self, t: &mir::Terminator<'tcx>) -> String {
        let bb = |b: &BasicBlock| b.index().to_string();
        let unw = |u: &mir::UnwindAction| match u {
            mir::UnwindAction::Cleanup(b) => b.index().to_string(),
            _ => "null".to_string(),
        };
        match &t.kind {
            TerminatorKind::Goto { target } => format!("{{\"k\":\"goto\",\"t\":{}}}", bb(target)),
            TerminatorKind::FalseEdge { real_target, .. } => {
                format!("{{\"k\":\"goto\",\"t\":{}}}", bb(real_target))
            }
            TerminatorKind::FalseUnwind { real_target, .. } => {
                format!("{{\"k\":\"goto\",\"t\":{}}}", bb(real_target))
            }
            TerminatorKind::SwitchInt { discr, targets } => {
                let mut vs = Vec::new();
                for (v, t) in targets.iter() {
                    vs.push(format!("[{},{}]", js(&v.to_string()), t.index()));
                }
                let dty = discr.ty(&self.body.local_decls, self.tcx);
                format!(
                    "{{\"k\":\"switch\",\"d\":{},\"dty\":{},\"vals\":{},\"else\":{}}}",
                    self.operand(discr),
                    js(&dty.to_string()),
                    jlist(&vs),
                    targets.otherwise().index()
                )
            }
            TerminatorKind::Return => "{\"k\":\"return\"}".to_string(),
            TerminatorKind::Unreachable => "{\"k\":\"unreachable\"}".to_string(),
            TerminatorKind::UnwindResume => "{\"k\":\"resume\"}".to_string(),
            TerminatorKind::UnwindTerminate(_) => "{\"k\":\"abort\"}".to_string(),
            TerminatorKind::CoroutineDrop => "{\"k\":\"codrop\"}".to_string(),
            TerminatorKind::Drop { place, target, unwind, .. } => format!(
                "{{\"k\":\"drop\",\"p\":{},\"t\":{},\"u\":{}}}",
                self.place(place),
                bb(target),
                unw(unwind)
            ),
            TerminatorKind::Call { func, args, destination, target, unwind, fn_span, .. } => format!(
                "{{\"k\":\"call\",{},\"dest\":{},\"t\":{},\"u\":{}}}",
                self.call(func, args, *fn_span),
                self.place(destination),
                match target {
                    Some(t) => bb(t),
                    None => "null".to_string(),
                },
                unw(unwind)
            ),
            TerminatorKind::TailCall { func, args, fn_span } => format!(
                "{{\"k\":\"call\",{},\"dest\":[0,[]],\"t\":null,\"u\":null,\"tail\":true}}",
                self.call(func, args, *fn_span)
            ),
            TerminatorKind::Assert { cond, expected, target, unwind, msg } => format!(
                "{{\"k\":\"assert\",\"c\":{},\"e\":{},\"t\":{},\"u\":{},\"msg\":{}}}",
                self.operand(cond),
                expected,
                bb(target),
                unw(unwind),
                js(&format!("{:?}", msg).chars().take(60).collect::<String>())
            ),
            TerminatorKind::Yield { value, resume, drop, .. } => format!(
                "{{\"k\":\"yield\",\"v\":{},\"t\":{},\"drop\":{}}}",
                self.operand(value),
                bb(resume),
                match drop {
                    Some(d) => bb(d),
                    None => "null".to_string(),
                }
            ),
            TerminatorKind::InlineAsm { targets, .. } => {
                let ts: Vec<String> = targets.iter().map(|t| bb(t)).collect();
                format!("{{\"k\":\"asm\",\"ts\":{}}}", jlist(&ts))
            }
        }
    }
}

fn emit_body<'tcx>(
    tcx: TyCtxt<'tcx>,
    ldid: LocalDefId,
    kname: &str,
    krate: &str,
    snap: Option<&(Body<'tcx>, &'static str)>,
    out: &mut String,
) {
    let did = ldid.to_def_id();
    let (file, line) = span_loc(tcx, tcx.def_span(did));
    let generated = file.contains("/generated/");
    let mut stage = "built";
    let body: &Body<'tcx> = if let Some((b, st)) = snap {
        stage = st;
        b
    } else {
        stage = "optimized";
        if tcx.is_mir_available(did) && !matches!(tcx.def_kind(did), DefKind::SyntheticCoroutineBody) {
            tcx.optimized_mir(did)
        } else {
            let _ = writeln!(
                out,
                "{{\"k\":\"body\",\"crate\":{},\"path\":{},\"kind\":{},\"file\":{},\"line\":{},\"stage\":\"missing\"}}",
                js(krate),
                js(&path_of(tcx, did)),
                js(kname),
                js(&file),
                line
            );
            return;
        }
    };
    if body.tainted_by_errors.is_some() {
        return;
    }
    let tenv = TypingEnv::post_analysis(tcx, did);
    let cx = Cx { tcx, body, tenv };

    // identity
    let parent = match tcx.def_kind(did) {
        DefKind::Closure | DefKind::SyntheticCoroutineBody => {
            js(&path_of(tcx, tcx.local_parent(ldid).to_def_id()))
        }
        _ => "null".to_string(),
    };
    let root = js(&path_of(tcx, tcx.typeck_root_def_id(did)));
    let mut impl_self = "null".to_string();
    let mut impl_trait = "null".to_string();
    let mut vis = "null".to_string();
    let mut name = "null".to_string();
    if matches!(tcx.def_kind(did), DefKind::Fn | DefKind::AssocFn) {
        vis = js(if tcx.visibility(did).is_public() { "pub" } else { "priv" });
        name = js(tcx.item_name(did).as_str());
        if let DefKind::AssocFn = tcx.def_kind(did) {
            let p = tcx.parent(did);
            match tcx.def_kind(p) {
                DefKind::Impl { .. } => {
                    impl_self = js(&tcx.type_of(p).instantiate_identity().skip_norm_wip().to_string());
                    if let Some(tr) = tcx.impl_opt_trait_ref(p) {
                        impl_trait = js(&path_of(tcx, tr.instantiate_identity().skip_norm_wip().def_id));
                    }
                }
                DefKind::Trait => {
                    impl_trait = js(&path_of(tcx, p));
                    impl_self = "\"Self\"".to_string();
                }
                _ => {}
            }
        }
    }

    let _ = write!(
        out,
        "{{\"k\":\"body\",\"crate\":{},\"path\":{},\"kind\":{},\"name\":{},\"parent\":{},\"root\":{},\"self\":{},\"trait\":{},\"vis\":{},\"file\":{},\"line\":{},\"stage\":{},\"argc\":{},\"gen\":{}",
        js(krate),
        js(&path_of(tcx, did)),
        js(kname),
        name,
        parent,
        root,
        impl_self,
        impl_trait,
        vis,
        js(&file),
        line,
        js(stage),
        body.arg_count,
        generated
    );

    // generated molecule code: call edges only
    let full = !generated;

    // locals
    if full {
        let mut ls = Vec::new();
        for (_l, d) in body.local_decls.iter_enumerated() {
            ls.push(js(&d.ty.to_string()));
        }
        let _ = write!(out, ",\"locals\":{}", jlist(&ls));
        let mut dbg = Vec::new();
        for v in body.var_debug_info.iter() {
            if let mir::VarDebugInfoContents::Place(p) = &v.value {
                dbg.push(format!("[{},{}]", js(v.name.as_str()), cx.place(p)));
            }
        }
        let _ = write!(out, ",\"dbg\":{}", jlist(&dbg));
    }

    // blocks
    let mut blocks = Vec::new();
    for (_bb, data) in body.basic_blocks.iter_enumerated() {
        let mut stmts = Vec::new();
        if full {
            for st in data.statements.iter() {
                match &st.kind {
                    StatementKind::Assign(b) => {
                        let (p, rv) = &**b;
                        let (_f, l) = span_loc(tcx, st.source_info.span);
                        stmts.push(format!("[{},{},{}]", cx.place(p), cx.rvalue(rv), l));
                    }
                    StatementKind::SetDiscriminant { place, variant_index } => {
                        stmts.push(format!(
                            "[{},{{\"k\":\"setdiscr\",\"v\":{}}},0]",
                            cx.place(place),
                            variant_index.index()
                        ));
                    }
                    _ => {}
                }
            }
        }
        let term = match &data.terminator {
            Some(t) => {
                if full || matches!(t.kind, TerminatorKind::Call { .. } | TerminatorKind::TailCall { .. }) {
                    let (_f, l) = span_loc(tcx, t.source_info.span);
                    let s = cx.terminator(t);
                    // branches written by a macro carry the chain of macro names, innermost first (`cfg>debug_assert`)
                    let mac = if matches!(t.kind, TerminatorKind::SwitchInt { .. }) && t.source_info.span.from_expansion() {
                        let names: Vec<String> = t
                            .source_info
                            .span
                            .macro_backtrace()
                            .map(|e| match e.kind {
                                rustc_span::ExpnKind::Macro(_, name) => name.to_string(),
                                _ => "-".to_string(),
                            })
                            .collect();
                        format!(",\"mac\":{}", js(&names.join(">")))
                    } else {
                        String::new()
                    };
                    // append line
                    format!("{}{},\"l\":{}}}", &s[..s.len() - 1], mac, l)
                } else {
                    "{\"k\":\"x\"}".to_string()
                }
            }
            None => "{\"k\":\"none\"}".to_string(),
        };
        blocks.push(format!(
            "{{\"s\":{},\"t\":{},\"c\":{}}}",
            jlist(&stmts),
            term,
            data.is_cleanup
        ));
    }
    let _ = writeln!(out, ",\"blocks\":{}}}", jlist(&blocks));
}
