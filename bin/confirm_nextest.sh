#!/bin/bash
# re-confirm "the existing suite still passes with the seeded patch" with the baseline runner (nextest, process per test) over every
# workspace crate that depends on the patched crate (nextest filterset rdeps(<crate>)); threaded `cargo test` makes faketime /
# global-state tests of several crates fail regardless of the patch, so the earlier `cargo test -p` section of confirm.log is not decisive.
# usage: confirm_nextest.sh <worktree> <seed-name>:<patched crate> ...
WT=$1; shift
export CARGO_NET_OFFLINE=true CARGO_INCREMENTAL=0 TMPDIR=$WT/_tmp
mkdir -p $TMPDIR
for item in "$@"; do
  SEED=${item%%:*}; CR=${item##*:}; SD=/verif/seeded/$SEED
  cd $WT && git checkout -q -- . && git clean -fdq -e _seed -e target -e _tmp
  {
    echo "-- existing suite with patch only, baseline runner: cargo nextest run --workspace -E 'rdeps($CR)' (expect pass)"
    git apply $SD/patch.diff || echo "PATCH APPLY FAILED"
    cargo nextest run --workspace -E "rdeps($CR)" --offline --no-fail-fast --tool-config-file pb:/w/lib/nextest.toml --profile pb --test-threads 8 2>&1 | grep -E "^\s+(FAIL|SIGABRT|SIGSEGV|TIMEOUT|LEAK)|Summary|error(\[|:)" | sort -u | head -30
    echo "== nextest done $(date +%H:%M)"
  } >> $SD/confirm.log 2>&1
  find $TMPDIR -mindepth 1 -maxdepth 1 -exec rm -rf {} + 2>/dev/null
  echo "$SEED: $(grep -E 'Summary' $SD/confirm.log | tail -1)"
done
cd $WT && git checkout -q -- .
echo ALLDONE
