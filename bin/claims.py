CLAIMS = {
 "C01": ("comparison truth tables + must-call/dominance on MIR CFGs",
         "strict-> reorg decision between (parent work + block work) and the snapshot's work, the same value stored and published; invalid-parent refusal before any transaction; failed verification always deletes/marks/answers; orphan broker routes every block to exactly one of verify/invalid/pool under the stated conditions and always re-scans leaders; pending mark precedes hand-off; storage precedes routing; retention predicate epoch+EXPIRED_EPOCH<tip",
         "that these suffice for 'heaviest of all valid chains' over all block trees, arrival permutations and thread interleavings"),
 "C02": ("inverse effect sets + dominance/ordering + who-may-call on the resolved call graph",
         "attach/detach, insert/delete cells and insert/delete block touch identical column multisets; CellEntry rebuilt from namesake sources on detach; every attach site completes the (index, cells, MMR push) triple, rollback undoes all detached blocks newest-first with both halves; one transaction and one commit per import, tip row locked first, no write after commit, snapshot built/published only after commit; main-chain mutators and snapshot publication called only from the verify-thread bodies; Snapshot/StoreSnapshot reach no write",
         "equality of the whole persisted state with an independent replay (needs execution)"),
}
NA = {}
