#!/bin/bash
# full confirmation of a seed in a scratch worktree: demo passes on HEAD / fails with the patch (cargo test, demo alone), then the
# existing suite over every crate depending on the patched crate with the baseline runner (nextest) with the patch only.
# usage: confirm_full.sh <worktree> <seed>:<patched crate>:<demo crate>:<demo test filter> ...
WT=$1; shift
export CARGO_NET_OFFLINE=true CARGO_INCREMENTAL=0 TMPDIR=$WT/_tmp CARGO_BUILD_JOBS=${CONFIRM_JOBS:-8}
if [ -n "$CONFIRM_PLAIN" ]; then export CARGO_PROFILE_DEV_DEBUG=0 CARGO_PROFILE_TEST_DEBUG=0; fi
mkdir -p $TMPDIR
clean() { find $TMPDIR -mindepth 1 -maxdepth 1 -exec rm -rf {} + 2>/dev/null; }
# the demonstration test alone; in plain mode through the workspace-wide nextest build (the same feature unification as the suite run, nothing is built twice)
demo_run() {
  if [ -n "$CONFIRM_PLAIN" ]; then
    cargo nextest run --workspace -E "package($DCR) & test(/$TF/)" --offline --no-fail-fast --tool-config-file pb:/w/lib/nextest.toml --profile pb 2>&1 | grep -E "^\s+(PASS|FAIL|TIMEOUT|SIGABRT)|Summary|error(\[|:)" | sed -E 's/^\s+PASS \[[^]]*\]/test ok:/; s/^\s+FAIL \[[^]]*\]/test FAILED:/' | sort -u | head -12
  else
    cargo test -p $DCR --offline $TF 2>&1 | grep -E "^test |test result|error(\[|:)" | grep -v "0 passed; 0 failed" | head -12
  fi
}
for item in "$@"; do
  IFS=: read SEED CR DCR TF <<< "$item"; SD=/verif/seeded/$SEED; LOG=$SD/confirm.log
  cd $WT && git checkout -q -- . && git clean -fdq -e _seed -e target -e _tmp
  {
    echo "== confirm $SD in $WT patched crate=$CR demo crate=$DCR demo=$TF"
    git apply $SD/demo.diff || echo "DEMO APPLY FAILED"
    echo "-- demo on HEAD (expect pass)"
    demo_run
    clean
    git apply $SD/patch.diff || echo "PATCH APPLY FAILED"
    echo "-- demo with patch (expect FAIL)"
    demo_run
    clean
    git apply -R $SD/demo.diff
    echo "-- existing suite with patch only, baseline runner: cargo nextest run --workspace -E 'rdeps($CR)' (expect pass)"
    cargo nextest run --workspace -E "rdeps($CR)" --offline --no-fail-fast --tool-config-file pb:/w/lib/nextest.toml --profile pb --test-threads 8 2>&1 | tee $LOG.nx | grep -E "^\s+(FAIL|SIGABRT|SIGSEGV|TIMEOUT|LEAK)|Summary|error(\[|:)" | sort -u | head -30
    echo "== nextest done $(date +%H:%M)"
    # load-sensitive tests (timeouts, timing assertions) fail when the sandbox is busy: every failed / timed-out test is run once more, alone
    grep -E "^\s+(FAIL|TIMEOUT|SIGABRT|SIGSEGV)" $LOG.nx 2>/dev/null | sed -E 's/^\s+\S+ \[[^]]*\] \([^)]*\) //' | sort -u | while read PKG TEST; do
      echo "-- rerun alone: $PKG $TEST"
      cargo nextest run -p $PKG -E "test(=$TEST)" --offline --no-fail-fast --tool-config-file pb:/w/lib/nextest.toml --profile pb 2>&1 | grep -E "^\s+(PASS|FAIL|TIMEOUT)|Summary" | sort -u | head -4
    done
    clean
    git checkout -q -- . && git clean -fdq -e _seed -e target -e _tmp
    # artifacts built in this worktree (not hard links into /repo/target) are only good for this seed's sources: drop them (disk)
    [ -z "$CONFIRM_PLAIN" ] && find $WT/target/debug/deps $WT/target/debug/incremental -type f -links 1 -delete 2>/dev/null
  } > $LOG 2>&1
  echo "$SEED: $(grep -E "test result|test ok:|test FAILED:" $LOG | head -2 | tr "\n" " " | cut -c1-160) | $(grep -E "Summary" $LOG | tail -1)"
done
echo ALLDONE
