#!/bin/bash
# collect the deliverables of a round-3 seeding agent: collect_seed.sh <NN> (worktree /tmp/wt/S<NN>) -> /verif/seeded/C<NN>-seed<k>/
N=$1; WT=/tmp/wt/S$N
for f in $WT/_seed/seed*.patch.diff; do
  k=$(basename $f | sed 's/seed\([0-9]*\)\..*/\1/')
  D=/verif/seeded/C$N-seed$k; mkdir -p $D
  cp $WT/_seed/seed$k.patch.diff $D/patch.diff
  cp $WT/_seed/seed$k.demo.diff $D/demo.diff
  cp $WT/_seed/seed$k.NOTES.md $D/NOTES.md
  echo "collected $D: $(head -1 $D/NOTES.md)"
done
[ -f $WT/_seed/REMARKS.md ] && mkdir -p /verif/findings/round3-remarks && cp $WT/_seed/REMARKS.md /verif/findings/round3-remarks/C$N-REMARKS.md && ls $WT/_seed | grep -i "repro\|remarks" | while read x; do cp $WT/_seed/$x /verif/findings/round3-remarks/C$N-$x; done
git -C $WT status --short | grep -v '^??' | head -3
git -C /repo worktree remove --force $WT && echo "removed $WT"
