#!/bin/bash
# confirm a seeded change in its scratch worktree: demo passes on HEAD, fails with the patch; the touched crate's own suite passes with the patch.
# usage: confirm_seed.sh <worktree> <seed dir in /verif/seeded> <crate> <demo test filter>
WT=$1; SD=$2; CR=$3; TF=$4
LOG=$SD/confirm.log
export CARGO_NET_OFFLINE=true CARGO_INCREMENTAL=0 TMPDIR=$WT/_tmp
mkdir -p $TMPDIR
cd $WT && git checkout -q -- . && git clean -fdq -e _seed -e target -e _tmp
{
echo "== confirm $SD in $WT crate=$CR demo=$TF"
git apply $SD/demo.diff || echo "DEMO APPLY FAILED"
echo "-- demo on HEAD (expect pass)"
cargo test -p $CR --offline $TF 2>&1 | grep -E "^test |test result|error(\[|:)" | head -20
rm -rf $TMPDIR/* $TMPDIR/.tmp* 2>/dev/null
git apply $SD/patch.diff || echo "PATCH APPLY FAILED"
echo "-- demo with patch (expect FAIL)"
cargo test -p $CR --offline $TF 2>&1 | grep -E "^test |test result|error(\[|:)" | head -20
rm -rf $TMPDIR/* $TMPDIR/.tmp* 2>/dev/null
git apply -R $SD/demo.diff
echo "-- crate suite with patch only (expect pass)"
cargo test -p $CR --offline 2>&1 | grep -E "FAILED|failed|test result|error(\[|:)" | head -20
rm -rf $TMPDIR/* $TMPDIR/.tmp* 2>/dev/null
git checkout -q -- . && git clean -fdq -e _seed -e target -e _tmp
git status --short | head -3
echo "== done"
} > $LOG 2>&1
