#!/usr/bin/env python3
"""print the distinct alarm texts of benign/<id>/detect.json"""
import json, sys
for s in sys.argv[1:]:
    d = json.load(open('/verif/benign/%s/detect.json' % s))
    seen = set()
    for p, v in d['checks'].items():
        for r in v['reports']:
            k = r['key'].split('/', 1)[1]
            if k in seen:
                continue
            seen.add(k)
            print('##', s, r['key'], '(also in %s)' % ",".join(q for q in d['checks'] if q != p and any(x['key'].split('/',1)[1]==k for x in d['checks'][q]['reports'])))
            print(r['text'])
