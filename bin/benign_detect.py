#!/usr/bin/env python3
"""False-alarm measurement: every change under /verif/benign/<id>/patch.diff keeps its property (a refactor, a cleanup or an unrelated
functional change written by an independent sub-agent). Each is applied to a scratch copy of /repo (never /repo itself) and ALL twenty
checks must stay silent (exit 0). usage: benign_detect.py [id ...]   (default: all)"""
import json
import os
import re
import subprocess
import sys

V = "/verif"
ALL = ["C%02d" % i for i in range(1, 21)]
SCR = "/scratch/benign-detect-%d" % os.getpid()


def sh(cmd, **kw):
    return subprocess.run(cmd, shell=True, capture_output=True, text=True, **kw)


def run_check(prop, repo):
    env = dict(os.environ, CKB_VERIF_EVIDENCE_DIR=SCR + "/evidence", CKB_VERIF_REPO=repo)
    r = sh("%s/check %s" % (V, prop), env=env)
    rep = re.findall(r"^REPORT (\S+): (.*)$", r.stdout, re.M)
    return r.returncode, rep, r.stdout[-400:] if r.returncode == 2 else ""


def main():
    ids = sys.argv[1:] or sorted(d for d in os.listdir(V + "/benign") if os.path.exists("%s/benign/%s/patch.diff" % (V, d)))
    repo = SCR + "/repo"
    os.makedirs(repo, exist_ok=True)
    silent = 0
    for s in ids:
        sh("rsync -a --delete --exclude /target --exclude /.git /repo/ %s/" % repo)
        a = sh("patch -p1 -d %s < %s/benign/%s/patch.diff" % (repo, V, s))
        if a.returncode:
            print(s, "APPLY FAILED", a.stdout[-200:], a.stderr[-200:])
            continue
        out = {"id": s, "checks": {}}
        from concurrent.futures import ThreadPoolExecutor
        first = run_check(ALL[0], repo)            # extracts the facts of this tree once
        with ThreadPoolExecutor(10) as ex:
            rest = list(ex.map(lambda p: run_check(p, repo), ALL[1:]))
        for p, (rc, rep, err) in zip(ALL, [first] + rest):
            if rc != 0:
                out["checks"][p] = {"exit": rc, "reports": [{"key": k, "text": t[:6000]} for k, t in rep]}
                if rc == 2:
                    print(s, p, "MACHINERY ERROR", err)
        out["silent"] = not out["checks"]
        silent += 1 if out["silent"] else 0
        with open("%s/benign/%s/detect.json" % (V, s), "w") as fh:
            json.dump(out, fh, indent=1)
        print(s, "silent" if out["silent"] else "ALARM", {k: [r["key"] for r in v["reports"]][:4] for k, v in out["checks"].items()})
        sys.stdout.flush()
    sh("rm -rf %s" % SCR)
    print("%d of %d benign changes leave all twenty checks silent" % (silent, len(ids)))


if __name__ == "__main__":
    main()
