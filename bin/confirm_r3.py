#!/usr/bin/env python3
"""Confirm seeded changes that have no confirm.log yet, one after the other, in one scratch worktree (/tmp/wt/CF, removed at the end):
the demo passes on HEAD and fails with the patch; the existing suites of every crate depending on the patched crate pass with the patch
(bin/confirm_full.sh). Crates and the demo test name are read from the diffs. usage: confirm_r3.py [seed ...]"""
import glob
import os
import re
import subprocess
import sys

V = "/verif"
WT = os.environ.get("CONFIRM_WT", "/tmp/wt/CFX")


def sh(cmd):
    return subprocess.run(cmd, shell=True, capture_output=True, text=True)


def crate_of(path):
    d = os.path.dirname(os.path.join("/repo", path))
    while d.startswith("/repo"):
        t = os.path.join(d, "Cargo.toml")
        if os.path.exists(t):
            m = re.search(r'^name\s*=\s*"([^"]+)"', open(t).read(), re.M)
            if m:
                return m.group(1)
        d = os.path.dirname(d)
    return None


def files_of(diff):
    return [l[6:].strip() for l in open(diff) if l.startswith("+++ b/")]


def main():
    seeds = sys.argv[1:] or sorted(os.path.basename(d) for d in glob.glob(V + "/seeded/C*-seed*") if not os.path.exists(d + "/confirm.log"))
    if not seeds:
        print("nothing to confirm")
        return
    items = []
    for s in seeds:
        d = "%s/seeded/%s" % (V, s)
        pc = [crate_of(f) for f in files_of(d + "/patch.diff")]
        dfiles = files_of(d + "/demo.diff")
        dc = [crate_of(f) for f in dfiles]
        txt = open(d + "/demo.diff").read()
        # first added #[test] fn
        m = re.search(r"^\+\s*#\[(?:tokio::)?test[^\]]*\]\s*\n(?:^\+.*\n)*?^\+\s*(?:pub\s+)?(?:async\s+)?fn\s+(\w+)", txt, re.M)
        tf = m.group(1) if m else ""
        if not pc or not dc or not tf:
            print(s, "cannot determine crates / test:", pc, dc, tf)
            continue
        # the demo crate of the file that holds the first test
        items.append("%s:%s:%s:%s" % (s, pc[0], dc[0], tf))
    print("confirming:", items)
    sys.stdout.flush()
    if os.path.exists(WT):
        sh("git -C /repo worktree remove --force %s" % WT)
    # CONFIRM_PLAIN=1: a plain worktree with its own target dir built WITHOUT debug info (confirm_full.sh sets the profile): one cold build of the
    # workspace's test binaries (~8 GB instead of ~30 GB, links several times faster), after which every seed only rebuilds what it touches
    r = sh("git -C /repo worktree add -q %s HEAD && mkdir -p %s/_seed && echo ready" % (WT, WT)) if os.environ.get("CONFIRM_PLAIN") else sh("bash %s/bin/mkwt.sh %s" % (V, WT))
    if r.returncode:
        print(r.stderr[-400:])
        return
    p = subprocess.run(["bash", V + "/bin/confirm_full.sh", WT] + items)
    sh("git -C /repo worktree remove --force %s; git -C /repo worktree prune" % WT)


if __name__ == "__main__":
    main()
