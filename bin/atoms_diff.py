#!/usr/bin/env python3
"""dev: lost / gained atoms per function for one corpus tree. usage: atoms_diff.py kind/id [cats]"""
import json, sys
tree = sys.argv[1]
cats = sys.argv[2].split(",") if len(sys.argv) > 2 else ["call", "recv", "arg", "dec", "must", "mustq", "new", "fld", "set"]
base = json.load(open('/scratch/corpus/base/atoms.json'))
cur = json.load(open('/scratch/corpus/%s/atoms.json' % tree))
for fn, a in sorted(cur.items()):
    if fn not in base:
        print("NEW FN", fn)
        continue
    for c in cats:
        l = set(base[fn].get(c, [])) - set(a.get(c, []))
        g = set(a.get(c, [])) - set(base[fn].get(c, []))
        for x in sorted(l):
            print(fn.split("::", 1)[1][-50:], c, "LOST  ", x[:200])
        for x in sorted(g):
            print(fn.split("::", 1)[1][-50:], c, "GAINED", x[:200])
crates = {f.split("::", 1)[0] for f in cur}
for fn in base:
    if fn.split("::", 1)[0] in crates and fn not in cur:
        print("GONE FN", fn)
