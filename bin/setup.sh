#!/bin/bash
# Build the driver and do the (cold) fact extraction for /repo's current tree. Offline.
set -e
cd "$(dirname "$0")/.."
export CARGO_NET_OFFLINE=true
mkdir -p .cache
python3 - <<'P'
import sys
sys.path.insert(0, "engine")
import run
d, th = run.ensure_facts()
print("facts ready:", d)
P
