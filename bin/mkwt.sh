#!/bin/bash
# create a scratch worktree of /repo HEAD with a hard-linked copy of /repo's prebuilt target dir
set -e
D=$1
git -C /repo worktree add -q "$D" HEAD
mkdir -p "$D/target/debug"
for s in deps build .fingerprint; do cp -al /repo/target/debug/$s "$D/target/debug/$s"; done
mkdir -p "$D/_seed"
echo "$D ready"
