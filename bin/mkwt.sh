#!/bin/bash
# create a scratch worktree of /repo HEAD with a hard-linked copy of /repo's prebuilt target dir
# * every tracked file gets the mtime of its twin in /repo: cargo's freshness test is the source mtime against the fingerprint, and a fresh
#   checkout (mtime = now) makes cargo rebuild all 75 workspace members in the worktree (20-30 GB of unshared artifacts per worktree);
# * build-script output directories are written in place by a re-run build script, so the small ones are really copied: a hard link
#   would let the worktree rewrite /repo/target's copy (ckb-resource's bundled.rs once ended up with a deleted worktree's paths).
set -e
D=$1
git -C /repo worktree add -q "$D" HEAD
( cd /repo && git ls-files -z | while IFS= read -r -d '' f; do [ -e "$D/$f" ] && touch -h -r "/repo/$f" "$D/$f"; done )
mkdir -p "$D/target/debug"
for s in deps .fingerprint; do cp -al /repo/target/debug/$s "$D/target/debug/$s"; done
mkdir -p "$D/target/debug/build"
for b in /repo/target/debug/build/*; do
  if [ "$(du -sm "$b" | cut -f1)" -gt 60 ]; then cp -al "$b" "$D/target/debug/build/"; else cp -a "$b" "$D/target/debug/build/"; fi
done
mkdir -p "$D/_seed"
echo "$D ready"
