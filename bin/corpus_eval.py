#!/usr/bin/env python3
"""Development harness (not a check): run the checks against the cached facts of every corpus tree (bin/corpus_build.py) and tabulate
  * seeded/<id>: detected by the property's own check? by any check? by which keys (targeted rule vs fp/...)
  * benign/<id>: silent on all twenty checks? which keys fire
usage: corpus_eval.py [--full] [--props C01,C02] [--out file.json] [kind/id | id ...]
Without --full a (tree, property) pair is skipped (= base verdict) when none of the crates the patch changes is loaded by that
property's check on the base tree."""
import json
import os
import re
import subprocess
import sys
from concurrent.futures import ThreadPoolExecutor

V = "/verif"
OUT = "/scratch/corpus"
ALL = ["C%02d" % i for i in range(1, 21)]


def run_check(prop, facts, evdir):
    env = dict(os.environ, CKB_VERIF_EVIDENCE_DIR=evdir, CKB_VERIF_FACTS=facts)
    r = subprocess.run("%s/check %s" % (V, prop), shell=True, capture_output=True, text=True, env=env)
    rep = re.findall(r"^REPORT (\S+): (.*)$", r.stdout, re.M)
    return r.returncode, rep, (r.stdout[-300:] + r.stderr[-300:]) if r.returncode == 2 else ""


def main():
    argv = sys.argv[1:]
    full = "--full" in argv
    props = ALL
    outp = "/scratch/corpus/eval.json"
    ids = []
    i = 0
    while i < len(argv):
        a = argv[i]
        if a == "--props":
            props = argv[i + 1].split(",")
            i += 1
        elif a == "--out":
            outp = argv[i + 1]
            i += 1
        elif not a.startswith("--"):
            ids.append(a)
        i += 1
    trees = []
    for kind in ("seeded", "benign"):
        base = os.path.join(OUT, kind)
        if not os.path.isdir(base):
            continue
        for d in sorted(os.listdir(base)):
            if os.path.exists(os.path.join(base, d, "COMPLETE")):
                if not ids or d in ids or ("%s/%s" % (kind, d)) in ids:
                    trees.append((kind, d))
    # crates each property's check loads on the base tree
    loaded = {}
    evb = "/scratch/corpus/ev-base"
    with ThreadPoolExecutor(16) as ex:
        list(ex.map(lambda p: run_check(p, OUT + "/base", evb), props))
    for p in props:
        with open(os.path.join(evb, p + ".json")) as fh:
            loaded[p] = set(json.load(fh)["coverage"].get("crates_loaded") or [])
    jobs = []
    for kind, d in trees:
        with open(os.path.join(OUT, kind, d, "COMPLETE")) as fh:
            changed = set(fh.read().split(":", 1)[1].split())
        for p in props:
            if full or not loaded[p] or (changed & loaded[p]):
                jobs.append((kind, d, p))
    print("%d trees, %d (tree, property) evaluations" % (len(trees), len(jobs)))
    sys.stdout.flush()

    def job(j):
        kind, d, p = j
        return j, run_check(p, os.path.join(OUT, kind, d), "/scratch/corpus/ev/%s-%s" % (kind, d))
    res = {}
    with ThreadPoolExecutor(16) as ex:
        for (kind, d, p), (rc, rep, err) in ex.map(job, jobs):
            if rc == 2:
                print("MACHINERY ERROR", kind, d, p, err)
            if rc != 0:
                res.setdefault("%s/%s" % (kind, d), {})[p] = {"exit": rc, "keys": [k for k, _ in rep], "texts": {k: t[:1500] for k, t in rep}}
    det_own = det_any = det_targeted = nseed = 0
    silent = nben = 0
    lines = []
    for kind, d in trees:
        r = res.get("%s/%s" % (kind, d), {})
        keys = sorted({k for v in r.values() for k in v["keys"]})
        if kind == "seeded":
            nseed += 1
            own = d[:3]
            o = own in r and r[own]["exit"] == 1
            det_own += o
            det_any += bool(keys)
            tgt = [k for k in keys if "/fp/" not in k]
            det_targeted += bool(tgt)
            lines.append("%-12s %s %s %s" % (d, "own" if o else ("other" if keys else "MISSED"), "targeted" if tgt else ("fp-only" if keys else "-"), " ".join(keys)[:300]))
        else:
            nben += 1
            silent += not keys
            lines.append("%-12s %s %s" % (d, "silent" if not keys else "ALARM", " ".join(sorted({k.split("/", 1)[1] for k in keys}))[:300]))
    print("\n".join(lines))
    print("seeds: %d; detected by own check %d, by any check %d, by a targeted (non-fp) key %d" % (nseed, det_own, det_any, det_targeted))
    print("benign: %d; silent %d" % (nben, silent))
    with open(outp, "w") as fh:
        json.dump(res, fh, indent=1)


if __name__ == "__main__":
    main()
