#!/usr/bin/env python3
"""print the brief for a round-3 seeding sub-agent of one property: seed_prompt.py C10  (worktree /tmp/wt/S10). The brief carries the
property's text from properties.jsonl and the one-line titles of the changes already collected for it, nothing else from /verif."""
import glob
import json
import sys

prop = sys.argv[1]
nn = prop[1:]
P = None
for l in open("/verif/properties.jsonl"):
    p = json.loads(l)
    if p["id"] == prop:
        P = p
taken = []
for d in sorted(glob.glob("/verif/seeded/%s-seed*" % prop) + glob.glob("/verif/seeded/_obsolete/%s-seed*" % prop)):
    try:
        taken.append(open(d + "/NOTES.md").readline().strip().lstrip("# ").strip())
    except OSError:
        pass
wt = "/tmp/wt/S" + nn
print("""You are helping to evaluate a verification tool for the Nervos CKB full node (Rust). Your job is to write two DIFFERENT small source changes to the node, each of which silently breaks the property below, so that we can measure whether the tool notices them. You know nothing about the tool and must not look for it: work ONLY inside the scratch git worktree %(wt)s (a worktree of the repository at its current HEAD with a pre-built target directory, so `cargo test -p <crate> --offline` is incremental). Never touch /repo or /verif. The sandbox has no network: always pass `--offline` to cargo and set CARGO_NET_OFFLINE=true; use TMPDIR=%(wt)s/_tmp (mkdir it) and delete its contents after each test run (the chain tests leave GBs of ckb-tmp-* directories). Disk is tight: do not run the whole workspace test suite, only `cargo test -p <crate> --offline [filter]` for the crates you touch and their direct dependants, and do not create additional target directories.

THE PROPERTY (%(id)s: %(title)s)
%(statement)s

Quantifier: %(quantifier)s

Why the existing tests cannot settle it: %(why)s

Where it lives (anchors): %(anchors)s

WHAT TO DELIVER: two changes, called seed5 and seed6. Each change
 * is a realistic slip a developer could make (an optimisation with a wrong assumption, a fast path, a forgotten case, an off-by-one at a boundary, a wrong operand, a check or step made conditional on the wrong thing, two cooperating sites that each look fine alone) - 1 to 30 changed lines of non-test source, with the comment a developer would have written; no renames or refactors for their own sake;
 * still compiles and still passes the existing tests of the crates it touches and of the crates that depend on them (run them: `cargo test -p <crate> --offline`; if a pre-existing test fails on the unmodified HEAD too, say so);
 * breaks the property, but only under something specific: a particular interleaving, a crash or fault at a particular point, a multi-step sequence of operations, an unusual input, or two cooperating sites - NOT something ordinary use or the existing tests would expose at once;
 * comes with a demonstration: a new #[test] (in the crate's existing test module or tests directory, using the helpers the neighbouring tests use) that PASSES on the unmodified HEAD and FAILS with your change, and whose failure shows the property being violated (not merely that code changed);
 * is DIFFERENT in function and mechanism from each other and from the changes that were already explored for this property:
%(taken)s

Write, in %(wt)s/_seed/: `seed5.patch.diff` (only the source change), `seed5.demo.diff` (only the new test), `seed5.NOTES.md` (first line `# seed5 - <one-line title>`; then: the change, why it looks plausible, what exactly it needs in order to manifest, the history/input of the demo, the commands you ran with their result lines: demo on HEAD = pass, demo with the change = FAIL, existing tests with the change = pass); the same for seed6. Produce the diffs with `git diff` from the worktree root so that each applies with `git apply` to a clean HEAD, independently of the other. If, while reading, you notice things in the UNMODIFIED code that look like genuine defects related to the property, describe them in `_seed/REMARKS.md` (function, history that would show it, whether you reproduced it) - that is valuable too, but do not spend more than a fifth of your effort on it. At the end leave the tracked files of the worktree clean (`git checkout -- .`, remove added test files; keep _seed/). In your final answer give, per seed: title, files touched, what it needs to manifest, and the result lines of the three runs.""" % {
    "wt": wt, "id": P["id"], "title": P["title"], "statement": P["statement"], "quantifier": P.get("quantifier", ""), "why": P.get("why_tests_cant", ""),
    "anchors": "; ".join(P["anchors"].get("files", [])) + ". State: " + "; ".join("%s (%s)" % (s.get("name"), s.get("where")) for s in P["anchors"].get("state", [])),
    "taken": "\n".join("   - " + t for t in taken) or "   (none yet)"})
