#!/usr/bin/env python3
"""Write seeded/<id>/meta.json for every kept seed from its NOTES.md (author: the sub-agent), confirm.log (what was
run here to confirm it) and detect.json (which rule instances fire with the patch applied to /repo)."""
import json
import os
import re

V = "/verif"
props = {json.loads(l)["id"]: json.loads(l) for l in open(V + "/properties.jsonl")}
FIRST = {}
for b, ss in json.load(open(V + "/seeded/first_run.json"))["batches"].items():
    for k, v in ss.items():
        FIRST[k] = {"batch": b, "result": v}
for d in sorted(os.listdir(V + "/seeded")):
    sd = os.path.join(V, "seeded", d)
    if not re.match(r"C\d\d-seed\d+$", d) or not os.path.exists(sd + "/patch.diff"):
        continue
    notes = open(sd + "/NOTES.md").read()
    title = notes.splitlines()[0].lstrip("# ").strip()
    m = re.search(r"^##+ What it needs[^\n]*\n(.*?)(?=^##+ |\Z)", notes, re.S | re.M)
    needs = re.sub(r"\s+", " ", m.group(1)).strip() if m else ""
    files = [x[6:].strip() for x in open(sd + "/patch.diff") if x.startswith("+++ b/")]
    demo_files = [x[6:].strip() for x in open(sd + "/demo.diff") if x.startswith("+++ b/")] if os.path.exists(sd + "/demo.diff") else []
    clog = open(sd + "/confirm.log").read() if os.path.exists(sd + "/confirm.log") else ""
    head = re.search(r"-- demo on HEAD \(expect pass\)\n(.*?)(?=^-- )", clog, re.S | re.M)
    withp = re.search(r"-- demo with patch \(expect FAIL\)\n(.*?)(?=^-- |^== )", clog, re.S | re.M)
    nx = re.search(r"baseline runner: (cargo nextest run[^\n]*?) \(expect pass\)\n(.*?)== nextest done", clog, re.S)
    demo_test = re.search(r"^test (\S+) \.\.\. ", clog, re.M)
    det = json.load(open(sd + "/detect.json")) if os.path.exists(sd + "/detect.json") else {}
    meta = {
        "seed": d,
        "property": d[:3],
        "property_title": props[d[:3]]["title"],
        "author": "independent sub-agent given only the property text and a scratch worktree (round %s)" % ("1" if int(d[-1]) <= 2 else ("2" if int(d[-1]) <= 4 else "3")),
        "title": title,
        "patch_files": files,
        "what_it_needs_to_manifest": needs,
        "demonstration": {"patch": "demo.diff", "files": demo_files, "test": demo_test.group(1) if demo_test else None},
        "confirmed_here": {
            "where": "a scratch git worktree of /repo HEAD under /tmp/wt (removed afterwards); never applied to /repo except transiently by bin/seedcheck.sh / bin/seed_detect.py, which revert with git checkout",
            "demo_on_head": ("pass" if head and "FAILED" not in head.group(1) and (" ok" in head.group(1) or re.search(r"Summary[^\n]*: [1-9]\d* passed", head.group(1))) and not re.search(r"[1-9]\d* failed", head.group(1)) else "see confirm.log"),
            "demo_with_patch": ("fail" if withp and ("FAILED" in withp.group(1) or re.search(r"[1-9]\d* failed", withp.group(1))) else "see confirm.log"),
            "existing_suite_with_patch": ({"cmd": nx.group(1), "summary": (re.search(r"Summary[^\n]*", nx.group(2)) or [None])[0] if re.search(r"Summary[^\n]*", nx.group(2)) else None,
                                           "failures": re.findall(r"^\s+(?:FAIL|SIGABRT|SIGSEGV|TIMEOUT)[^\n]*", nx.group(2), re.M)} if nx else "pending (bin/confirm_nextest.sh)"),
            "reruns_alone": re.findall(r"^-- rerun alone: ([^\n]*)\n\s*(Summary[^\n]*)", clog, re.M),
            "note": "the `cargo test -p <crate>` section of confirm.log runs the crate's tests in one process; several faketime / global-state tests fail there on clean HEAD too, so the nextest section (the baseline runner, one process per test) is the decisive one",
            "log": "confirm.log",
        },
        "detected_by": [{"check": k, "exit": v["exit"], "finding_keys": v["keys"]} for k, v in (det.get("checks") or {}).items() if v["exit"] == 1],
        "detected": det.get("detected"),
        "first_run": FIRST.get(d, {"batch": "round 1", "result": "see DESIGN 9.3 (rules strengthened after round 1 are listed there)"}),
        "how_detected": "git -C /repo apply patch.diff; ./check <Cxx>; git -C /repo checkout -- .  (bin/seed_detect.py)",
    }
    with open(sd + "/meta.json", "w") as fh:
        json.dump(meta, fh, indent=1)
print("meta.json written")
