#!/usr/bin/env python3
"""Like seed_detect.py but never touches /repo: each seed is applied to a scratch copy of /repo (rsync, no target/.git) and the checks
run on that copy (CKB_VERIF_REPO). Safe to run while other jobs read /repo. usage: seed_detect2.py seed-name ..."""
import json
import os
import re
import subprocess
import sys

V = "/verif"
ALL = ["C%02d" % i for i in range(1, 21)]
SCR = "/scratch/seed-detect-%d" % os.getpid()


def sh(cmd, **kw):
    return subprocess.run(cmd, shell=True, capture_output=True, text=True, **kw)


def run_check(prop, repo):
    env = dict(os.environ, CKB_VERIF_EVIDENCE_DIR=SCR + "/evidence", CKB_VERIF_REPO=repo)
    r = sh("%s/check %s" % (V, prop), env=env)
    return r.returncode, re.findall(r"^REPORT (\S+):", r.stdout, re.M), r.stdout[-400:] if r.returncode == 2 else ""


def main():
    seeds = sys.argv[1:]
    repo = SCR + "/repo"
    os.makedirs(repo, exist_ok=True)
    for s in seeds:
        prop = s[:3]
        sh("rsync -a --delete --exclude /target --exclude /.git %s/ %s/" % (os.environ.get("SEED_SRC", "/repo"), repo))
        a = sh("patch -p1 -d %s < %s/seeded/%s/patch.diff" % (repo, V, s))
        if a.returncode:
            print(s, "APPLY FAILED", a.stdout[-200:], a.stderr[-200:])
            continue
        out = {"seed": s, "property": prop, "checks": {}}
        rc, keys, err = run_check(prop, repo)
        out["checks"][prop] = {"exit": rc, "keys": keys}
        if rc == 2:
            print(s, "MACHINERY ERROR", err)
        if rc != 1:
            for p in ALL:
                if p == prop:
                    continue
                rc2, k2, _ = run_check(p, repo)
                if rc2 != 0:
                    out["checks"][p] = {"exit": rc2, "keys": k2}
        out["detected"] = any(v["exit"] == 1 for v in out["checks"].values())
        out["detected_by_own_check"] = out["checks"][prop]["exit"] == 1
        with open("%s/seeded/%s/detect.json" % (V, s), "w") as fh:
            json.dump(out, fh, indent=1)
        print(s, "DETECTED" if out["detected"] else "MISSED", {k: v["keys"][:3] for k, v in out["checks"].items() if v["keys"]})
        sys.stdout.flush()
    sh("rm -rf %s" % SCR)


if __name__ == "__main__":
    main()
