#!/usr/bin/env python3
"""Development harness: per corpus tree, which atoms (engine/atoms.py) of which anchor-scope functions are LOST relative to the base tree,
by category. Used to choose which atom categories may raise an alarm (lost on seeded trees, kept on benign trees).
usage: atoms_eval.py [--recompute] [-v] [id ...]"""
import json
import os
import sys
from concurrent.futures import ProcessPoolExecutor

V = "/verif"
sys.path.insert(0, V + "/engine")
OUT = "/scratch/corpus"
CATS = ("call", "recv", "arg", "dec", "must", "mustq", "mustcall", "new", "fld", "set", "grd", "ord", "arm", "grdn", "byp")


def union_scope():
    sc = set()
    for f in os.listdir(V + "/rules/fp"):
        with open(os.path.join(V, "rules/fp", f)) as fh:
            sc |= set(json.load(fh)["scope"])
    return sorted(sc)


def compute(fdir, crates=None):
    from facts import Facts
    import kinds as K
    import fingerprint as FP
    import atoms as A
    F = Facts(fdir)
    S = K.Summ(F, depth=3)
    scope = union_scope()
    fidx = F.file_index()
    cr = sorted({c for f, cs in fidx.items() if FP.in_scope(f, scope) for c in cs})
    if crates is not None:
        cr = [c for c in cr if c in crates]
    out = {}
    for crate in cr:
        groups = {}
        for b in F.bodies_of_crate(crate):
            if FP.in_scope(b.file, scope):
                groups.setdefault(b.root or b.path, []).append(b)
        for root, bodies in groups.items():
            a = A.atoms(bodies, S)
            a["_reach"] = {}
            if any(a.values()):
                if root in out:
                    for k in a:
                        out[root][k] = sorted(set(out[root][k]) | set(a[k]))
                else:
                    out[root] = a
                    out[root]["_file"] = bodies[0].file
    return out


def one(args):
    kind, d, recompute = args
    fdir = os.path.join(OUT, kind, d)
    cache = os.path.join(fdir, "atoms.json")
    if os.path.exists(cache) and not recompute:
        with open(cache) as fh:
            return kind, d, json.load(fh)
    with open(os.path.join(fdir, "COMPLETE")) as fh:
        changed = set(fh.read().split(":", 1)[1].split())
    try:
        res = compute(fdir, changed)
    except Exception as e:
        import traceback
        return kind, d, {"_error": traceback.format_exc()[-800:]}
    with open(cache, "w") as fh:
        json.dump(res, fh)
    return kind, d, res


def main():
    argv = sys.argv[1:]
    recompute = "--recompute" in argv
    verbose = "-v" in argv
    ids = [a for a in argv if not a.startswith("-")]
    bc = os.path.join(OUT, "base", "atoms.json")
    if os.path.exists(bc) and not recompute:
        with open(bc) as fh:
            base = json.load(fh)
    else:
        base = compute(OUT + "/base")
        with open(bc, "w") as fh:
            json.dump(base, fh)
    print("base: %d functions, atoms per category: %s" % (len(base), {c: sum(len(v.get(c, [])) for v in base.values()) for c in CATS}))
    trees = []
    for kind in ("seeded", "benign"):
        p = os.path.join(OUT, kind)
        for d in sorted(os.listdir(p)) if os.path.isdir(p) else []:
            if os.path.exists(os.path.join(p, d, "COMPLETE")) and (not ids or d in ids):
                trees.append((kind, d, recompute))
    tot = {k: {c: 0 for c in CATS} for k in ("seeded", "benign")}
    n = {"seeded": 0, "benign": 0}
    anyloss = {"seeded": 0, "benign": 0}
    with ProcessPoolExecutor(12) as ex:
        for kind, d, res in ex.map(one, trees):
            if "_error" in res:
                print(kind, d, "ERROR", res["_error"])
                continue
            n[kind] += 1
            import fingerprint as FP
            with open(os.path.join(OUT, kind, d, "COMPLETE")) as fh:
                changed = set(fh.read().split(":", 1)[1].split())
            ref = {fn: a for fn, a in base.items() if fn.split("::", 1)[0].lstrip("<") in changed}
            lost = {c: [] for c in CATS}
            gone_fns = []
            for c in CATS:      # per category, with the moved / inlined forgiveness of the real check
                l, gm, gok = FP.atom_losses(ref, {k: v for k, v in res.items()}, [c], lambda pth: res.get(pth, {}).get("_reach", {}))
                for fn, xs in l.items():
                    lost[c] += [(fn, x) for _, x in xs]
                for fn, xs in gm.items():
                    lost[c] += [(fn + " [gone]", x) for _, x in xs]
            cats = [c for c in CATS if lost[c]]
            for c in cats:
                tot[kind][c] += 1
            if cats or gone_fns:
                anyloss[kind] += 1
            print("%-7s %-12s lost: %s%s" % (kind, d, " ".join("%s=%d" % (c, len(lost[c])) for c in cats) or "-", (" gone-fns=%d" % len(gone_fns)) if gone_fns else ""))
            if verbose:
                for c in cats:
                    for fn, x in lost[c][:6]:
                        print("      %s %s :: %s" % (c, fn.split("::", 1)[1][-60:], x[:200]))
                for fn in gone_fns[:5]:
                    print("      gone %s" % fn)
    for kind in ("seeded", "benign"):
        print(kind, "trees=%d any-loss=%d" % (n[kind], anyloss[kind]), tot[kind])


if __name__ == "__main__":
    main()
