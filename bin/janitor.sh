#!/bin/bash
# purge leaked test temp dirs under /tmp that no live process holds open (ckb tests leak ~3GB each)
while true; do
  inuse=$(ls -l /proc/*/fd 2>/dev/null | grep -o "/tmp/\.tmp[A-Za-z0-9]*\|/tmp/ckb-tmp-[A-Za-z0-9_-]*" | sort -u)
  for d in /tmp/.tmp* /tmp/ckb-tmp-*; do
    [ -e "$d" ] || continue
    if ! echo "$inuse" | grep -qx "$d"; then
      # older than 3 minutes only
      if [ $(( $(date +%s) - $(stat -c %Y "$d") )) -gt 180 ]; then rm -rf "$d"; fi
    fi
  done
  sleep 120
done
