#!/usr/bin/env python3
"""Regenerate the seed table of DESIGN.md section 9.3 from seeded/*/meta.json (between the SEED_TABLE markers)."""
import json
import os
import re

V = "/verif"
rows = ["| seed | change (agent's title) | patched file | needs, in short | first run | caught now by (finding keys) |", "|---|---|---|---|---|---|"]
n = det = 0
for d in sorted(os.listdir(V + "/seeded")):
    mp = os.path.join(V, "seeded", d, "meta.json")
    if not os.path.exists(mp):
        continue
    m = json.load(open(mp))
    n += 1
    keys = ["%s" % k for c in m["detected_by"] for k in c["finding_keys"][:3]]
    det += 1 if m.get("detected") else 0
    title = re.sub(r"^C\d\d\s*/?\s*seed\d\s*[-—:]+\s*", "", m["title"])
    needs = m["what_it_needs_to_manifest"]
    needs = re.sub(r"[*`|]", "", needs)
    needs = (needs[:170] + "…") if len(needs) > 170 else needs
    fr = m.get("first_run", {}).get("result", "")
    fr = fr if fr in ("missed", "detected") else ("other check only" if fr.startswith("detected by") else ("not measured" if fr.startswith("not measured") else "r1"))
    rows.append("| %s | %s | %s | %s | %s | %s |" % (d, title.replace("|", "/"), ", ".join(m["patch_files"]), needs, fr, "<br>".join("`%s`" % k for k in keys) if keys else "**MISSED**"))
rows.append("")
rows.append("%d kept seeds, %d detected by at least one check (exit 1 with a VIOLATION line naming the instance)." % (n, det))
table = "\n".join(rows)
p = V + "/DESIGN.md"
s = open(p).read()
if "SEED_TABLE_PLACEHOLDER" in s:
    s = s.replace("SEED_TABLE_PLACEHOLDER", "<!-- SEED_TABLE_BEGIN -->\n" + table + "\n<!-- SEED_TABLE_END -->")
else:
    s = re.sub(r"<!-- SEED_TABLE_BEGIN -->.*?<!-- SEED_TABLE_END -->", lambda _: "<!-- SEED_TABLE_BEGIN -->\n" + table + "\n<!-- SEED_TABLE_END -->", s, flags=re.S)
open(p, "w").write(s)
print("seed table: %d seeds, %d detected" % (n, det))
