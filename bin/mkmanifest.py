#!/usr/bin/env python3
"""Regenerates MANIFEST.json from the claim table below (single source of truth for what is claimed)."""
import json
import os

V = os.path.dirname(os.path.dirname(os.path.abspath(__file__)))

# property -> (technique, decided clause, not decided)
CLAIMS = {
}
NA = {
}

def main():
    props = [json.loads(l) for l in open(os.path.join(V, "properties.jsonl"))]
    exec(open(os.path.join(V, "bin", "claims.py")).read(), globals())
    checks = []
    na = []
    for p in props:
        pid = p["id"]
        if pid in CLAIMS and os.path.exists(os.path.join(V, "rules", pid + ".py")):
            tech, decided, nd = CLAIMS[pid]
            checks.append({
                "property_id": pid,
                "quick_cmd": "./check %s --tier quick" % pid,
                "thorough_cmd": "./check %s --tier thorough" % pid,
                "evidence_file": "/verif/evidence/%s.json" % pid,
                "replay_cmd_template": "./check %s --replay {path}" % pid,
                "engine": "ckb-facts+rules",
                "technique": tech + " + FINGERPRINT atoms: for every function of the property's anchor files, the loss of a refactoring-stable fact of the reviewed reference (workspace / effectful call, cleaned operand form of a call argument, canonical comparison or enum test with its rejecting side, rejection on every successful path, constructed variant / field form, guard set of a rejection or procedure call) that did not move into a helper",
                "level_claimed": {
                    "category": "other",
                    "text": "Static analysis (rule instances over rustc MIR of the current tree) decides these structural necessary conditions of the property for every path / call site: %s. In addition every function defined in the property's anchor files is compared with the reviewed reference of the pinned tree: the LOSS of a refactoring-stable fact (DESIGN 3.13: a test, a step, an operand form, a rejection that was on every successful path, the exact conditions under which a rejection is tested or a procedure is called) that did not move into a helper is reported and needs review (it changes that function's behaviour; it is not by itself proof that the property is violated); additions and all other differences are printed as REVIEW notes and never alarm. It does NOT decide: %s." % (decided, nd),
                    "design_ref": "DESIGN.md section 5.%s" % pid,
                },
                "level_note": "Trusted base: rustc's type-checked MIR of `cargo +nightly check --workspace` (dev profile, default features; cfg(test) excluded); dyn/generic calls matched by trait method path; external crates (RocksDB atomicity, fsync, molecule codec, ckb-vm) are leaves; unwind edges ignored. Decides the listed necessary conditions only; not decided: %s." % nd,
            })
        else:
            na.append({"property_id": pid, "reason": NA.get(pid, "check not built yet (build in progress; planned decided clauses in DESIGN.md section 5)")})
    m = {
        "version": 1,
        "setup_cmd": "bin/setup.sh",
        "hooks": {
            "guard": "ckb_verif",
            "enable": "n/a - no instrumentation: the analysis reads the compiler's MIR of the unmodified source (RUSTC_WORKSPACE_WRAPPER driver under cargo +nightly check)",
            "baseline_off_cmd": "cd /repo && cargo nextest run --workspace --no-fail-fast --tool-config-file pb:/w/lib/nextest.toml --profile pb --test-threads 8 --offline",
            "source_commits": [],
            "add_only": True,
        },
        "engines": [
            {"name": "ckb-facts", "path": "driver/", "kind_free_text": "rustc_private driver: dumps mir_built CFGs, resolved callees, ADT/impl tables per workspace crate", "serves_properties": [c["property_id"] for c in checks]},
            {"name": "rules", "path": "engine/ rules/", "kind_free_text": "python rule engine: call graph, dominators, must-call summaries, provenance, comparison truth tables, effect sets, count-aware effect-site allow-lists (EFFECTSITES), panicking-arithmetic inventory (NOOVERFLOW), frozen decision tables (TABLE) and anchor-file fingerprints (FINGERPRINT)", "serves_properties": [c["property_id"] for c in checks]},
            {"name": "selftest", "path": "selftest/", "kind_free_text": "mutation twins applied to a scratch copy; asserts each rule fires on its broken twin and is silent on behaviour-preserving twins (static: runs the analyser, never CKB)", "serves_properties": [c["property_id"] for c in checks]},
        ],
        "checks": checks,
        "not_applicable": na,
        "notes": "All checks are static analysis of /repo's current working tree (facts re-extracted whenever any .rs/.toml/.lock/.mol file changes). known_findings.json lists the recorded open findings (F4: seven ChainStore accessors without a freezer fallback, printed as KNOWN-FINDING lines by check C10; F10: pool aggregates when a parent arrives after its children, printed by C11; F24: load_data_as_code registers zero padding as cell content, printed by C05; F28: the epoch-number index row follows the last processed epoch head, printed by C02; F31: dep-group members are children in the pool's edges but not in its links, printed by C11) and the 26 defects repaired by fix: commits in /repo (DESIGN.md section 6).",
    }
    json.dump(m, open(os.path.join(V, "MANIFEST.json"), "w"), indent=1)
    print("checks:", [c["property_id"] for c in checks], "na:", [n["property_id"] for n in na])

main()
