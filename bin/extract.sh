#!/bin/bash
# Build the driver (if needed) and extract facts from /repo's current working tree.
# usage: extract.sh <facts_out_dir> [repo_dir] [target_dir]
set -euo pipefail
OUT=$1
REPO=${2:-/repo}
TGT=${3:-/verif/.cache/target}
V=/verif
export CARGO_NET_OFFLINE=true
export CARGO_INCREMENTAL=0
SYSROOT=$(rustc +nightly --print sysroot)
( cd $V/driver && cargo build --release --offline >/dev/null 2>$V/.cache/driver-build.log ) || { cat $V/.cache/driver-build.log >&2; exit 2; }
DRV=$V/driver/target/release/ckb-facts
mkdir -p "$OUT" "$TGT"
rm -f "$OUT"/*.jsonl
# force re-analysis of workspace members only (names from cargo metadata)
# (CKB_FACTS_INCREMENTAL=1, development harness only: keep the fingerprints and let cargo re-check just the crates whose sources changed)
if [ -d "$TGT/debug/.fingerprint" ] && [ -z "${CKB_FACTS_INCREMENTAL:-}" ]; then
  for n in $(cd $REPO && cargo +nightly metadata --no-deps --offline --format-version 1 | python3 -c 'import json,sys; print(" ".join(p["name"] for p in json.load(sys.stdin)["packages"]))'); do
    for d in "$TGT/debug/.fingerprint/$n"-[0-9a-f]*; do
      [ -d "$d" ] && rm -rf "$d"
    done
  done
fi
cd $REPO
LD_LIBRARY_PATH=$SYSROOT/lib RUSTFLAGS="-Zmir-opt-level=0 -Awarnings" RUSTC_WORKSPACE_WRAPPER=$DRV \
  CKB_FACTS_DIR="$OUT" CARGO_TARGET_DIR="$TGT" cargo +nightly check --workspace --offline -j 16 >"$OUT/cargo.log" 2>&1 || { tail -40 "$OUT/cargo.log" >&2; exit 2; }
[ -n "${CKB_FACTS_INCREMENTAL:-}" ] || ls "$OUT"/*.jsonl >/dev/null
