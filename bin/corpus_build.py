#!/usr/bin/env python3
"""Development harness (not a check): extract the facts of every patched tree of the two corpora once and keep them, so that the
whole rule set can be re-evaluated against all seeded (property-breaking) and benign (property-preserving) changes in minutes.

  seeded/<id>/patch.diff  -> /scratch/corpus/seeded/<id>/   (facts dir; files identical to the base tree's are symlinks)
  benign/<id>/patch.diff  -> /scratch/corpus/benign/<id>/

Each patch is applied to a scratch copy of /repo (never /repo itself). usage: corpus_build.py [--force] [kind/id ...]"""
import fcntl
import hashlib
import os
import subprocess
import sys

V = "/verif"
sys.path.insert(0, V + "/engine")
OUT = "/scratch/corpus"
SRC = os.environ.get("CORPUS_SRC", "/repo")      # a frozen copy of the tree the references were frozen on (git archive), so that /repo may move
WORK = os.environ.get("CORPUS_WORK", "/scratch/corpus-work")
TGT = os.environ.get("CORPUS_TARGET", V + "/.cache/target")      # a private target dir (and lock) lets several builders run side by side
LOCK = (TGT + ".lock") if os.environ.get("CORPUS_TARGET") else V + "/.cache/lock"


def sh(cmd, **kw):
    return subprocess.run(cmd, shell=True, capture_output=True, text=True, **kw)


def sha(p):
    h = hashlib.sha256()
    with open(p, "rb") as fh:
        for chunk in iter(lambda: fh.read(1 << 20), b""):
            h.update(chunk)
    return h.hexdigest()


def touched_by_others():
    """source files that differ between /repo and the other checkouts that share the target dir (selftest copies): their crates' metadata
    in the target dir may come from the other checkout, so they are touched as well (re-checked from this copy's sources)"""
    out = []
    for other in ("/scratch/ckb-verif-selftest/repo",):
        if not os.path.isdir(other):
            continue
        r = sh("diff -rq --exclude=target --exclude=.git /repo %s 2>/dev/null | grep '^Files' | awk '{print $2}'" % other)
        out += [os.path.relpath(x, "/repo") for x in r.stdout.split() if x.endswith(".rs")]
    return out


def main():
    args = [a for a in sys.argv[1:] if not a.startswith("--")]
    force = "--force" in sys.argv
    import run
    base, _ = run.ensure_facts()
    base = os.path.realpath(base)
    if not os.path.exists(OUT + "/base/COMPLETE"):      # private copy: ensure_facts() prunes old stores
        os.makedirs(OUT, exist_ok=True)
        sh("rm -rf %s/base; cp -r %s %s/base" % (OUT, base, OUT))
    base = OUT + "/base"
    base_sha = {f: sha(os.path.join(base, f)) for f in os.listdir(base) if f.endswith(".jsonl")}
    ids = []
    for kind in ("seeded", "benign"):
        for d in sorted(os.listdir(os.path.join(V, kind))):
            if os.path.exists(os.path.join(V, kind, d, "patch.diff")):
                ids.append("%s/%s" % (kind, d))
    if args:
        ids = [i for i in ids if i in args or i.split("/")[1] in args]
    repo = WORK + "/repo"
    os.makedirs(repo, exist_ok=True)
    # warm-up: one full extraction of the unpatched copy, so that every member has a fingerprint for this path; afterwards cargo itself
    # re-checks (and the driver re-emits) only the crates a patch changes and their dependents; all other fact files are the base tree's
    sh("rsync -a --delete --exclude /target --exclude /.git %s/ %s/" % (SRC, repo))
    lock = open(LOCK, "w")
    fcntl.flock(lock, fcntl.LOCK_EX)      # the extraction of a check / selftest running at the same time deletes member fingerprints
    try:
        r = sh("%s/bin/extract.sh %s/warm %s %s" % (V, WORK, repo, TGT))
    finally:
        fcntl.flock(lock, fcntl.LOCK_UN)
        lock.close()
    if r.returncode:
        print("WARM-UP FAILED", r.stderr[-600:])
        return
    prev_files = []
    for i in ids:
        out = os.path.join(OUT, i)
        if os.path.exists(out + "/COMPLETE") and not force:
            continue
        sh("rm -rf %s" % out)
        # the lock is taken BEFORE the files are touched: cargo hashes workspace-relative paths, so every checkout (a check on /repo, a selftest
        # copy, this copy) shares the member fingerprints of the one target dir; an extraction of another checkout that ran between the
        # patching and this extraction would leave fingerprints newer than the patched files and cargo would call them fresh
        lock = open(LOCK, "w")
        fcntl.flock(lock, fcntl.LOCK_EX)
        try:
            sh("rsync -a --delete --exclude /target --exclude /.git %s/ %s/" % (SRC, repo))
            a = sh("patch -p1 -d %s < %s/%s/patch.diff" % (repo, V, i))
            if a.returncode:
                print(i, "APPLY FAILED", a.stdout[-300:], a.stderr[-300:])
                continue
            files = [l[6:].strip() for l in open("%s/%s/patch.diff" % (V, i)) if l.startswith("+++ b/")]
            for f in set(files + prev_files + touched_by_others()):       # rsync restores old mtimes: make cargo see the reverted and the patched files as changed
                if os.path.exists(os.path.join(repo, f)):
                    os.utime(os.path.join(repo, f))
            prev_files = files
            r = sh("CKB_FACTS_INCREMENTAL=1 %s/bin/extract.sh %s %s %s" % (V, out, repo, TGT))
        finally:
            fcntl.flock(lock, fcntl.LOCK_UN)
            lock.close()
        if r.returncode:
            print(i, "EXTRACT FAILED", r.stderr[-600:])
            continue
        have = {f.rsplit("-", 1)[0] for f in os.listdir(out) if f.endswith(".jsonl")}
        for bf in base_sha:
            if bf.rsplit("-", 1)[0] not in have:
                os.symlink(os.path.join(base, bf), os.path.join(out, bf))
        changed = []
        for f in sorted(os.listdir(out)):
            if not f.endswith(".jsonl"):
                continue
            # the hash suffix of a fact file depends on the package path: compare by crate name
            crate = f.rsplit("-", 1)[0]
            cands = [b for b in base_sha if b.rsplit("-", 1)[0] == crate]
            p = os.path.join(out, f)
            if os.path.islink(p):
                continue
            same = [b for b in cands if os.path.getsize(os.path.join(base, b)) == os.path.getsize(p) and base_sha[b] == sha(p)]
            if same:
                os.remove(p)
                os.symlink(os.path.join(base, same[0]), p)
            else:
                changed.append(crate)
        from facts import Facts
        Facts(out).build_index()
        with open(out + "/COMPLETE", "w") as fh:
            fh.write("changed crates: %s\n" % " ".join(changed))
        print(i, "ok; changed crates:", " ".join(changed))
        sys.stdout.flush()
    sh("rm -rf %s" % WORK)


if __name__ == "__main__":
    main()
