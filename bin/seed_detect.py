#!/usr/bin/env python3
"""Apply every kept seed to /repo in turn (git apply; always reverted with git checkout -- .), run the property's own check
(and, if that is silent, every other check), and record which rule instances fire in seeded/<id>/detect.json.
usage: seed_detect.py [seed-name ...]"""
import json
import os
import re
import subprocess
import sys

V = "/verif"
ALL = ["C%02d" % i for i in range(1, 21)]


def sh(cmd, **kw):
    return subprocess.run(cmd, shell=True, capture_output=True, text=True, **kw)


def run_check(prop):
    env = dict(os.environ, CKB_VERIF_EVIDENCE_DIR="/scratch/seed-evidence")
    r = sh("%s/check %s" % (V, prop), env=env)
    keys = re.findall(r"^REPORT (\S+):", r.stdout, re.M)
    return r.returncode, keys


def main():
    seeds = sys.argv[1:] or sorted(d for d in os.listdir(V + "/seeded") if re.match(r"C\d\d-seed\d+$", d))
    assert sh("git -C /repo status --short").stdout.strip() == "", "/repo not clean"
    for s in seeds:
        prop = s[:3]
        patch = "%s/seeded/%s/patch.diff" % (V, s)
        a = sh("git -C /repo apply %s" % patch)
        if a.returncode:
            print(s, "APPLY FAILED", a.stderr[:200])
            continue
        try:
            out = {"seed": s, "property": prop, "checks": {}}
            rc, keys = run_check(prop)
            out["checks"][prop] = {"exit": rc, "keys": keys}
            if rc != 1:
                for p in ALL:
                    if p == prop:
                        continue
                    rc2, k2 = run_check(p)
                    if rc2 != 0:
                        out["checks"][p] = {"exit": rc2, "keys": k2}
            out["detected"] = any(v["exit"] == 1 for v in out["checks"].values())
            with open("%s/seeded/%s/detect.json" % (V, s), "w") as fh:
                json.dump(out, fh, indent=1)
            print(s, "DETECTED" if out["detected"] else "MISSED", {k: v["keys"][:3] for k, v in out["checks"].items() if v["keys"]})
            sys.stdout.flush()
        finally:
            sh("git -C /repo checkout -- .")
    print("repo status:", sh("git -C /repo status --short").stdout.strip() or "clean")


if __name__ == "__main__":
    main()
