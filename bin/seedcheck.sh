#!/bin/bash
# apply a seeded patch to /repo, run the given property checks, revert. usage: seedcheck.sh <patch.diff> Cxx [Cyy..]
P=$1; shift
cd /repo && git apply "$P" || { echo "APPLY FAILED $P"; exit 3; }
cd /verif
for c in "$@"; do CKB_VERIF_EVIDENCE_DIR=/scratch/seed-evidence ./check $c 2>&1 | grep -E "^REPORT|^C[0-9]+:|ERROR" | cut -c1-260; done
cd /repo && git checkout -- . && git status --short | head -3
