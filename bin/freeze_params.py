#!/usr/bin/env python3
"""Snapshot the parameter names of every function of the analysed workspace (by position) into rules/param_names.json.
Rules are written against these names (`param:target`); the engine emits the *snapshot* name of a position in addition to
the current one, so renaming a parameter - a behaviour-preserving edit - cannot make a rule lose its anchor.
Re-run only when rules are re-reviewed against a new tree."""
import json
import sys

sys.path.insert(0, "/verif/engine")
from facts import Facts  # noqa: E402

import run as _run  # noqa: E402

F = Facts(_run.ensure_facts()[0])
snap = {}
for c in F.crates():
    for b in F.bodies_of_crate(c):
        if b.argc >= 1 and b.kind in ("Fn", "AssocFn"):
            names = [b.local_names().get(i) for i in range(1, b.argc + 1)]
            if not any(names):
                continue
            if b.path in snap and snap[b.path] != names:
                snap[b.path] = None     # ambiguous path (several impls): no aliasing
            elif b.path not in snap:
                snap[b.path] = names
snap = {k: v for k, v in snap.items() if v}
with open("/verif/rules/param_names.json", "w") as fh:
    json.dump(snap, fh, sort_keys=True, separators=(",", ":"))
print("param snapshot: %d functions" % len(snap))
