#!/usr/bin/env python3
"""Development harness: summarise /scratch/corpus/eval.json (bin/corpus_eval.py) as the numbers quoted in DESIGN 9.3 / 9.6:
seeds detected by their own check / any check / a targeted (non-fingerprint) key, per round; benign changes silent per kind (c/f/r),
and the keys that fire on benign changes. usage: corpus_report.py [eval.json]"""
import json
import os
import re
import sys

p = sys.argv[1] if len(sys.argv) > 1 else "/scratch/corpus/eval.json"
res = json.load(open(p))
OUT = "/scratch/corpus"


def trees(kind):
    base = os.path.join(OUT, kind)
    return sorted(d for d in os.listdir(base) if os.path.exists(os.path.join(base, d, "COMPLETE"))) if os.path.isdir(base) else []


def rnd(seed):
    n = int(re.search(r"seed(\d+)$", seed).group(1))
    return 1 if n <= 2 else (2 if n <= 4 else 3)


rows = {}
for s in trees("seeded"):
    r = res.get("seeded/" + s, {})
    keys = sorted({k for v in r.values() for k in v["keys"]})
    own = s[:3] in r and r[s[:3]]["exit"] == 1
    tgt = [k for k in keys if "/fp/" not in k]
    t = rows.setdefault(rnd(s), {"n": 0, "own": 0, "any": 0, "tgt": 0, "missed": []})
    t["n"] += 1
    t["own"] += own
    t["any"] += bool(keys)
    t["tgt"] += bool(tgt)
    if not keys:
        t["missed"].append(s)
    elif not own:
        t.setdefault("other_only", []).append(s)
print("| round | seeds | own check | any check | by a targeted (non-fingerprint) key | missed |")
print("|---|---|---|---|---|---|")
for k in sorted(rows):
    t = rows[k]
    print("| %d | %d | %d | %d | %d | %s |" % (k, t["n"], t["own"], t["any"], t["tgt"], ", ".join(t["missed"]) or "-"))
    if t.get("other_only"):
        print("|   | detected by another property's check only: %s | | | | |" % ", ".join(t["other_only"]))
print()
kinds = {"c": "cleanup", "f": "functional addition", "r": "refactor"}
tot = {}
alarms = []
for b in trees("benign"):
    r = res.get("benign/" + b, {})
    keys = sorted({k for v in r.values() for k in v["keys"]})
    k = b[-1]
    t = tot.setdefault(k, [0, 0])
    t[0] += 1
    t[1] += not keys
    if keys:
        alarms.append((b, keys))
print("| kind | changes | all twenty checks silent |")
print("|---|---|---|")
for k in "cfr":
    if k in tot:
        print("| %s | %d | %d |" % (kinds[k], tot[k][0], tot[k][1]))
print()
for b, keys in alarms:
    print("- benign/%s: %s" % (b, ", ".join("`%s`" % x for x in sorted({re.sub(r"^C\d\d/", "", y) for y in keys})[:5])))
    for v in res.get("benign/" + b, {}).values():
        for k, t in list(v.get("texts", {}).items())[:1]:
            print("    %s" % t[:300])
