#!/usr/bin/env python3
"""Mutation twins: apply a small source edit to a scratch copy of /repo (never /repo itself),
re-extract facts, run the property's check and assert the expected finding key fires
(or, for behaviour-preserving twins, that nothing fires).
usage: selftest/run.py [--prop Cxx] [--only id] [--list] [--keep]"""
import json
import os
import re
import shutil
import subprocess
import sys
import time

V = os.path.dirname(os.path.dirname(os.path.abspath(__file__)))
sys.path.insert(0, os.path.join(V, "selftest"))
SCRATCH = os.environ.get("CKB_VERIF_SCRATCH", "/scratch/ckb-verif-selftest")


def load_mutants():
    out = []
    d = os.path.join(V, "selftest", "mutants")
    for f in sorted(os.listdir(d)):
        if f.endswith(".json"):
            with open(os.path.join(d, f)) as fh:
                for m in json.load(fh):
                    m.setdefault("prop", f[:-5])
                    out.append(m)
    return out


def sync_copy():
    dst = os.path.join(SCRATCH, "repo")
    os.makedirs(dst, exist_ok=True)
    subprocess.run(["rsync", "-a", "--delete", "--exclude", "/target", "--exclude", "/.git", "/repo/", dst + "/"], check=True)
    return dst


def apply(dst, m):
    for ed in m["edits"]:
        p = os.path.join(dst, ed["file"])
        s = open(p).read()
        if ed.get("word"):
            # identifier rename: whole-word replacement of every occurrence (behaviour-preserving twins)
            s2, n = re.subn(r"\b%s\b" % re.escape(ed["old"]), ed["new"], s)
            if n != ed.get("count", n) or n == 0:
                raise RuntimeError("mutant %s: identifier %s occurs %d times in %s (expected %s)" % (m["id"], ed["old"], n, ed["file"], ed.get("count")))
            open(p, "w").write(s2)
            continue
        n = s.count(ed["old"])
        if n != ed.get("count", 1):
            raise RuntimeError("mutant %s: snippet occurs %d times in %s (expected %d)" % (m["id"], n, ed["file"], ed.get("count", 1)))
        s = s.replace(ed["old"], ed["new"])
        open(p, "w").write(s)


def main():
    args = sys.argv[1:]
    prop = args[args.index("--prop") + 1] if "--prop" in args else None
    only = args[args.index("--only") + 1] if "--only" in args else None
    ms = [m for m in load_mutants() if (not prop or m["prop"] == prop) and (not only or m["id"] == only)]
    if "--twins" in args:
        ms = [m for m in ms if m.get("expect") is None]
    if "--list" in args:
        for m in ms:
            print(m["prop"], m["id"], m.get("expect"))
        return 0
    fails = 0
    results = []
    for m in ms:
        t0 = time.time()
        dst = sync_copy()
        try:
            apply(dst, m)
        except RuntimeError as e:
            if os.environ.get("CKB_VERIF_NO_SELFTEST"):
                # called from the thorough tier on an arbitrary tree: a twin whose snippet is gone is skipped, not failed
                results.append({"id": m["id"], "prop": m["prop"], "ok": True, "skipped": True, "why": str(e)})
                print("SKIP %-8s %-40s %s" % (m["prop"], m["id"], e))
                continue
            print("FAIL %-8s %-40s %s" % (m["prop"], m["id"], e))
            fails += 1
            continue
        env = dict(os.environ, CKB_VERIF_REPO=dst, CKB_VERIF_EVIDENCE_DIR=os.path.join(SCRATCH, "evidence"))
        r = subprocess.run([os.path.join(V, "check"), m["prop"]], capture_output=True, text=True, env=env)
        keys = re.findall(r"^REPORT (\S+):", r.stdout, re.M)
        exp = m.get("expect")
        if r.returncode == 2:
            ok = False
            why = "machinery error (mutant does not compile?): " + r.stdout[-300:] + r.stderr[-600:]
        elif exp is None and m.get("only_keys"):
            # a twin that changes behaviour-neutral form which the reference comparison legitimately reports: only the named rules must be silent
            hit = [k for k in keys if any(o in k for o in m["only_keys"])]
            ok = not hit
            why = "silent for %s" % m["only_keys"] if ok else "false alarm: %s" % hit
        elif exp is None:
            ok = r.returncode == 0
            why = "silent" if ok else "false alarm: %s" % keys
        else:
            ok = r.returncode == 1 and any(exp in k for k in keys)
            why = "fired %s" % [k for k in keys if exp in k] if ok else "expected %s, got rc=%d keys=%s" % (exp, r.returncode, keys)
        results.append({"id": m["id"], "prop": m["prop"], "ok": ok, "why": why})
        print("%s %-8s %-40s %s (%.0fs)" % ("PASS" if ok else "FAIL", m["prop"], m["id"], why, time.time() - t0))
        sys.stdout.flush()
        if not ok:
            fails += 1
    if "--keep" not in args:
        shutil.rmtree(SCRATCH, ignore_errors=True)
    print("selftest: %d mutants, %d failed" % (len(ms), fails))
    if "--json" in args:
        print(json.dumps(results))
    return 1 if fails else 0


if __name__ == "__main__":
    sys.exit(main())
